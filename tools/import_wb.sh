#!/bin/bash
# tools/import_wb.sh CXX NAME... : keep white-box adversary patches as hand-made mutants
p=$1; shift
for n in "$@"; do
  cp /tmp/wb/$p/$n.patch /verif/mutants/$p/wb_$n.patch
  [ -f /tmp/wb/$p/$n.md ] && cp /tmp/wb/$p/$n.md /verif/mutants/$p/wb_$n.md
  [ -f /tmp/wb/$p/${n}_demo.py ] && cp /tmp/wb/$p/${n}_demo.py /verif/mutants/$p/wb_${n}_demo.py
done
ls /verif/mutants/$p/wb_* | wc -l
