#!/usr/bin/env python3
"""Fill seeded/CXX-{M,N}/meta.json (round 11) from the REPORT.json files that
tools/mutcheck.py wrote.  Run after mutcheck."""
import json
import os

V = os.path.dirname(os.path.dirname(os.path.abspath(__file__)))
NEEDS = {
 "C01-P": "PSK/QPSK/QAM demodulate() given a REAL-dtype (float / int) sample array",
 "C01-Q": "QAM(256) (float-step arange returns 17 levels)",
 "C02-P": "a burst of more than 64 OFDM symbols whose count is not a multiple of 64 through the equalizer",
 "C02-Q": "FFT sizes that are not powers of two (10, 20, 40, 80, 100) with particular used-subcarrier counts",
 "C03-P": "time-domain MIMO transmission of exactly one symbol per antenna (ntx x 1 input)",
 "C03-Q": "channel length greater than twice the FFT size in the frequency domain",
 "C06-P": ">= 2 unpacked parameters whose names contain numbers of different digit counts (p2, p10)",
 "C06-Q": "one unpacked parameter, disjoint value sets that interleave ([0,10,20] + [5,15])",
 "C07-P": "run stopped while a partial file is written (stale .tmp), restart opens it with 'xb'",
 "C07-Q": "run stopped during the FIRST save of a variation (torn .tmp adopted by the restart)",
 "C08-P": "path loss on K >= 3 users with unequal antenna counts whose mean equals the first user's",
 "C08-Q": "ext-int channel with a path loss: an external source's block read through H[k, l] / get_Hkl",
 "C10-P": "per-user different antenna counts, a user asking for more streams than the smallest user has antennas, non-random initialisation",
 "C10-Q": "'fix' warm start with an Ns argument that differs from the precoders' stream counts",
 "C14-P": "a skip followed directly by generate_more_samples() without argument",
 "C14-Q": "any generator with L != 8 (normalisation with the default L)",
 "C15-P": "count_bit_errors of two arrays of different but broadcastable shapes, axis None",
 "C15-Q": "gray2binary of an array with two or more dimensions",
 "C20-P": "update_inv_sum_diag with a strictly negative diagonal entry",
 "C20-Q": "calcProjectionMatrix on moderately conditioned input (cond 30..1000): relative diagonal loading 1e-10",
}
FIRST_KILLED = set(k for k in NEEDS if k not in (
    "C01-P", "C02-P", "C06-P", "C15-P", "C10-P", "C20-P", "C15-Q"))
EXT = {
 "C01-P": "a quarter of the detection cases hand the samples over as a real-dtype array (samples on the real axis)",
 "C02-P": "long bursts (65 .. 257 OFDM symbols) in a tenth of the cases with <= 32 used subcarriers",
 "C06-P": "parameter names p2, p10, x9, x10",
 "C15-P": "part 'long': three decoded copies against one frame ((3,n) vs (n,) and the reverse)",
 "C10-P": "layout 'one small user next to well-equipped ones' and stream counts at every user's own limit",
 "C20-P": "inverse-update class 'mixed_sign' (entries in (-0.5, 0.5) times the smallest eigenvalue)",
}
NOT_CHASED = {
 "C15-Q": "NOT decided by the complete quick tier: with this change the complete C15 check did not terminate within 15 minutes (cause not found in the time left), while every part run on its own (--parts long|tables|gray|biterr|psk_offset|psk_history) reports the violation within 3-11 s. Recorded as a limitation: there is no per-case watchdog that turns a non-terminating run into a report.",
}


def main():
    for d in sorted(os.listdir(os.path.join(V, "seeded"))):
        if not (((d.endswith("-P") or d.endswith("-Q")) and d in NEEDS)):
            continue
        mp = os.path.join(V, "seeded", d, "meta.json")
        m = json.load(open(mp))
        rp = os.path.join(V, "seeded", d, "REPORT.json")
        rep = json.load(open(rp)) if os.path.exists(rp) else {}
        det = {}
        for key, r in rep.items():
            for prop in r.get("killed_by") or []:
                det.setdefault(prop, [])
                for b in (r.get(prop) or {}).get("buckets", []):
                    if b not in det[prop]:
                        det[prop].append(b)
        m["round"] = 11
        m["needs_to_manifest"] = NEEDS[d]
        m["first_run"] = "killed" if d in FIRST_KILLED else "survived"
        m["detected_by"] = det
        if d in EXT:
            m["extension"] = EXT[d]
        if d in NOT_CHASED:
            m["verdict"] = NOT_CHASED[d]
        elif det:
            m["verdict"] = "detected by " + ", ".join(
                "%s (%s)" % (p, "; ".join(b)) for p, b in sorted(det.items()))
        else:
            m["verdict"] = "NOT detected"
        json.dump(m, open(mp, "w"), indent=1)
        print(d, m["first_run"], "->", m["verdict"][:100])


if __name__ == "__main__":
    main()
