#!/venv/bin/python
"""Sensitivity protocol (DESIGN.md section 7).

For every patch mutants/<ID>/<name>.patch (or seeded/<name>/patch.diff with a
meta.json naming the property):
  * copy /repo (working tree, without .git) to a scratch dir outside /repo and
    /verif, apply the patch,
  * optionally (--tests) run the pinned test-suite there: the mutant must not
    fail any test of the stable baseline,
  * run the quick (or --tier thorough) check with VERIF_REPO=<scratch>,
    expecting exit code 1 and a VIOLATION line,
  * remove the scratch dir.
Results are merged into REPORT.json next to the patch.
"""
import argparse
import glob
import json
import os
import shutil
import subprocess
import sys
import tempfile
import time

VERIF = os.path.dirname(os.path.dirname(os.path.abspath(__file__)))
REPO = "/repo"
PY = "/venv/bin/python"


def baseline_allowed_failures():
    with open("/root/.vp/BASELINE.json") as f:
        b = json.load(f)
    return set(b["stable_pass"]), set(b["always_fail"]) | set(b["flaky"])


def run_tests(scratch):
    xml = os.path.join(scratch, "_junit.xml")
    subprocess.run([PY, "-m", "pytest", "-q", "-p", "no:cacheprovider",
                    "--timeout=900", "--junitxml=" + xml],
                   cwd=scratch, stdout=subprocess.DEVNULL,
                   stderr=subprocess.DEVNULL)
    import xml.etree.ElementTree as ET
    failed = set()
    for tc in ET.parse(xml).getroot().iter("testcase"):
        name = "%s::%s" % (tc.get("classname"), tc.get("name"))
        if tc.find("failure") is not None or tc.find("error") is not None:
            failed.add(name)
    return failed


def props_of(patch):
    d = os.path.dirname(patch)
    meta = os.path.join(d, "meta.json")
    if os.path.exists(meta):
        with open(meta) as f:
            m = json.load(f)
        p = m.get("property") or m.get("properties")
        extra = m.get("also_checked_by", [])
        return ([p] if isinstance(p, str) else list(p)) + list(extra)
    return [os.path.basename(d)]


def main():
    ap = argparse.ArgumentParser()
    ap.add_argument("patches", nargs="*")
    ap.add_argument("--tests", action="store_true")
    ap.add_argument("--tier", default="quick")
    ap.add_argument("--seed", default="1")
    ap.add_argument("--prop", default=None,
                    help="override the property whose check is run")
    args = ap.parse_args()
    patches = args.patches or sorted(
        glob.glob(os.path.join(VERIF, "mutants", "*", "*.patch")) +
        [os.path.join(d, "patch_rebased.diff")
         if os.path.exists(os.path.join(d, "patch_rebased.diff"))
         else os.path.join(d, "patch.diff")
         for d in glob.glob(os.path.join(VERIF, "seeded", "*"))])
    stable, allowed = baseline_allowed_failures()
    rc = 0
    for patch in patches:
        patch = os.path.abspath(patch)
        reb = os.path.join(os.path.dirname(patch), "patch_rebased.diff")
        if os.path.basename(patch) == "patch.diff" and os.path.exists(reb):
            # the tree was repaired after this change was handed in
            patch = reb
        key = os.path.relpath(patch, VERIF)
        # one report per directory (several people run this in parallel)
        report_path = os.path.join(os.path.dirname(patch), "REPORT.json")
        if "proposed_fixes" in key:
            report_path = None
        report = {}
        if report_path and os.path.exists(report_path):
            with open(report_path) as f:
                report = json.load(f)
        scratch = tempfile.mkdtemp(prefix="vpbt-mut-", dir="/tmp")
        try:
            subprocess.check_call(
                ["rsync", "-a", "--exclude", ".git", "--exclude", "docs",
                 "--exclude", "notebooks", "--exclude", "ipython_notebooks",
                 "--exclude", "__pycache__", REPO + "/", scratch + "/"])
            r = subprocess.run(["patch", "-p1", "-s", "-i", patch],
                               cwd=scratch, capture_output=True, text=True)
            if r.returncode != 0:
                print("%-60s PATCH-DOES-NOT-APPLY %s" % (key, r.stdout[:200]))
                report[key] = dict(status="does_not_apply")
                rc = 1
                continue
            entry = dict(tier=args.tier, seed=args.seed)
            if args.tests:
                failed = run_tests(scratch)
                broke = sorted(failed & stable)
                entry["tests_broken"] = broke
                if broke:
                    print("%-60s BREAKS-TESTS %s" % (key, broke[:3]))
            props = [args.prop] if args.prop else props_of(patch)
            killed_by = []
            for prop in props:
                env = dict(os.environ, VERIF_REPO=scratch,
                           VERIF_SEED=args.seed,
                           VERIF_EVIDENCE_DIR=os.path.join(scratch, "_ev"))
                t0 = time.time()
                r = subprocess.run([PY, "-m", "vpbt", "check", prop, "--tier",
                                    args.tier], cwd=VERIF, env=env,
                                   capture_output=True, text=True)
                dt = time.time() - t0
                viol = [l for l in r.stdout.splitlines()
                        if l.startswith("VIOLATION")]
                buckets = [l.strip() for l in r.stdout.splitlines()
                           if l.strip().startswith("bucket=")]
                entry[prop] = dict(exit=r.returncode, wall=round(dt, 1),
                                   buckets=buckets[:5])
                if r.returncode == 1 and viol:
                    killed_by.append(prop)
                elif r.returncode not in (0, 1):
                    print(r.stderr[-2000:])
            entry["killed_by"] = killed_by
            entry["status"] = "killed" if killed_by else "SURVIVED"
            if not killed_by and any(entry[p]["exit"] not in (0, 1)
                                     for p in props):
                # the check itself failed (exit 2): neither a detection nor
                # a clean run
                entry["status"] = "HARNESS-ERROR"
            if not killed_by:
                rc = 1
            print("%-60s %s %s" % (key, entry["status"],
                                   {p: entry[p]["buckets"][:2]
                                    for p in props}))
            report[key] = entry
        finally:
            shutil.rmtree(scratch, ignore_errors=True)
            if report_path:
                with open(report_path, "w") as f:
                    json.dump(report, f, indent=1, sort_keys=True)
    return rc


if __name__ == "__main__":
    sys.exit(main())
