#!/usr/bin/env python3
"""Fill seeded/CXX-{M,N}/meta.json (round 10) from the REPORT.json files that
tools/mutcheck.py wrote.  Run after mutcheck."""
import json
import os

V = os.path.dirname(os.path.dirname(os.path.abspath(__file__)))
NEEDS = {
 "C04-P": "MMSE filter (noise_var > 0), a single stream and a complex channel (np.inner without conjugate)",
 "C04-Q": "a 1-D channel handed to the CONSTRUCTOR of MRC / Alamouti (constructor no longer calls the setter)",
 "C05-P": "a runner that inherits _keep_going from an intermediate base class",
 "C05-Q": "an iteration that changes a list-valued fixed parameter in place, >= 2 combinations",
 "C09-M": "one antenna per user (square channel): zero-forcing shortcut with norms along the wrong axis",
 "C09-N": "automatic metric, >= 3 antennas per user, at most N-2 streams chosen (candidate views rescaled in place)",
 "C11-P": "channel object's calc_SINR, a user with >= 2 streams, a later stream, filter that does not zero-force the own streams",
 "C11-Q": "solver calc_SINR called before anything read full_W_H, a user with >= 2 streams",
 "C12-P": "noiseVar != 1 and Es != 1 in the same call (elif instead of a second if)",
 "C12-Q": ">= 64 channels, at least half deeply faded, more than one active in the optimum",
 "C13-P": "PathLossFreeSpace with n != 2 and the LINEAR inverse query which_distance",
 "C13-Q": "Okumura-Hata, area 'large city', fc <= 300 MHz",
 "C16-P": "QAM with M >= 1024 (Gray index built in one-byte integers)",
 "C16-Q": "spectral efficiency at low SNR with no / a very short packet length (capped by log2(1+snr))",
 "C17-P": "a file-name query with a template that names an unknown parameter, then a JSON round trip compared with ==",
 "C17-Q": "a RATIO result whose accumulated total is not a whole number, through dict / JSON",
 "C18-P": "an SRS and a DMRS sequence of the same length and the same non-zero shift index in one process",
 "C18-Q": "batch LS estimation with one pilot matrix per realization and num_realizations != Nt",
 "C19-P": "a cluster built with a NEGATIVE rotation",
 "C19-Q": "square cells with a rotation that is not a multiple of 90 degrees, random users",
}
FIRST_KILLED = set(k for k in NEEDS if k not in (
    "C05-P", "C05-Q", "C17-P", "C17-Q"))
EXT = {
 "C05-P": "for even rep_max the harness instantiates an empty subclass of its recorder class (everything inherited)",
 "C05-Q": "optional list-valued fixed parameter 'queue' that the iteration consumes in place; every combination must start with the configured value",
 "C17-P": "a file-name query with an unknown template field is made before the round trips (the name comes back as it is or the call is refused; the object must still round-trip and compare equal)",
 "C17-Q": "RATIO observations with float value and total (quarters)",
}
NOT_CHASED = {}


def main():
    for d in sorted(os.listdir(os.path.join(V, "seeded"))):
        if not ((d.endswith("-P") or d.endswith("-Q") or d in ("C09-M", "C09-N"))):
            continue
        mp = os.path.join(V, "seeded", d, "meta.json")
        m = json.load(open(mp))
        rp = os.path.join(V, "seeded", d, "REPORT.json")
        rep = json.load(open(rp)) if os.path.exists(rp) else {}
        det = {}
        for key, r in rep.items():
            for prop in r.get("killed_by") or []:
                det.setdefault(prop, [])
                for b in (r.get(prop) or {}).get("buckets", []):
                    if b not in det[prop]:
                        det[prop].append(b)
        m["round"] = 10
        m["needs_to_manifest"] = NEEDS[d]
        m["first_run"] = "killed" if d in FIRST_KILLED else "survived"
        m["detected_by"] = det
        if d in EXT:
            m["extension"] = EXT[d]
        if d in NOT_CHASED:
            m["verdict"] = NOT_CHASED[d]
        elif det:
            m["verdict"] = "detected by " + ", ".join(
                "%s (%s)" % (p, "; ".join(b)) for p, b in sorted(det.items()))
        else:
            m["verdict"] = "NOT detected"
        json.dump(m, open(mp, "w"), indent=1)
        print(d, m["first_run"], "->", m["verdict"][:100])


if __name__ == "__main__":
    main()
