#!/venv/bin/python
"""Create a unified diff against a file of /repo WITHOUT touching /repo.

usage: tools/mkpatch.py OUT.patch REPO_RELATIVE_FILE <<'END'
<<<<<<< OLD
exact old text (must occur exactly once)
=======
new text
>>>>>>> NEW
END
Several OLD/NEW blocks may follow each other (same file).  Append to an
existing patch with --append (for multi-file changes).
"""
import difflib
import re
import sys


def main():
    args = [a for a in sys.argv[1:] if a != "--append"]
    append = "--append" in sys.argv
    out, rel = args
    spec = sys.stdin.read()
    blocks = re.findall(
        r"<<<<<<< OLD\n(.*?)\n?=======\n(.*?)\n?>>>>>>> NEW", spec, re.S)
    if not blocks:
        sys.exit("no OLD/NEW blocks on stdin")
    with open("/repo/" + rel) as f:
        old = f.read()
    new = old
    for o, n in blocks:
        if new.count(o) != 1:
            sys.exit("OLD text occurs %d times (need exactly 1):\n%s" %
                     (new.count(o), o))
        new = new.replace(o, n)
    diff = "".join(difflib.unified_diff(
        old.splitlines(True), new.splitlines(True),
        "a/" + rel, "b/" + rel))
    if not diff:
        sys.exit("empty diff")
    with open(out, "a" if append else "w") as f:
        f.write(diff)
    print("wrote", out)


if __name__ == "__main__":
    main()
