#!/bin/bash
# run all thorough tiers sequentially, log summary lines
for p in C12 C01 C16 C15 C13 C02 C14 C03 C04 C20 C08 C11 C09 C10 C18 C19 C06 C17 C05 C07; do
  /usr/bin/time -f "$p wall=%es" /venv/bin/python -m vpbt check $p --tier thorough 2>&1 | grep -v "^  \|RuntimeWarning\|^KNOWN" | tail -4
done
