#!/usr/bin/env python3
"""Fill seeded/CXX-{G,H}/meta.json (round 4) from the REPORT.json files that
tools/mutcheck.py wrote.  Run after mutcheck."""
import json
import os

V = os.path.dirname(os.path.dirname(os.path.abspath(__file__)))
NEEDS = {
 "C01-G": "a PSK object whose shared unit-circle table was rotated in place by another object's phase offset",
 "C01-H": "two demodulate() calls with the same number of samples on one object while the first result is still held (result was a view of a buffer kept by the object)",
 "C02-G": "|H(f)| < 1e-6 on used carriers (path loss >= 120 dB): carriers declared nulls",
 "C02-H": "TdlChannel with 1 rx, >1 tx antennas, switched direction and a 1-D signal (a C03 relation; the C02 check only drives SISO channels)",
 "C03-G": "subcarrier selection holding every index of the FFT in permuted order",
 "C03-H": "path loss exactly 0.0 (SuChannel.set_pathloss(0) / zero entries of the path-loss matrix): reported impulse response not scaled",
 "C04-G": "a set_channel_matrix call that Alamouti rejects (Nt != 2) followed by decode: the rejected channel was already stored",
 "C04-H": "GMD of a channel with two equal singular values",
 "C05-G": "a stop rule (_keep_going) that returns numpy.bool_ False",
 "C05-H": "an unpacked parameter that lists a value twice (SNR=0:5:20,20)",
 "C06-G": "combine_simulation_results of grids whose values have different dtypes (int vs float, strings of different length)",
 "C06-H": "combining three result sets where the first combination of the first pair was simulated in neither (CHOICE result never updated)",
 "C07-G": "a resumed run whose loaded partial results already satisfy the stop rule",
 "C07-H": "no unpacked parameter, partial_results_folder=None, process dies after the final file is written, restart",
 "C08-G": "noise_var set to exactly 0.0 after a noisy corrupt call (stale last_noise)",
 "C08-H": "get_Hkl with NEGATIVE indices (numpy style); the positive-index behaviour is unchanged",
 "C09-G": "two block_diagonalize calls on one object while the first result is still held (precoders were views of a buffer)",
 "C09-H": "the dictionary handed to set_ext_int_handling_metric('fixed', d) is changed by the caller afterwards",
 "C10-G": "minimum-leakage iterations with UNEQUAL stream counts on a crowded channel (reverse-network weights P/Ns)",
 "C10-H": "GreedStreamIASolver wrapper, restore branch (stream reduction lowered capacity), P != 1",
 "C11-G": "IA solver calc_Q on an external-interference channel (external term dropped)",
 "C11-H": "two MultiUserChannelMatrixExtInt objects alive, both queried with the same pe (class-level cache)",
 "C12-G": "gains below 2.2e-16 (with a matching noise level)",
 "C12-H": ">= 3 channels switched off in one water-filling run (stale minimum level)",
 "C13-G": "an Okumura-Hata setter call that is rejected (value out of range), then the model is used again",
 "C13-H": "which_distance for a loss above 156.5 dB",
 "C14-G": "Fd*t > 1e6 (clock re-based)",
 "C14-H": "get_similar_fading_generator() on a generator that has already produced samples",
 "C15-G": "PSK with a phase offset of one symbol spacing or more",
 "C15-H": "bit counting of labels >= 2^32",
 "C16-G": "PSK symbol error rate above the clipping point (low SNR, large M)",
 "C16-H": "QPSK.modulate emitting a constellation that differs from the symbols table (unequal axis scaling)",
 "C17-G": "a SET-valued parameter marked unpacked, JSON round trip: the iteration order of the loaded set differs",
 "C17-H": "a child SimulationParameters object rebuilt from its parent after loading",
 "C18-G": "num_taps_to_keep = 0",
 "C18-H": "LS estimation with one transmit antenna and pilot instants that are exactly zero",
 "C19-G": "13-cell cluster not centred at the origin",
 "C19-H": "Cell3Sec user placement with a minimum distance",
 "C20-G": "whitening of a covariance whose eigenvalues are below 2.2e-16 (absolute scale)",
 "C20-H": "inverse update of a matrix with exact zero entries",
}
FIRST_KILLED = set("C01-G C02-G C03-G C07-G C08-G C11-G C14-G C15-G C16-G "
                   "C18-G C19-G C04-H C12-H C13-H C15-H C17-H C19-H "
                   "C20-H".split())
EXT = {
 "C01-H": "core.GuardedCalls now also watches arrays RETURNED by earlier guarded calls",
 "C09-G": "core.GuardedCalls now also watches arrays RETURNED by earlier guarded calls",
 "C03-H": "path loss 0.0 and 1e-18..1e-10 generated",
 "C04-G": "history op 'rejected' (refused set_channel_matrix / set_noise_var) followed by use",
 "C13-G": "setter steps with out-of-range values that must be refused and leave the model unchanged",
 "C05-G": "stop rule result returned as numpy.bool_",
 "C05-H": "value lists with repeats; variations told apart by unpack_index",
 "C06-G": "value kinds 'mixed' (int/float) and 'str' (different lengths)",
 "C06-H": "three-set chains (a+b)+c and a+(b+c); this also exposed a genuine defect (fix 445ca0a)",
 "C07-H": "enum + random classes with partial_results_folder=None and nothing unpacked",
 "C09-H": "caller re-uses the configuration dictionary; exposed the same aliasing for 'naive' on the unchanged tree (fix de48283)",
 "C10-G": "mono part: crowded channels with unequal stream counts, up to 16 iterations, 1600 cases",
 "C10-H": "post part: a third of the iterative noisy cases run through GreedStreamIASolver",
 "C11-H": "a second ExtInt channel object is built and queried before the object under test",
 "C12-G": "common absolute scale 1e-24..1e15 of gains and noise",
 "C14-H": "history op 'spawn' continues with the similar generator",
 "C16-H": "geometry from modulate(arange(M)) and a neighbour-structure check",
 "C18-H": "pilot matrices with exactly-zero instants",
 "C20-G": "absolute scale 1e-30..1e30 of the covariance",
}
NOT_CHASED = {
 "C08-H": "out of the documented domain: get_Hkl takes a receiver and a transmitter INDEX; negative (from-the-end) indices are neither documented nor used by the library or its tests, so the check does not generate them",
 "C17-G": "out of domain: the iteration order of a set is not part of its value. On the UNCHANGED tree set(list(s)) already iterates differently from s for 17% of 2..4-element integer sets (e.g. built from (3, 11)), so 'the order of an unpacked set survives a round trip' is not a relation the library can have; the check compares set-valued parameters as sets",
 "C02-H": "the change is in TdlChannel's MIMO shape helper: killed by the C03 check (time_convolution / IndexError); the C02 statement is about SISO channels",
}


def main():
    for d in sorted(os.listdir(os.path.join(V, "seeded"))):
        if not (d.endswith("-G") or d.endswith("-H")):
            continue
        mp = os.path.join(V, "seeded", d, "meta.json")
        m = json.load(open(mp))
        rp = os.path.join(V, "seeded", d, "REPORT.json")
        rep = json.load(open(rp)) if os.path.exists(rp) else {}
        det = {}
        for key, r in rep.items():
            for prop in r.get("killed_by") or []:
                det.setdefault(prop, [])
                for b in (r.get(prop) or {}).get("buckets", []):
                    if b not in det[prop]:
                        det[prop].append(b)
        m["round"] = 4
        m["needs_to_manifest"] = NEEDS[d]
        m["first_run"] = "killed" if d in FIRST_KILLED else "survived"
        m["detected_by"] = det
        if d in EXT:
            m["extension"] = EXT[d]
        if d in NOT_CHASED:
            m["verdict"] = NOT_CHASED[d]
        elif det:
            m["verdict"] = "detected by " + ", ".join(
                "%s (%s)" % (p, "; ".join(b)) for p, b in sorted(det.items()))
        else:
            m["verdict"] = "NOT detected"
        json.dump(m, open(mp, "w"), indent=1)
        print(d, m["first_run"], "->", m["verdict"][:100])


if __name__ == "__main__":
    main()
