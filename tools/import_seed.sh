#!/bin/bash
# tools/import_seed.sh CXX-A ... : confirm demo on the scratch worktree, copy into /verif/seeded
for s in "$@"; do
  wt=/tmp/seeds/wt-${s%-*}
  git -C $wt checkout -- . 2>/dev/null
  /venv/bin/python /tmp/seeds/$s/demo.py $wt >/dev/null 2>&1; a=$?
  git -C $wt apply /tmp/seeds/$s/patch.diff && /venv/bin/python /tmp/seeds/$s/demo.py $wt >/dev/null 2>&1; b=$?
  git -C $wt checkout -- .
  echo "$s clean=$a patched=$b"
  mkdir -p /verif/seeded/$s
  cp /tmp/seeds/$s/patch.diff /tmp/seeds/$s/demo.py /tmp/seeds/$s/notes.md /verif/seeded/$s/
  p=${s%-*}
  cat > /verif/seeded/$s/meta.json <<EOT
{"property": "$p", "origin": "independent sub-agent (given only the property text and a scratch worktree)", "demo_exit_clean": $a, "demo_exit_patched": $b, "ran": "demo.py <tree> on the clean scratch worktree and with patch.diff applied (main session); full test-suite with the change (sub-agent; re-checked by tools/mutcheck.py --tests)"}
EOT
done
