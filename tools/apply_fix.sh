#!/bin/bash
# tools/apply_fix.sh <PROP> <patch-basename-without-.patch> <testfile> <commit message file>
set -e
prop=$1; name=$2; testf=$3; msgf=$4
cd /repo
patch -p1 -s --no-backup-if-mismatch < /verif/proposed_fixes/$name.patch
/venv/bin/python -m pytest -q -p no:cacheprovider $testf 2>&1 | tail -1
git commit -qa -F $msgf
C=$(git log --format=%h -1)
cd /verif
tools/mark_fixed.py $prop $name $C || true
mkdir -p proposed_fixes/applied
mv proposed_fixes/$name.patch proposed_fixes/applied/
echo "applied $name as $C"
