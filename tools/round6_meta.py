#!/usr/bin/env python3
"""Fill seeded/CXX-{G,H}/meta.json (round 6) from the REPORT.json files that
tools/mutcheck.py wrote.  Run after mutcheck."""
import json
import os

V = os.path.dirname(os.path.dirname(os.path.abspath(__file__)))
NEEDS = {
 "C01-K": "a received sample closer to the origin than to any constellation point (running maximum started at 0)",
 "C01-L": "PSK with a phase offset that puts the +-pi branch cut inside a sector, sample just above the negative real axis",
 "C02-K": "tap profile NOT listed in increasing delay order with two delays rounding to the same sample",
 "C02-L": "the unscaled reported response looked at first, then 'g * ir' fed to the equalizer with the attenuated signal",
 "C03-K": "MIMO link, number of symbols equal to the number of transmitting antennas, non-symmetric input block",
 "C03-L": "carrier index arrays / lists with NEGATIVE entries (np.take clip mode)",
 "C04-K": "GMDMimo with a positive noise variance (sqrt(Nt) compensation lost in the MMSE branch)",
 "C04-L": "Blast / MRC decode of a block whose number of channel uses equals Nr",
 "C05-K": "SkipThisOne in a later repetition AND a stop rule that reads num_skipped_reps",
 "C05-L": "an unpacked parameter with None among its values, look-up fixing it to None",
 "C06-K": "a result whose name is a substring of 'num_skipped_reps' ('reps', 'num', 'r')",
 "C06-L": "combine of an operand whose unpacked values are not in ascending order",
 "C07-K": "restart with a parameter REMOVED from the configuration",
 "C07-L": ".json results file and a tuple-valued parameter (partial results written as JSON)",
 "C08-K": "as many external sources as users (>= 2) and a non-symmetric external path loss",
 "C08-L": "corrupt_data with a number of symbols equal to a transmitter's antenna count",
 "C09-K": "'fixed' metric, external interference of rank >= 2, num_streams <= Nr - rank",
 "C09-L": "'effective_throughput' with a settings dictionary that also holds other keys",
 "C10-K": "set_precoders(full_F=..., P=...) without F, full_F using less than P",
 "C10-L": "stored full_F different from sqrt(P) F (MMSE with slack power, or explicit full_F below P)",
 "C11-K": "external-interference class with a path loss whose external entries are not 1",
 "C11-L": "external-interference class, non-symmetric user path loss, a quantity computed through get_Hkl",
 "C12-K": "power so low that only the best of >= 2 channels is used",
 "C12-L": "the channel listed first is one of those switched off (water level read from it)",
 "C13-K": "plot_deterministic_path_loss_in_dB(d, ax) with the caller's axes, then a too-small distance on the default policy",
 "C13-L": "PathLossFreeSpace constructed with a non-default exponent, used before any setter",
 "C14-K": "generate_more_samples(1) on a generator without shape",
 "C14-L": "skip_samples_for_next_generation(1)",
 "C15-K": "gray2binary of narrow UNSIGNED types with the top bit set (uint8 >= 128, uint32 >= 2^31)",
 "C15-L": "bit errors above the highest bit of max(second operand)",
 "C16-K": "packet length not a multiple of log2(M) in the spectral efficiency",
 "C16-L": "QAM (M >= 16) packet error rate",
 "C17-K": "a STRING-valued parameter marked unpacked, dict / JSON round trip",
 "C17-L": "file-name template whose format spec does not fit the value ('{SNR:d}' with a float)",
 "C18-K": "cover-code estimator with extra_dimension=False and several receive antennas",
 "C18-L": "sizes just above the square of a prime (25-28, 49-52, ..., 529-540, 841-852, 961-966)",
 "C19-K": "add_border_users(single cell id, list of angles, list of ratios)",
 "C19-L": "19-cell cluster with a rotation that is not a multiple of 60 degrees, wrap-around cells",
 "C20-K": "gmd of matrices with >= 5 singular values interleaved around the geometric mean",
 "C20-L": "calc_chordal_distance(real basis, complex basis)",
}
FIRST_KILLED = set(k for k in NEEDS if k not in (
    "C05-K", "C05-L", "C06-K", "C07-K", "C07-L", "C13-K", "C17-L", "C19-K",
    "C10-K", "C02-L"))
EXT = {
 "C05-K": "stop rule kind 'skipped' (continue while fewer than N attempts were skipped)",
 "C05-L": "value lists containing None",
 "C06-K": "result names 'reps', 'num', 'r', 'skipped'",
 "C07-K": "final modes guard_removed / guard_added",
 "C07-L": "optional tuple-valued fixed parameter; the harness reads partial files in whatever format the library wrote them (the first run ended in a harness error, exit 2, which is not a detection)",
 "C13-K": "step option 'plot': the deterministic loss is plotted on a stand-in axes object before the query",
 "C17-L": "template field '{name:d}': values that do not fit are refused, never renamed",
 "C19-K": "border users added with one call per cell (single id, lists of angles and ratios)",
 "C10-K": "set_precoders with only full_F, backed off from the budget, together with P",
 "C02-L": "the caller scales the reported response and the received signal after having used the response",
}
NOT_CHASED = {}


def main():
    for d in sorted(os.listdir(os.path.join(V, "seeded"))):
        if not (d.endswith("-K") or d.endswith("-L")):
            continue
        mp = os.path.join(V, "seeded", d, "meta.json")
        m = json.load(open(mp))
        rp = os.path.join(V, "seeded", d, "REPORT.json")
        rep = json.load(open(rp)) if os.path.exists(rp) else {}
        det = {}
        for key, r in rep.items():
            for prop in r.get("killed_by") or []:
                det.setdefault(prop, [])
                for b in (r.get(prop) or {}).get("buckets", []):
                    if b not in det[prop]:
                        det[prop].append(b)
        m["round"] = 6
        m["needs_to_manifest"] = NEEDS[d]
        m["first_run"] = "killed" if d in FIRST_KILLED else "survived"
        m["detected_by"] = det
        if d in EXT:
            m["extension"] = EXT[d]
        if d in NOT_CHASED:
            m["verdict"] = NOT_CHASED[d]
        elif det:
            m["verdict"] = "detected by " + ", ".join(
                "%s (%s)" % (p, "; ".join(b)) for p, b in sorted(det.items()))
        else:
            m["verdict"] = "NOT detected"
        json.dump(m, open(mp, "w"), indent=1)
        print(d, m["first_run"], "->", m["verdict"][:100])


if __name__ == "__main__":
    main()
