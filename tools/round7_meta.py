#!/usr/bin/env python3
"""Fill seeded/CXX-{M,N}/meta.json (round 9) from the REPORT.json files that
tools/mutcheck.py wrote.  Run after mutcheck."""
import json
import os

V = os.path.dirname(os.path.dirname(os.path.abspath(__file__)))
NEEDS = {
 "C01-M": "demodulating an array that holds exactly ONE sample (shapes (1,), (1,1), (1,1,1))",
 "C01-N": "modulating an index array with zero elements",
 "C02-M": "nothing in the configuration: the equalizer averages the response in single precision (1e-7 relative)",
 "C02-N": "a tap power profile spread over 60 dB or more (weak taps skipped in the time-domain transmission)",
 "C03-M": "gap-free profile and a frequency-domain transmission with fft_size equal to the channel length (reported taps overwritten by their DFT)",
 "C03-N": "MIMO link, switched direction, time-domain transmission, profile with a gap",
 "C04-M": "calc_SINRs / calc_linear_SINRs(nv > 0) called on an object left at zero-forcing, then a noise-free encode/decode",
 "C04-N": "Alamouti with a single-precision (complex64 / float32) data block",
 "C05-M": "an unpacked parameter whose values are equal-length tuples sharing components, look-up fixing it",
 "C05-N": "every unpacked parameter lists exactly one value",
 "C06-M": "combine with a parameter fixed at a falsy value (0, 0.0, False, '')",
 "C06-N": "'num_skipped_reps' not the last result name of the receiving set",
 "C07-M": "simulate(param_variation_index=i) jobs with >= 2 unpacked parameters whose set order differs from the sorted order",
 "C07-N": "run stopped by an exception / Ctrl-C with delete_partial_results_bool=True",
 "C08-M": "plain channel: a path loss set and then removed with set_pathloss(None)",
 "C08-N": "path loss + post filter + noise_var None together",
 "C10-M": "set_receive_filters then set_precoders with another stream count on a solver that holds a solution",
 "C10-N": "closed form on sizes with Nr != 2 Ns (3x3/1, 5x5/2, ...)",
 "C11-M": "a user with Ns == Nr >= 2 (square receive filter) in the channel object's calc_SINR",
 "C11-N": "sum capacity of one call above 1024 bit/s/Hz (product overflow)",
 "C12-M": "every channel above 70 dB SNR with unequal gains (allocation off by <= 1e-7 relative)",
 "C12-N": "weakest channel listed last, the one before it not the weakest of the others, low power",
 "C13-M": "shadowing switched on and a distance whose deterministic loss is small but positive",
 "C13-N": "Okumura-Hata, clamp policy, distance below 1 km",
 "C14-M": "a shape assignment on a generator that has already advanced (clock reset)",
 "C14-N": "exactly one of phi_l / psi_l handed to generate_jakes_samples",
 "C15-M": "count_bit_errors on >= 3-D input with a reduction axis other than 0 or 1",
 "C15-N": "size-0 arrays handed to count_bit_errors / count_bits",
 "C16-M": "a QAM object re-initialised through setConstellation with a QAM constellation of another order",
 "C16-N": "nothing specific: every Q-function argument scaled by (1 - 1.7e-9)",
 "C17-M": "JSON with both runned_reps set and current_rep != -1",
 "C17-N": "string parameters that differ only in ':' '|' '*' '?' versus '_' in a file-name template",
 "C18-M": "num_taps_to_keep >= Nsc - 1 (keep every tap)",
 "C18-N": "a cover code with four elements",
 "C19-M": "Cluster.add_random_users with cell_ids omitted and a non-zero min_dist_ratio",
 "C19-N": "a user closer than 1e-3 cell radii to a cell centre (distance matrix with wrap-around)",
 "C20-M": "least_right_singular_vectors of a Hermitian matrix with a negative eigenvalue",
 "C20-N": "peig / leig of a REAL symmetric matrix (eig path, unordered eigenvalues)",
}
FIRST_KILLED = set(k for k in NEEDS if k not in (
    "C05-M", "C18-M", "C18-N", "C19-M", "C04-M", "C04-N", "C17-N", "C14-N",
    "C13-M", "C12-M", "C02-N", "C11-N", "C16-M"))
EXT = {
 "C05-M": "value kind 'tuples' for unpacked parameters ((2,2), (2,4), ...)",
 "C18-M": "'keep every tap' requests (K = N-1, N, N+3) when nobody else transmits",
 "C18-N": "cover codes over four reference symbols (Hadamard rows), same-shift users on orthogonal rows",
 "C19-M": "the all-cells short form of Cluster.add_random_users (keyword min_dist_ratio, or a per-cell list of ratios)",
 "C04-M": "history op 'query': calc_SINRs / calc_linear_SINRs for some noise level, compared with a freshly configured object; the next use judges that nothing was configured",
 "C17-N": "string values with ':' '|' '*' '?' '<' '>' '_' ; the 'near' variant writes the same label with an underscore",
 "C14-N": "func part: exactly one phase argument given - least-squares fit on the exponentials of the given Doppler shifts (only phi_l), exact sample at time 0 (only psi_l)",
 "C13-M": "a sixth of the steps makes one shadowed query (array and scalar) judged by the policy only",
 "C12-M": "class 'very high SNR': equal share = 1e5..1e9.5 times the worst floor",
 "C02-N": "tap powers down to -120 dB in C02 and C03 (C03 detects it as well)",
 "C11-N": "util.misc.calc_shannon_sum_capacity called on the case's SINRs and on a frame of 14..32 x 8 SINRs of 20..40 dB",
 "C16-M": "a sixth of the PSK/QAM cases use an object of another order re-initialised through setConstellation",
}
NOT_CHASED = {
 "C04-N": "judged outside the stated domain: the block is given in single precision and the error (1e-7 relative) is at the level of the input's own precision; the unchanged Blast.encode keeps complex64 for such input as well, so 'exactly' cannot mean double precision for single-precision data",
}


def main():
    for d in sorted(os.listdir(os.path.join(V, "seeded"))):
        if not (d.endswith("-M") or d.endswith("-N")):
            continue
        mp = os.path.join(V, "seeded", d, "meta.json")
        m = json.load(open(mp))
        rp = os.path.join(V, "seeded", d, "REPORT.json")
        rep = json.load(open(rp)) if os.path.exists(rp) else {}
        det = {}
        for key, r in rep.items():
            for prop in r.get("killed_by") or []:
                det.setdefault(prop, [])
                for b in (r.get(prop) or {}).get("buckets", []):
                    if b not in det[prop]:
                        det[prop].append(b)
        m["round"] = 9
        m["needs_to_manifest"] = NEEDS[d]
        m["first_run"] = "killed" if d in FIRST_KILLED else "survived"
        m["detected_by"] = det
        if d in EXT:
            m["extension"] = EXT[d]
        if d in NOT_CHASED:
            m["verdict"] = NOT_CHASED[d]
        elif det:
            m["verdict"] = "detected by " + ", ".join(
                "%s (%s)" % (p, "; ".join(b)) for p, b in sorted(det.items()))
        else:
            m["verdict"] = "NOT detected"
        json.dump(m, open(mp, "w"), indent=1)
        print(d, m["first_run"], "->", m["verdict"][:100])


if __name__ == "__main__":
    main()
