#!/venv/bin/python
"""Regenerate /verif/MANIFEST.json from the property modules' metadata and
validate it (and every evidence file present) against the schemas."""
import glob
import importlib
import json
import os
import sys

VERIF = os.path.dirname(os.path.dirname(os.path.abspath(__file__)))
sys.path.insert(0, VERIF)

SETUP = ("/venv/bin/python -c 'import hypothesis' 2>/dev/null || "
         "/venv/bin/pip install --no-index --find-links "
         "/opt/veriftools/wheels hypothesis")

NOT_APPLICABLE = {}

# property checks that are finished (quiet on 5 seeds, mutants killed,
# reviewed); everything else is listed as not claimed yet
READY = ["C%02d" % i for i in range(1, 21)]


def main():
    with open(os.path.join(VERIF, "properties.jsonl")) as f:
        props = [json.loads(l) for l in f if l.strip()]
    checks = []
    na = []
    for p in props:
        pid = p["id"]
        hits = glob.glob(os.path.join(VERIF, "vpbt", "props",
                                      pid.lower() + "_*.py"))
        if not hits or pid not in READY:
            na.append(dict(property_id=pid, reason=NOT_APPLICABLE.get(
                pid, "check not built yet (planned, see DESIGN.md section 5)")))
            continue
        m = importlib.import_module("vpbt.props." +
                                    os.path.basename(hits[0])[:-3])
        base = "/venv/bin/python -m vpbt check %s" % pid
        checks.append(dict(
            property_id=pid,
            quick_cmd=base + " --tier quick",
            thorough_cmd=base + " --tier thorough",
            evidence_file="/verif/evidence/%s.json" % pid,
            replay_cmd_template=base + " --replay {path}",
            engine="vpbt",
            level_claimed=dict(category=m.LEVEL, text=m.LEVEL_TEXT,
                               design_ref="DESIGN.md section 5, " + pid),
            level_note=m.LEVEL_NOTE,
            technique=m.TECHNIQUE,
        ))
    hooks_commits = []
    man = dict(
        version=1,
        setup_cmd=SETUP,
        hooks=dict(
            guard="PYPHYSIM_VERIF",
            enable="no hooks are needed: the checks import /repo's working "
                   "tree directly (sys.path[0]=$VERIF_REPO, default /repo) "
                   "and observe/patch from the harness process only",
            baseline_off_cmd="cd /repo && /venv/bin/python -m pytest -ra -q "
                             "-p no:cacheprovider --timeout=900 "
                             "--continue-on-collection-errors",
            source_commits=hooks_commits,
            add_only=True),
        engines=[dict(name="vpbt", path="/verif/vpbt",
                      serves_properties=[c["property_id"] for c in checks],
                      kind_free_text="Hypothesis-driven property-based "
                      "testing: seeded sharded generation of JSON case "
                      "descriptions, explicit oracles, failure bucketing, "
                      "shrinking, replay files, known-findings file")],
        checks=checks,
        notes="See /verif/DESIGN.md. Exit codes: 0 held, 1 VIOLATION, 2 "
              "harness error. known_findings.json lists recorded defects; "
              "'fix:' commits in /repo are listed there as fixed.",
        not_applicable=na,
    )
    with open(os.path.join(VERIF, "MANIFEST.json"), "w") as f:
        json.dump(man, f, indent=1)
    try:
        import jsonschema
    except ImportError:
        print("jsonschema not available here; skipped validation")
        return 0
    with open("/root/.vp/MANIFEST.schema.json") as f:
        jsonschema.validate(man, json.load(f))
    with open("/root/.vp/EVIDENCE.schema.json") as f:
        es = json.load(f)
    bad = 0
    for c in checks:
        if os.path.exists(c["evidence_file"]):
            with open(c["evidence_file"]) as f:
                try:
                    jsonschema.validate(json.load(f), es)
                except Exception as e:  # noqa
                    bad += 1
                    print("INVALID evidence", c["evidence_file"], str(e)[:300])
        else:
            print("missing evidence", c["evidence_file"])
    print("manifest ok: %d checks, %d not claimed, %d bad evidence" %
          (len(checks), len(na), bad))
    return 1 if bad else 0


if __name__ == "__main__":
    sys.exit(main())
