#!/usr/bin/env python3
"""Fill seeded/CXX-{G,H}/meta.json (round 5) from the REPORT.json files that
tools/mutcheck.py wrote.  Run after mutcheck."""
import json
import os

V = os.path.dirname(os.path.dirname(os.path.abspath(__file__)))
NEEDS = {
 "C01-I": "general PSK class with M == 2 and a phase offset that is not a multiple of pi (BPSK decision rule used)",
 "C01-J": "M = 256 and a detected index >= 128 (indexes returned as int8)",
 "C02-I": "number of OFDM symbols in the burst equal to the FFT size (square array: layout test cannot tell rows from columns)",
 "C02-J": "tap profile with exactly one unused delay below the last tap ({0,2}, {0,1,3}, ...)",
 "C03-I": "path loss set AND a frequency-domain transmission of exactly one block (un-scaled dense taps memoised)",
 "C03-J": "float32 / complex64 input signal (output accumulated in single precision)",
 "C04-I": "Nr > Nt and a small positive noise variance (< 1e-9 ||H||^2): MMSE filter through the rank-deficient Gram matrix",
 "C04-J": "SVD MIMO shapes for which two LAPACK drivers return different singular-vector signs (Nt = 1, (4,3), (6,4), ...)",
 "C05-I": "SkipThisOne raised on the very first attempt(s) of a variation",
 "C05-J": "a runner subclass that changes self.params in the _on_simulate_start hook (results keep a copy of the earlier grid)",
 "C06-I": "combine_simulation_results of a set that accumulates values with one that does not (first operand accumulating)",
 "C06-J": "MISC result with value accumulation on, split over several objects and merged (accumulated list not joined)",
 "C07-I": "every variation already complete in the partial files and no final file yet (death before the final rename, or per-variation jobs then collect)",
 "C07-J": "process killed without unwinding (SIGKILL) inside a variation: stale lock file makes every restart fail",
 "C08-I": "post filter of receiver 0 real-valued (identity) and a later receiver's filter complex (big_W dtype of the first block)",
 "C08-J": "post filters set and corrupt_concatenated_data called directly",
 "C09-I": "'naive' metric with >= 3 antennas per user and num_streams != N - num_streams",
 "C09-J": "one EnhancedBD object configured for 'capacity' / 'effective_throughput' and then re-configured to 'naive' / 'fixed'",
 "C10-I": "BruteForceStreamIASolver around a solver that keeps its filters in _W (MinLeakage, MaxSINR, MMSE)",
 "C10-J": "AlternatingMin solver after randomizeF / set_precoders / non-zero-forcing set_receive_filters (full_W_H shortcut)",
 "C11-I": "interfering links >= 80 dB weaker than the desired link (cancellation in 'all minus desired')",
 "C11-J": "joint-processing covariance with unequal stream counts, user other than the first",
 "C12-I": "a channel whose floor N0/(Es g) exceeds the total power but is active in the optimum (low SNR)",
 "C12-J": "total power within 1e-6 (relative) below the power at which one more channel switches on",
 "C13-I": "raise policy (default) with an ARRAY or list of distances containing a too small one",
 "C13-J": "Okumura-Hata setter with exactly the upper end of a documented range (200, 10, 1500)",
 "C14-I": "under-sampled process, Fd*Ts >= 1",
 "C14-J": "two or more skip requests with no generate in between",
 "C15-I": "PSK(32), PSK(64), PSK(512..4096): label width not a power of two",
 "C15-J": "count_bit_errors with a 1-D input and an explicit axis",
 "C16-I": "PSK.setPhaseOffset with a short-decimal offset >= 1.717 rad (arange returns M+1 phases)",
 "C16-J": "PSK phase offset in (pi - 2 pi/M, pi] (branch cut of angle())",
 "C17-I": "float array containing +-inf, JSON",
 "C17-J": "file-name template with a replacement field nested in a format spec ('{SNR!s:>{fw}}')",
 "C18-I": "sequence length with a prime factor above 11 (IFFT padded to next_fast_len)",
 "C18-J": "as many pilots as transmit antennas (>= 2) and a non-symmetric pilot matrix",
 "C19-I": "3-sector cell with users placed per sector, shown in a wrapped copy (CellWrap include_users_bool)",
 "C19-J": "Cluster of ONE square cell",
 "C20-I": "chordal distance of identical or nearly identical subspaces (cancellation)",
 "C20-J": "least_right_singular_vectors with n == ncols",
}
FIRST_KILLED = set("C01-I C01-J C02-I C02-J C03-I C04-I C04-J C05-I C07-I "
                   "C07-J C08-J C09-I C10-J C11-I C11-J C12-I C13-I C13-J "
                   "C14-J C15-I C15-J C16-J C18-I C18-J C19-J C20-I "
                   "C20-J".split())
EXT = {
 "C03-J": "signal kinds c64 / f32 (single-precision samples); the harness forms the linear combination of two signals in double precision",
 "C05-J": "regrid applied inside the documented _on_simulate_start hook",
 "C06-I": "value accumulation may differ between the combined sets",
 "C06-J": "MISC with accumulation: the list of accumulated values is compared",
 "C08-I": "filter kind square_mixed: identity / real / complex filters per receiver",
 "C09-J": "the object is configured for another metric first (prev_metric)",
 "C10-I": "post part: brute-force stream search wrapper; exposed a genuine defect on the unchanged tree (fix 2fc7236: power lost)",
 "C12-J": "total power placed at / within 1e-12..1e-3 of a switching point",
 "C14-I": "Fd*Ts in (0.5, 50] generated (about 1 history in 11)",
 "C16-I": "phase offsets typed as short decimals (k/10, k/100) in the shared modulator configuration (C01, C16)",
 "C17-I": "float arrays ending in / containing +-inf",
 "C17-J": "templates '{name!s}' and '{name!s:>{fw}}'",
 "C19-I": "every cell with users is also shown through CellWrap(include_users_bool=True): same offsets",
}
NOT_CHASED = {}


def main():
    for d in sorted(os.listdir(os.path.join(V, "seeded"))):
        if not (d.endswith("-I") or d.endswith("-J")):
            continue
        mp = os.path.join(V, "seeded", d, "meta.json")
        m = json.load(open(mp))
        rp = os.path.join(V, "seeded", d, "REPORT.json")
        rep = json.load(open(rp)) if os.path.exists(rp) else {}
        det = {}
        for key, r in rep.items():
            for prop in r.get("killed_by") or []:
                det.setdefault(prop, [])
                for b in (r.get(prop) or {}).get("buckets", []):
                    if b not in det[prop]:
                        det[prop].append(b)
        m["round"] = 5
        m["needs_to_manifest"] = NEEDS[d]
        m["first_run"] = "killed" if d in FIRST_KILLED else "survived"
        m["detected_by"] = det
        if d in EXT:
            m["extension"] = EXT[d]
        if d in NOT_CHASED:
            m["verdict"] = NOT_CHASED[d]
        elif det:
            m["verdict"] = "detected by " + ", ".join(
                "%s (%s)" % (p, "; ".join(b)) for p, b in sorted(det.items()))
        else:
            m["verdict"] = "NOT detected"
        json.dump(m, open(mp, "w"), indent=1)
        print(d, m["first_run"], "->", m["verdict"][:100])


if __name__ == "__main__":
    main()
