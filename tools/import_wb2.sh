#!/bin/bash
# tools/import_wb2.sh CXX NAME... : keep second-round white-box patches as mutants (wb2_ prefix)
p=$1; shift
for n in "$@"; do
  base=$(basename $n)
  cp /tmp/wb2/$p/$n.patch /verif/mutants/$p/wb2_$base.patch
  [ -f /tmp/wb2/$p/$n.md ] && cp /tmp/wb2/$p/$n.md /verif/mutants/$p/wb2_$base.md
  [ -f /tmp/wb2/$p/${n}_demo.py ] && cp /tmp/wb2/$p/${n}_demo.py /verif/mutants/$p/wb2_${base}_demo.py
done
[ -f /tmp/wb2/$p/SUMMARY.md ] && cp /tmp/wb2/$p/SUMMARY.md /verif/mutants/$p/WB2_SUMMARY.md
[ -f /tmp/wb2/$p/FALSE_ALARMS.md ] && cp /tmp/wb2/$p/FALSE_ALARMS.md /verif/mutants/$p/WB2_FALSE_ALARMS.md
ls /verif/mutants/$p/wb2_*.patch | wc -l
