#!/venv/bin/python
"""tools/mark_fixed.py CXX <patch-name-substring> <commit>
Move the known_findings.d/CXX.json entries whose proposed_fix contains the
substring into known_findings.json as status=fixed (they then suppress
nothing).  tools/mark_fixed.py CXX --keep-known <id> moves an entry as
status=known instead."""
import json
import os
import sys

V = os.path.dirname(os.path.dirname(os.path.abspath(__file__)))


def main():
    prop = sys.argv[1]
    dpath = os.path.join(V, "known_findings.d", prop + ".json")
    mpath = os.path.join(V, "known_findings.json")
    d = json.load(open(dpath))
    m = json.load(open(mpath))
    rest = []
    if sys.argv[2] == "--keep-known":
        ident = sys.argv[3]
        for e in d["findings"]:
            if e.get("id") == ident:
                e.pop("proposed_fix", None)
                m["findings"].append(e)
                print("known:", e["id"])
            else:
                rest.append(e)
    else:
        sub, commit = sys.argv[2], sys.argv[3]
        for e in d["findings"]:
            if sub in str(e.get("proposed_fix")):
                m["findings"].append(dict(
                    property=prop, status="fixed", commit=commit,
                    id=e.get("id"),
                    what="fixed: property=%s %s %s" % (prop, commit,
                                                       e["what"]),
                    was_bucket=e.get("bucket"), was_match=e.get("match")))
                print("fixed:", e.get("id"))
            else:
                rest.append(e)
    json.dump(m, open(mpath, "w"), indent=1)
    if rest:
        json.dump({"findings": rest}, open(dpath, "w"), indent=1)
    else:
        os.remove(dpath)


if __name__ == "__main__":
    main()
