"""CLI:  python -m vpbt check <ID> [--tier quick|thorough] [--replay FILE]
                                 [--parts a,b] [--scale X] [--workers N]
"""
import argparse
import glob
import os
import sys


def _module_for(prop):
    here = os.path.dirname(os.path.abspath(__file__))
    hits = glob.glob(os.path.join(here, "props", prop.lower() + "_*.py"))
    if len(hits) != 1:
        sys.stderr.write("no unique property module for %s: %s\n" %
                         (prop, hits))
        sys.exit(2)
    return "vpbt.props." + os.path.basename(hits[0])[:-3]


def main(argv=None):
    ap = argparse.ArgumentParser(prog="vpbt")
    sub = ap.add_subparsers(dest="cmd", required=True)
    c = sub.add_parser("check")
    c.add_argument("prop")
    c.add_argument("--tier", default=None, choices=["quick", "thorough"])
    c.add_argument("--replay", default=None)
    c.add_argument("--parts", default=None)
    c.add_argument("--scale", type=float, default=1.0)
    c.add_argument("--workers", type=int, default=None)
    args = ap.parse_args(argv)

    # every run is a pure function of the code and VERIF_SEED: fix the str
    # hash seed of this process and of the (forked) workers
    if os.environ.get("PYTHONHASHSEED") != "0":
        env = dict(os.environ, PYTHONHASHSEED="0")
        os.execve(sys.executable, [sys.executable, "-m", "vpbt"] +
                  (argv if argv is not None else sys.argv[1:]), env)

    os.environ.setdefault("MPLBACKEND", "Agg")
    os.environ.setdefault("OMP_NUM_THREADS", "1")
    os.environ.setdefault("OPENBLAS_NUM_THREADS", "1")
    os.environ.setdefault("MKL_NUM_THREADS", "1")
    os.environ.setdefault("NUMBA_NUM_THREADS", "1")

    from . import core
    modname = _module_for(args.prop.upper())
    try:
        if args.replay:
            return core.run_replay(modname, args.replay)
        tier = args.tier or os.environ.get("VERIF_TIER") or "quick"
        if tier not in ("quick", "thorough"):
            tier = "quick"
        try:
            seed = int(os.environ.get("VERIF_SEED", "1"))
        except ValueError:
            seed = 1
        parts = args.parts.split(",") if args.parts else None
        return core.run_check(modname, tier, seed, workers=args.workers,
                              only_parts=parts, scale=args.scale)
    except core.HarnessError as e:
        sys.stderr.write("HARNESS-ERROR %s\n" % e)
        return core.EXIT_HARNESS
    except Exception:  # noqa
        import traceback
        sys.stderr.write("HARNESS-ERROR unexpected exception\n")
        traceback.print_exc()
        return core.EXIT_HARNESS


if __name__ == "__main__":
    sys.exit(main())
