"""Shared Hypothesis strategies.  They draw *plain data* (ints, floats, short
lists, seeds); vpbt.build turns that into numpy / pyphysim objects."""
from hypothesis import strategies as st

seeds = st.integers(min_value=0, max_value=2**31 - 2)


def loguniform(lo_exp, hi_exp):
    """float 10**e, e uniform in [lo_exp, hi_exp] (shrinks towards 10**lo)."""
    return st.floats(min_value=lo_exp, max_value=hi_exp, allow_nan=False,
                     allow_infinity=False).map(lambda e: float(10.0 ** e))


def fl(lo, hi):
    return st.floats(min_value=lo, max_value=hi, allow_nan=False,
                     allow_infinity=False)


def cplx(lo=-1.0, hi=1.0):
    """complex number as [re, im]"""
    return st.tuples(fl(lo, hi), fl(lo, hi)).map(list)


def cplx_list(min_size, max_size, lo=-1.0, hi=1.0):
    return st.lists(cplx(lo, hi), min_size=min_size, max_size=max_size)


def fixed(**kw):
    return st.fixed_dictionaries(kw)
