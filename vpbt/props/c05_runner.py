"""C05 - the Monte-Carlo runner runs exactly the requested repetitions per
variation (model-based check of SimulationRunner.simulate)."""
import itertools
import json
import os
import shutil
import tempfile
from fractions import Fraction

from hypothesis import strategies as st

from ..core import Part, Violation
from ..gens import fixed
from .. import runner_harness as H

PROPERTY = "C05"
LEVEL = "exploration"
LEVEL_TEXT = (
    "Model-based generated-input search: random parameter grids (0..3 "
    "unpacked parameters whose sorted order differs from insertion order), "
    "rep_max, early-stop rules, SkipThisOne patterns (including the first "
    "repetition), all-variations / single-variation mode and repeated "
    "simulate() calls are run through an instrumented SimulationRunner "
    "subclass; every _run_simulation and _keep_going call is logged and "
    "compared with an independent model written from the documentation; "
    "merged results are compared exactly (integers / Fractions); look-ups "
    "by fixed parameter values are compared with a brute-force filter.")
LEVEL_NOTE = ("serial simulate() only (simulate_in_parallel needs ipyparallel "
              "engines); progress output disabled; time() replaced by a fake "
              "clock inside the harness process")
TECHNIQUE = ("property-based testing (Hypothesis) with a reference model of "
             "the repetition loop run in lock-step over generated programs")
RULE = ("case = parameter grid (0..3 unpacked parameters as lists or arrays "
        "of ints / floats / nearly equal floats / strings, optionally with a "
        "value listed twice) + rep_max + stop rule (always / per-variation "
        "repetition threshold / sum / ratio; returned as bool or "
        "numpy.bool_) + skip pattern + mode; "
        "non-trivial = at least 2 variations and (at least one skip or an "
        "early stop before rep_max); distinct = SHA-1 of the case")
RULE += (" Added after the white-box review: "
         "optionally one variation with a dense skip pattern (only "
         "every m-th attempt valid, m up to 60); the per-combination "
         "hooks are logged ")
RULE += (" Added after the second white-box review: between two "
         "simulate() calls the grid may also change by editing the value "
         "container in place or by switching the unpacking of a parameter "
         "off; the MISC observation of every fourth repetition is 0; the "
         "confidence-interval look-up uses levels 90/95/99. ")

ASSUMPTIONS = [
    "_keep_going predicates are pure functions of (merged results, "
    "repetition index), as the documentation requires",
    "the first repetition of a variation always runs (the stop rule is "
    "consulted only once there is a result to look at)",
]
QUICK_BUDGET_S = 300

NAME_POOL = ["b", "a", "Zeta", "c1", "SNR", "M", "alpha"]


def _values():
    ints = st.lists(st.integers(-5, 40), min_size=1, max_size=4, unique=True)
    floats = st.lists(st.sampled_from([0.0, 0.5, 1.25, 2.0, 5.0, 10.0, 15.5,
                                       -3.0, 1e-3, 20.0]),
                      min_size=1, max_size=4, unique=True)
    strs = st.lists(st.sampled_from(["QPSK", "16QAM", "x", "yy", "A b"]),
                    min_size=1, max_size=4, unique=True)
    # distinct floats that are tiny or very close to each other (noise powers
    # in Watts, ppm steps): equal only under a tolerance, not exactly
    close = st.lists(st.sampled_from([1e-9, 1e-10, 1e-11, 1e-12, 3e-12, 1.0,
                                      1.0000025, 1.000005, 1.0000075,
                                      2.5, 2.5000000000000004]),
                     min_size=2, max_size=4, unique=True)
    # a value listed more than once (SNR=0:5:20,20): every listed position
    # is a variation of its own
    dups = st.lists(st.sampled_from([0, 5, 10, 10, 20]), min_size=2,
                    max_size=4)
    # 'no precoder' next to named ones: None is a value like any other
    withnone = st.lists(st.sampled_from([None, "MRT", "ZF", "x"]),
                        min_size=2, max_size=4, unique=True)
    # compound values (antennas = (2, 2), (2, 4), ...): values that share
    # components with each other
    tups = st.lists(st.sampled_from([[2, 2], [2, 4], [4, 4], [4, 2], [1, 2],
                                     [2, 1]]),
                    min_size=2, max_size=4, unique_by=tuple)
    return st.one_of(st.tuples(st.just("list"), ints),
                     st.tuples(st.just("tuples"), tups),
                     st.tuples(st.just("list"), withnone),
                     st.tuples(st.just("list"), dups),
                     st.tuples(st.just("array"), dups),
                     st.tuples(st.just("array"), ints),
                     st.tuples(st.just("array"), floats),
                     st.tuples(st.just("list"), floats),
                     st.tuples(st.just("array"), close),
                     st.tuples(st.just("list"), close),
                     st.tuples(st.just("list"), strs))


@st.composite
def _cfg(draw, tier, with_file=None):
    n_unp = draw(st.sampled_from([0, 1, 1, 2, 2, 3]))
    names = draw(st.permutations(NAME_POOL))[:n_unp + 2]
    unpacked = []
    container = {}
    for name in names[:n_unp]:
        kind, vals = draw(_values())
        unpacked.append([name, vals])
        container[name] = kind
    fixed_names = names[n_unp:n_unp + draw(st.integers(0, 2))]
    fixed_params = [[n, draw(st.one_of(st.integers(-3, 9),
                                       st.sampled_from([1.3, 0.25, "abc"])))]
                    for n in fixed_names]
    nvar = 1
    for _, v in unpacked:
        nvar *= len(v)
    rep_max = draw(st.integers(1, 12 if tier == "quick" else 40))
    stop = draw(st.one_of(
        st.just({"kind": "always"}),
        st.builds(lambda t: {"kind": "rep", "thr": t},
                  st.lists(st.integers(0, rep_max + 2), min_size=1,
                           max_size=4)),
        st.builds(lambda t: {"kind": "sum", "thr": t},
                  st.integers(0, 6 * rep_max)),
        st.builds(lambda a, b: {"kind": "ratio", "num": a, "den": b},
                  st.integers(0, 8), st.integers(1, 4)),
        # 'give up after N skipped attempts' (the rule reads the result
        # num_skipped_reps the runner keeps)
        st.builds(lambda t: {"kind": "skipped", "thr": t},
                  st.integers(1, 4)),
    ))
    # type of the value the stop rule returns: bool or numpy.bool_
    stop = dict(stop, ret=draw(st.sampled_from(["bool", "bool", "npbool"])))
    skips = draw(st.lists(
        st.tuples(st.integers(0, nvar - 1),
                  st.one_of(st.just(0), st.integers(0, rep_max + 3))),
        max_size=6, unique=True).map(lambda l: [list(x) for x in l]))
    if draw(st.integers(0, 7)) == 0:
        # a variation for which most attempts are invalid: only every m-th
        # attempt counts (rejection sampling in the simulated scenario)
        m = draw(st.sampled_from([2, 3, 4, 5, 7, 9, 12, 60]))
        vd = draw(st.integers(0, nvar - 1))
        skips = [s for s in skips if s[0] != vd] + \
            [[vd, a] for a in range(m * (rep_max + 2)) if a % m != m - 1]
    if with_file is None:
        with_file = draw(st.booleans())
    if "tuples" in container.values():
        # (tuples come back as lists from a .json partial file; files are the
        # subject of C07/C17)
        with_file = False
    if with_file and stop["kind"] == "skipped":
        # (the skipped count is not carried over by partial-result files)
        with_file = False
    filename = None
    ext = ""
    if with_file:
        filename = "res"
        if fixed_params and draw(st.booleans()):
            filename = "res_{%s}" % fixed_params[0][0]
        ext = draw(st.sampled_from(["", "", ".json"]))
    idspace = 2 * nvar * rep_max + 2
    # (only with something unpacked: without, the library hands the runner's
    # own parameter object to the iteration - there is no per-combination
    # copy to speak of)
    mutable_fixed = (not with_file) and bool(unpacked) and \
        draw(st.integers(0, 3)) == 0
    return dict(idspace=idspace, unpacked=unpacked, container=container,
                fixed=fixed_params,
                rep_max=rep_max, stop=stop, skips=skips, filename=filename,
                ext=ext, delete_partial=draw(st.booleans()),
                clock=draw(st.lists(st.sampled_from([0, 0, 100, 301]),
                                    min_size=1, max_size=4)),
                mutable_fixed=mutable_fixed)


@st.composite
def _program(draw, tier):
    cfg = draw(_cfg(tier))
    nvar = 1
    for _, v in cfg["unpacked"]:
        nvar *= len(v)
    mode = {"kind": "all"}
    if cfg["filename"] is not None and draw(st.integers(0, 3)) == 0:
        mode = {"kind": "single", "index": draw(st.integers(0, nvar - 1)),
                "as_str": draw(st.booleans())}
    lookups = draw(st.lists(st.tuples(
        st.lists(st.booleans(), min_size=3, max_size=3),
        st.lists(st.integers(0, 3), min_size=3, max_size=3)),
        max_size=3).map(lambda l: [[list(a), list(b)] for a, b in l]))
    twice = draw(st.integers(0, 2)) == 0
    regrid = None
    if twice and cfg["filename"] is None and cfg["unpacked"] and \
            draw(st.booleans()):
        # the user replaces the values of one unpacked parameter on the live
        # runner between the two simulate() calls
        which = draw(st.integers(0, len(cfg["unpacked"]) - 1))
        old = cfg["unpacked"][which][1]
        if any(isinstance(x, str) or x is None for x in old):
            new = draw(st.lists(st.sampled_from(["n1", "n2", "QPSK", "zz"]),
                                min_size=1, max_size=4, unique=True))
        else:
            new = draw(st.lists(st.integers(50, 90), min_size=1, max_size=4,
                                unique=True))
        regrid = dict(which=which, values=new,
                      how=draw(st.sampled_from(["setitem", "add", "inplace",
                                                "unpack_off"])),
                      when=draw(st.sampled_from(["between", "hook"])))
        if regrid["how"] == "unpack_off":
            # the parameter is no longer swept: the iteration receives the
            # whole list of values
            regrid["values"] = new = [list(old)]
        nvar2 = nvar // len(old) * len(new)
        cfg["idspace"] = cfg["rep_max"] * (nvar + nvar2) + 2
    return dict(part="program", cfg=cfg, mode=mode, twice=twice,
                regrid=regrid, lookups=lookups)


PARTS = [Part("program", _program, quick=2500, thorough=150000,
              quick_shards=8)]


# ----------------------------------------------------------------------------
# model
# ----------------------------------------------------------------------------
class Model(object):
    """Documented behaviour of simulate() for one case (all runs)."""
    def __init__(self, cfg):
        self.cfg = cfg
        self.names, self.combos = H.variations_of(cfg)
        self.attempts = {}
        self.next_id = 0
        self.skips = set((int(v), int(a)) for v, a in cfg["skips"])
        self.partial = {}     # v -> list of gids persisted in a partial file

    def run_variation(self, v, use_partial):
        """-> (expected call list [(v, attempt, gid|None)], succ gids,
        n_skipped in this run)"""
        cfg = self.cfg
        succ = list(self.partial.get(v, [])) if use_partial else []
        calls = []
        skipped = 0

        def keep_going():
            sumv = sum(H.val_sumv(g) for g in succ)
            rv = sum(H.val_ratio(g)[0] for g in succ)
            rt = sum(H.val_ratio(g)[1] for g in succ)
            return H.stop_model(cfg, v, len(succ), sumv, (rv, rt), skipped)

        while True:
            if len(succ) >= 1 and (len(succ) >= cfg["rep_max"] or
                                   not keep_going()):
                break
            a = self.attempts.get(v, 0)
            self.attempts[v] = a + 1
            if (v, a) in self.skips:
                calls.append((v, a, None))
                skipped += 1
                continue
            g = self.next_id
            self.next_id += 1
            succ.append(g)
            calls.append((v, a, g))
        return calls, succ, skipped


def _expect_result(check, name, got, want, tags):
    if got != want:
        raise Violation(check, "%s: got %r, expected %r" % (name, got, want),
                        tags)


def _check_variation_results(res_of, v_label, succ, tags, what):
    """res_of(name) -> Result object for this variation."""
    ids = res_of("ids")
    _expect_result("merged_ids", "%s ids multiset (counted repetitions)" %
                   what, H.digits4(ids.get_result()),
                   dict((g, 1) for g in succ), tags)
    _expect_result("num_updates", "%s ids.num_updates" % what,
                   ids.num_updates, len(succ), tags)
    sumv = res_of("sumv")
    _expect_result("merged_sum", "%s sumv" % what, sumv.get_result(),
                   sum(H.val_sumv(g) for g in succ), tags)
    ratio = res_of("ratio")
    rv = sum(H.val_ratio(g)[0] for g in succ)
    rt = sum(H.val_ratio(g)[1] for g in succ)
    _expect_result("merged_ratio", "%s ratio value/total" % what,
                   (ratio._value, ratio._total), (rv, rt), tags)
    if abs(ratio.get_result() - rv / rt) > 1e-12:
        raise Violation("merged_ratio", "%s get_result %r != %r" % (
            what, ratio.get_result(), rv / rt), tags)
    mean = float(sum(Fraction(*H.val_ratio(g)) for g in succ) / len(succ))
    if abs(ratio.get_result_mean() - mean) > 1e-9:
        raise Violation("merged_ratio_mean", "%s mean %r != %r" % (
            what, ratio.get_result_mean(), mean), tags)
    misc = res_of("misc")
    _expect_result("merged_misc", "%s misc (last repetition)" % what,
                   misc.get_result(), H.val_misc(succ[-1]), tags)
    choice = res_of("choice")
    want = [0, 0, 0, 0]
    for g in succ:
        want[g % 4] += 1
    got = [int(x) for x in choice._value]
    _expect_result("merged_choice", "%s choice counts" % what, got, want,
                   tags)


def check(case, ctx):
    import numpy as np
    from pyphysim.simulations.results import SimulationResults
    cfg = case["cfg"]
    mode = case["mode"]
    names, combos = H.variations_of(cfg)
    nvar = len(combos)
    single = mode["kind"] == "single"
    tags = dict(nvar=nvar, single=single, stop=cfg["stop"]["kind"],
                first_rep_skip=any(a == 0 for _, a in cfg["skips"]),
                with_file=cfg["filename"] is not None)

    ctx.label("unpacked=%d" % len(cfg["unpacked"]),
              "mode=" + mode["kind"], "stop=" + cfg["stop"]["kind"],
              "file" if cfg["filename"] else "nofile")
    if case["twice"]:
        ctx.label("simulate_twice")

    cwd = os.getcwd()
    tmp = tempfile.mkdtemp(prefix="vpbt-c05-")
    env = H.Env(cfg)
    model = Model(cfg)
    try:
        os.chdir(tmp)
        with H.Injector(env, tmp) as inj:
            runner = H.make_runner(env)
            n_runs = 2 if case["twice"] else 1
            any_skip = False
            any_early = False
            for run in range(n_runs):
                env.run_no = run
                inj.new_run(None)
                if run == 1 and case.get("regrid"):
                    rg = case["regrid"]
                    cfg = json.loads(json.dumps(cfg))
                    name = cfg["unpacked"][rg["which"]][0]
                    if rg["how"] == "unpack_off":
                        old_vals = cfg["unpacked"][rg["which"]][1]
                        del cfg["unpacked"][rg["which"]]
                        cfg["fixed"] = list(cfg["fixed"]) + [[name, old_vals]]
                    else:
                        cfg["unpacked"][rg["which"]][1] = rg["values"]
                    values = (np.array(rg["values"])
                              if cfg["container"].get(name) == "array"
                              else list(rg["values"]))
                    def apply(name=name, values=values, how=rg["how"]):
                        if how == "setitem":
                            runner.params[name] = values
                        elif how == "unpack_off":
                            runner.params.set_unpack_parameter(name, False)
                        elif how == "inplace":
                            # the user edits the value container it gave to
                            # the runner (what params[name] returns)
                            cont = runner.params[name]
                            if isinstance(cont, list):
                                cont[:] = list(values)
                            elif len(cont) == len(values):
                                cont[:] = values
                            else:
                                runner.params[name] = values
                        else:
                            runner.params.add(name, values)
                    if rg.get("when") == "hook":
                        # the runner changes the grid itself, in its
                        # _on_simulate_start hook
                        env.on_start = apply
                        ctx.label("regrid_in_on_simulate_start")
                    else:
                        apply()
                    env.regrid(cfg)
                    model.cfg = cfg
                    names, combos = H.variations_of(cfg)
                    nvar = len(combos)
                    tags["regrid"] = rg["how"]
                    ctx.label("regrid:" + rg["how"])
                log_start = len(env.log)
                vlist = [mode["index"]] if single else list(range(nvar))
                use_partial = cfg["filename"] is not None
                expected_calls = []
                expected = {}
                for v in vlist:
                    calls, succ, skipped = model.run_variation(v, use_partial)
                    expected_calls += calls
                    expected[v] = (succ, skipped)
                    any_skip = any_skip or skipped > 0
                    any_early = any_early or len(succ) < cfg["rep_max"]
                    if use_partial:
                        model.partial[v] = succ

                if single:
                    idx = mode["index"]
                    runner.simulate(str(idx) if mode["as_str"] else idx)
                else:
                    runner.simulate()

                if env.param_errors:
                    raise Violation("params_received", env.param_errors[0],
                                    tags)
                # -- calls received, in order -------------------------------
                got_calls = [(d["v"], d["attempt"], d["gid"])
                             for k, d in env.log[log_start:] if k == "call"]
                if got_calls != expected_calls:
                    i = 0
                    while (i < min(len(got_calls), len(expected_calls))
                           and got_calls[i] == expected_calls[i]):
                        i += 1
                    raise Violation(
                        "calls_sequence",
                        "run %d: %d calls, expected %d; first difference at "
                        "call %d: got %r expected %r (v, attempt, id|None=skip)"
                        % (run, len(got_calls), len(expected_calls), i,
                           got_calls[i:i + 1], expected_calls[i:i + 1]), tags)
                for k, d in env.log[log_start:]:
                    if k == "call" and d["gid"] is not None and nvar > 1:
                        if d["unpack_index"] != d["v"]:
                            raise Violation(
                                "unpack_index", "variation %d received "
                                "unpack_index %r" % (d["v"],
                                                     d["unpack_index"]), tags)
                # -- keep_going consulted with the right state ----------------
                _check_keep_going(env.log[log_start:], cfg, expected, tags)
                _check_hooks(env.log[log_start:], vlist, tags)
                # -- recorded counts and stored results -----------------------
                if single:
                    v = mode["index"]
                    succ, skipped = expected[v]
                    _expect_result("runned_reps", "runned_reps (single)",
                                   runner.runned_reps, len(succ), tags)
                else:
                    _expect_result("runned_reps", "runned_reps",
                                   list(runner.runned_reps),
                                   [len(expected[v][0]) for v in vlist], tags)
                    res = runner.results
                    for name in ("ids", "sumv", "ratio", "misc", "choice"):
                        _expect_result("results_length",
                                       "len(results[%r])" % name,
                                       len(res[name]), nvar, tags)
                    for v in vlist:
                        succ, skipped = expected[v]
                        _check_variation_results(
                            lambda name: res[name][v], v, succ, tags,
                            "variation %d" % v)
                    if run == 0 or cfg["filename"] is None or \
                            cfg["delete_partial"]:
                        got = [r.get_result()
                               for r in res["num_skipped_reps"]]
                        _expect_result("num_skipped", "num_skipped_reps", got,
                                       [expected[v][1] for v in vlist], tags)
                    _check_lookups(case, cfg, names, combos, runner, expected,
                                   tags, ctx)
                # -- files ----------------------------------------------------
                if cfg["filename"] is not None:
                    _check_files(cfg, runner, vlist, expected, single, tags,
                                 nvar, SimulationResults)
                    if cfg["delete_partial"] and not single:
                        model.partial = {}
            ctx.nontrivial(nvar >= 2 and (any_skip or any_early))
            if any_skip:
                ctx.label("has_skip")
            if tags["first_rep_skip"]:
                ctx.label("first_rep_skip_requested")
            if any_early:
                ctx.label("early_stop")
    finally:
        os.chdir(cwd)
        shutil.rmtree(tmp, ignore_errors=True)


def _check_keep_going(log, cfg, expected, tags):
    """Every consultation of the stop rule saw (this variation, successes so
    far, merge of exactly those successes)."""
    succ = {}
    loaded = {}
    nskipped = {}
    cur_v = None
    for kind, d in log:
        if kind == "hook":
            continue
        v = d["v"]
        if kind == "call":
            cur_v = v
            if d["gid"] is not None:
                succ.setdefault(v, []).append(d["gid"])
            else:
                nskipped[v] = nskipped.get(v, 0) + 1
            continue
        if cfg["filename"] is None and d.get("nskip") != nskipped.get(v, 0):
            # (without a results file nothing is re-loaded: the stop rule
            # sees how many attempts of this combination were skipped so far)
            raise Violation("keep_going_state", "variation %d: the results "
                            "handed to _keep_going report %r skipped "
                            "repetitions, %d were skipped" %
                            (v, d.get("nskip"), nskipped.get(v, 0)), tags)
        # kg: ids multiset tells which repetitions are merged
        have = d["ids"]
        if any(m != 1 for m in have.values()):
            raise Violation("keep_going_state", "merged results handed to "
                            "_keep_going count a repetition twice: %r" % have,
                            tags)
        final_succ = expected[v][0]
        merged = sorted(have)
        if merged != final_succ[:len(merged)]:
            raise Violation("keep_going_state", "variation %d: _keep_going "
                            "saw repetitions %r, expected a prefix of %r" %
                            (v, merged, final_succ), tags)
        if d["rep"] != len(merged):
            raise Violation("keep_going_state", "variation %d: current_rep=%r "
                            "but %d repetitions merged" % (v, d["rep"],
                                                           len(merged)), tags)
        want_sum = sum(H.val_sumv(g) for g in merged)
        if d["sumv"] != want_sum:
            raise Violation("keep_going_state", "variation %d: merged sumv %r "
                            "!= %r" % (v, d["sumv"], want_sum), tags)


def _check_hooks(log, vlist, tags):
    """The documented per-combination hooks frame the repetitions of their
    combination: start(v) before the first call of v, finish(v) after its
    last one, in the order of the combinations."""
    seq = []
    for kind, d in log:
        if kind == "hook":
            if d["name"] != "sim_finish":
                seq.append((d["name"], d["v"]))
        elif kind == "call" and (not seq or seq[-1] != ("call", d["v"])):
            seq.append(("call", d["v"]))
    want = []
    had_calls = set(v for k, v in seq if k == "call")
    for v in vlist:
        want.append(("start", v))
        if v in had_calls:
            want.append(("call", v))
        want.append(("finish", v))
    if seq != want:
        i = 0
        while i < min(len(seq), len(want)) and seq[i] == want[i]:
            i += 1
        raise Violation("hooks_order", "hooks and repetitions interleave as "
                        "%r, expected %r (first difference at %d)" %
                        (seq[max(0, i - 2):i + 3], want[max(0, i - 2):i + 3],
                         i), tags)


def _check_lookups(case, cfg, names, combos, runner, expected, tags, ctx):
    import numpy as np
    if not names:
        return
    params = runner.params
    res = runner.results
    for mask, picks in case["lookups"]:
        fixed_d = {}
        for i, n in enumerate(names):
            if mask[i % 3]:
                vals = dict(cfg["unpacked"])[n]
                fixed_d[n] = vals[picks[i % 3] % len(vals)]
                if isinstance(fixed_d[n], list):
                    fixed_d[n] = tuple(fixed_d[n])
        if any([tuple(x) if isinstance(x, list) else x
                for x in dict(cfg["unpacked"])[n]].count(val) > 1
               for n, val in fixed_d.items()):
            # 'the' entry of a value listed twice is not defined
            continue
        if not fixed_d:
            continue
        want = [i for i, c in enumerate(combos)
                if all(c[n] == val for n, val in fixed_d.items())]
        got = sorted(int(i) for i in params.get_pack_indexes(fixed_d))
        if got != want:
            raise Violation("get_pack_indexes", "fixed=%r: got %r expected %r"
                            % (fixed_d, got, want), tags)
        gv = res.get_result_values_list("sumv", fixed_d)
        wv = [sum(H.val_sumv(g) for g in expected[i][0]) for i in want]
        if list(gv) != wv:
            raise Violation("get_result_values_list", "fixed=%r: got %r "
                            "expected %r" % (fixed_d, gv, wv), tags)
        # the sibling look-up for confidence intervals selects the same
        # combinations
        P_ci = (95.0, 90.0, 99.0)[(len(fixed_d) + len(want)) % 3]
        ci = res.get_result_values_confidence_intervals("ratio", P_ci,
                                                        fixed_d)
        wci = [res["ratio"][i].get_confidence_interval(P_ci) for i in want]
        if len(ci) != len(wci) or any(
                not np.allclose(np.asarray(a, dtype=float),
                                np.asarray(b, dtype=float), rtol=0, atol=0,
                                equal_nan=True) for a, b in zip(ci, wci)):
            raise Violation("get_result_values_confidence_intervals",
                            "fixed=%r: %d intervals %r, expected those of "
                            "combinations %r: %r" % (fixed_d, len(ci), ci,
                                                     want, wci), tags)
        ctx.count("lookups")


def _check_files(cfg, runner, vlist, expected, single, tags, nvar, SR):
    from pyphysim.simulations.runner import get_partial_results_filename
    base = runner._simulation_results_saver.results_base_filename
    plist = runner.params.get_unpacked_params_list()
    keep_partials = single or not cfg["delete_partial"]
    for v in vlist:
        pname = get_partial_results_filename(base, plist[v],
                                             "partial_results")
        if keep_partials:
            if not os.path.exists(pname):
                raise Violation("partial_file", "partial results file %s "
                                "missing" % pname, tags)
            pr = SR.load_from_file(pname)
            succ = expected[v][0]
            _check_variation_results(lambda name: pr[name][-1], v, succ, tags,
                                     "partial file of variation %d" % v)
            if pr.current_rep != len(succ):
                raise Violation("partial_file", "current_rep %r != %d" %
                                (pr.current_rep, len(succ)), tags)
        elif os.path.exists(pname):
            raise Violation("partial_file", "partial file %s not deleted" %
                            pname, tags)
    if not single:
        template = cfg["filename"] + cfg["ext"]
        fname = base if os.path.splitext(template)[1] else base + ".pickle"
        if not os.path.exists(fname):
            raise Violation("final_file", "final results file %s missing "
                            "(dir: %r)" % (fname, os.listdir(".")), tags)
        fr = SR.load_from_file(fname)
        for v in vlist:
            _check_variation_results(lambda name: fr[name][v], v,
                                     expected[v][0], tags,
                                     "final file, variation %d" % v)
        if list(fr.runned_reps) != [len(expected[v][0]) for v in vlist]:
            raise Violation("final_file", "runned_reps %r" % fr.runned_reps,
                            tags)
