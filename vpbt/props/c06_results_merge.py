"""C06 - combining simulation results is independent of how the repetitions
were grouped (HISTORY property: update sequences x partitions x merge
association orders; result sets; combination over overlapping parameter
grids; merging never mutates the merged-in operand)."""
import itertools
from fractions import Fraction

import numpy as np
from hypothesis import strategies as st

from ..core import Part, Violation

PROPERTY = "C06"
LEVEL = "exploration"
RULE = ("Part 'result': one Result type (SUM int / dyadic / general float, "
        "RATIO dyadic / general, CHOICE, MISC), value accumulation on/off, "
        "1..12 observations, a partition into contiguous non-empty chunks "
        "(optionally preceded by an empty receiver, with a never-updated "
        "Result merged in at a drawn place, and followed by direct "
        "'tail' updates of the merged object) and a merge plan 'merge adjacent "
        "pair i' (left comb, right comb, balanced and mixed trees); "
        "non-trivial = >=3 observations, >=3 chunks and a merge plan that is "
        "not the left comb.  Part 'sets': SimulationResults with 1..4 named "
        "results, 1..3 parameter variations, per variation 1..8 repetition "
        "sets grouped into chunks (receiver = empty set or first repetition) "
        "merged by a drawn plan, then append_all_results over variations and "
        "0..2 late repetition sets merged into the appended object (they "
        "must reach the last variation only); "
        "non-trivial = some variation with >=3 repetitions in >=2 chunks.  "
        "Part 'combine': combine_simulation_results of two result sets, or "
        "of three as (a+b)+c / a+(b+c), with 1..2 unpacked parameters (ints, "
        "floats, nearly equal floats, ints in one set and floats in the "
        "other, strings of different lengths) whose values overlap in "
        "none/some/all, value accumulation optionally differing between the "
        "sets; "
        "non-trivial = partial overlap.  distinct = SHA-1 of the case.")
RULE += (" Added after the white-box review: "
         "result names may be added to the sets in different orders, "
         "observations may be numpy scalars, appended sets may be "
         "appended again ")
RULE += (" Added after the second white-box review: the skip-count part "
         "also collects into a set that starts empty, stores the skip "
         "count before or between the other results, adds a second "
         "ordinary result and lets sets carry an earlier variation "
         "(appended results) that must stay untouched; MISC observations "
         "include None and small lists; RATIO observations may be rates "
         "k/8 (floats) with total 1. ")

LEVEL_TEXT = ("Generated-history search (Hypothesis, seeded, sharded) over "
              "update sequences, partitions, merge association orders, result "
              "sets and overlapping parameter grids against an exact "
              "fractions.Fraction reference of the sufficient statistics and "
              "a before/after snapshot of every merged-in operand. Absence of "
              "violations is not proven.")
LEVEL_NOTE = ("exact comparison for int / dyadic / choice classes; relative "
              "1e-12 (scale: sum of |terms|) for general floats; float "
              "magnitudes limited to 0 or 1e-6..1e6; the runner and the "
              "'num_skipped_reps' special result are covered by C05")
TECHNIQUE = ("property-based testing (Hypothesis) of operation histories: "
             "exact rational reference model + metamorphic grouping relation "
             "+ operand immutability snapshots")
ASSUMPTIONS = [
    "observations are Python ints/floats (|x| = 0 or in [1e-6, 1e6]), ratio "
    "totals are positive ints, choice indexes are in [0, choice_num)",
    "chunks are non-empty; besides them a never-updated Result may be the "
    "receiver (left operand) and may be merged IN at any later place (it "
    "contributes no observation: what a combined result set holds for a "
    "parameter combination that was simulated in none of its sources)",
    "for MISC results 'value == last observation' is asserted, and with "
    "value accumulation on also the list of accumulated values",
    "for CHOICE results mean/variance are only required to be the same in the "
    "grouped and the single object (no reference value)",
    "general-float statistics are compared with rel. tolerance 1e-12 on the "
    "scale of the sum of absolute terms; int/dyadic/choice classes exactly",
    "result names 'num_skipped_reps' and 'elapsed_time' (special cased by the "
    "runner) are not generated",
]

TYPES = ("SUM", "RATIO", "MISC", "CHOICE")
RTOL = 1e-12


# ----------------------------------------------------------------------------
# strategies (plain data)
# ----------------------------------------------------------------------------
def _gen_float():
    mag = st.floats(min_value=-6, max_value=6, allow_nan=False).map(
        lambda e: float(10.0 ** e))
    return st.one_of(
        st.just(0.0),
        st.tuples(st.sampled_from([-1.0, 1.0]), mag).map(
            lambda t: t[0] * t[1]),
        st.floats(min_value=-100, max_value=100, allow_nan=False).map(
            lambda x: 0.0 if abs(x) < 1e-6 else float(x)))


_CLASSES = {
    "SUM": ("int", "dyadic", "float", "mixed"),
    "RATIO": ("dyadic", "general", "unitfrac"),
    "MISC": ("misc",),
    "CHOICE": ("choice",),
}


def _obs_strategy(typ, cls, choice_num):
    """strategy of one observation [value, total]"""
    none = st.none()
    if typ == "SUM":
        ints = st.integers(-10**6, 10**6)
        dy = st.integers(-8000, 8000).map(lambda k: k / 8.0)
        v = dict(int=ints, dyadic=dy, float=_gen_float(),
                 mixed=st.one_of(ints, _gen_float(), dy))[cls]
        return st.tuples(v, none).map(list)
    if typ == "RATIO":
        if cls == "dyadic":
            t = st.sampled_from([1, 2, 4, 8, 16, 64, 1024])
            v = st.integers(0, 1000)
        elif cls == "unitfrac":
            # what the apps record: a rate (float in [0, 1]) per repetition,
            # total 1
            t = st.just(1)
            v = st.integers(0, 8).map(lambda k: k / 8.0)
        else:
            t = st.integers(1, 10**4)
            v = st.integers(0, 10**4)
        return st.tuples(v, t).map(list)
    if typ == "CHOICE":
        return st.tuples(st.integers(0, choice_num - 1), none).map(list)
    v = st.one_of(st.integers(-10**6, 10**6),
                  st.text(alphabet="abcXYZ 01", max_size=5),
                  st.sampled_from([0.5, -2.25, 1e6]),
                  # an optional observation / a small container ("anything")
                  st.none(), st.sampled_from([[1, "a"], [], [0.5, None]]))
    return st.tuples(v, none).map(list)


@st.composite
def _type_cls(draw):
    typ = draw(st.sampled_from(TYPES + ("SUM", "RATIO")))
    cls = draw(st.sampled_from(_CLASSES[typ]))
    choice_num = draw(st.integers(1, 6)) if typ == "CHOICE" else None
    return typ, cls, choice_num


@st.composite
def _partition(draw, n, max_chunks=None):
    """sizes of contiguous non-empty chunks summing to n (n >= 1)"""
    mode = draw(st.sampled_from(["any", "any", "any", "singletons", "one",
                                 "two"]))
    if mode == "singletons":
        sizes = [1] * n
    elif mode == "one" or n == 1:
        sizes = [n]
    elif mode == "two":
        k = draw(st.integers(1, n - 1))
        sizes = [k, n - k]
    else:
        cuts = draw(st.lists(st.booleans(), min_size=n - 1, max_size=n - 1))
        sizes, cur = [], 1
        for c in cuts:
            if c:
                sizes.append(cur)
                cur = 1
            else:
                cur += 1
        sizes.append(cur)
    if max_chunks is not None:
        while len(sizes) > max_chunks:
            last = sizes.pop()
            sizes[-1] += last
    return sizes


@st.composite
def _merge_plan(draw, k):
    """k objects -> k-1 steps 'merge pair i into its left neighbour'; the
    index is reduced modulo the number of remaining pairs at replay time"""
    if k <= 1:
        return []
    shape = draw(st.sampled_from(["left", "right", "any", "any", "any"]))
    if shape == "left":
        return [0] * (k - 1)
    if shape == "right":
        return [k - 2 - j for j in range(k - 1)]
    return [draw(st.integers(0, k - 2 - j)) for j in range(k - 1)]


@st.composite
def _result_case(draw, tier):
    typ, cls, choice_num = draw(_type_cls())
    nmax = 12 if tier == "quick" else 40
    obs = draw(st.lists(_obs_strategy(typ, cls, choice_num), min_size=1,
                        max_size=nmax))
    n = len(obs)
    tail = draw(st.sampled_from([0, 0, 0, 1, 2]))
    tail = min(tail, n - 1)
    sizes = draw(_partition(n - tail))
    return dict(part="result", type=typ, cls=cls, choice_num=choice_num,
                acc=draw(st.booleans()), obs=obs, chunks=sizes, tail=tail,
                order=draw(_merge_plan(len(sizes))),
                empty_head=draw(st.sampled_from([False, False, True])),
                # a never-updated Result merged IN somewhere after the first
                # chunk (a parameter combination one of the sets never
                # simulated): it contributes no observation
                empty_at=draw(st.one_of(st.none(), st.none(),
                                        st.integers(0, 12))),
                empty_order=draw(st.integers(0, 12)),
                create_first=draw(st.booleans()),
                np_obs=draw(st.sampled_from([False, False, True])))


# (some names are parts of the name of the runner's own 'num_skipped_reps')
_NAMES = ["ber", "Alpha", "ser", "zeta", "count", "B2", "reps", "num", "r",
          "skipped"]


@st.composite
def _result_specs(draw, max_results=4):
    k = draw(st.integers(1, max_results))
    names = draw(st.permutations(_NAMES))[:k]
    specs = []
    for nm in names:
        typ, cls, choice_num = draw(_type_cls())
        specs.append(dict(name=nm, type=typ, cls=cls, choice_num=choice_num,
                          acc=draw(st.booleans())))
    return specs


def _rep_strategy(specs):
    """one repetition = one observation per named result"""
    return st.tuples(*[_obs_strategy(s["type"], s["cls"], s["choice_num"])
                       for s in specs]).map(list)


@st.composite
def _sets_case(draw, tier):
    specs = draw(_result_specs())
    nvar = draw(st.sampled_from([1, 1, 2, 3]))
    rmax = 8 if tier == "quick" else 20
    variations = []
    for _ in range(nvar):
        reps = draw(st.lists(_rep_strategy(specs), min_size=1, max_size=rmax))
        sizes = draw(_partition(len(reps)))
        variations.append(dict(
            reps=reps, chunks=sizes, order=draw(_merge_plan(len(sizes))),
            from_empty=[draw(st.booleans()) for _ in sizes]))
    late = draw(st.lists(_rep_strategy(specs), min_size=0, max_size=2))
    return dict(part="sets", results=specs, variations=variations,
                late_reps=late, name_order_varies=draw(st.booleans()),
                append_grouped=draw(st.booleans()),
                np_obs=draw(st.sampled_from([False, False, True])))


# (names with numbers of different digit counts: 'p10' sorts before 'p2' as
# a string, after it in a natural sort; upper case sorts before lower case)
_PNAMES = ["snr", "alpha", "Zeta", "p", "p2", "p10", "x9", "x10"]


@st.composite
def _combine_case(draw, tier):
    specs = draw(_result_specs(3))
    nun = draw(st.sampled_from([1, 1, 2]))
    # 'cross' class: two swept parameters whose smallest values were never
    # simulated together (the FIRST combination of the union grid belongs to
    # neither source), a CHOICE result among the results, three sets
    cross = nun == 2 and draw(st.integers(0, 5)) == 0
    if cross and not any(sp["type"] == "CHOICE" for sp in specs):
        specs[-1] = dict(specs[-1], type="CHOICE", cls="choice",
                         choice_num=draw(st.integers(1, 6)))
    names = draw(st.permutations(_PNAMES))[:nun + 1]
    unpacked = []
    for nm in names[:nun]:
        kind = draw(st.sampled_from(["int", "float", "float", "close",
                                     "mixed", "str"]))
        if kind == "str":
            # labels of different lengths ('QPSK', '16QAM', ...)
            pool = draw(st.lists(st.sampled_from(
                ["x", "yy", "BPSK", "QPSK", "16QAM", "64QAM", "A b c d"]),
                min_size=2, max_size=5, unique=True))
        elif kind == "mixed":
            # one simulation stored integers, the other one floats
            pool = draw(st.lists(st.integers(-5, 20), min_size=2, max_size=5,
                                 unique=True))
        elif kind == "int":
            pool = draw(st.lists(st.integers(-5, 20), min_size=1, max_size=5,
                                 unique=True))
        elif kind == "close":
            # distinct floats that are tiny or nearly equal (noise powers in
            # Watts, ppm steps): equal only under a tolerance, not exactly
            pool = draw(st.lists(st.sampled_from(
                [1e-9, 1e-10, 1e-11, 1e-12, 3e-12, 1.0, 1.0000025, 1.000005,
                 2.5, 2.5000000000000004]), min_size=2, max_size=5,
                unique=True))
        else:
            pool = draw(st.lists(st.integers(-20, 80).map(lambda k: k / 4.0),
                                 min_size=1, max_size=5, unique=True))
        overlap = draw(st.sampled_from(["some", "some", "none", "all"]))
        maxv = 3 if nun == 2 else 4
        if overlap == "all":
            a = pool[:maxv]
            b = draw(st.permutations(a))
        elif overlap == "none" and len(pool) >= 2:
            k = draw(st.integers(1, len(pool) - 1))
            a, b = pool[:k][:maxv], pool[k:][:maxv]
        else:
            a = draw(st.lists(st.sampled_from(pool), min_size=1,
                              max_size=maxv, unique=True))
            b = draw(st.lists(st.sampled_from(pool), min_size=1,
                              max_size=maxv, unique=True))
        c = draw(st.lists(st.sampled_from(pool), min_size=1, max_size=maxv,
                          unique=True))
        if kind == "mixed":
            b = [x + draw(st.sampled_from([0.0, 0.0, 0.5, 0.25])) for x in b]
            c = [float(x) for x in c]
        if cross and kind in ("int", "float", "close", "str") and \
                len(pool) >= 2:
            lo, hi = sorted(pool)[0], sorted(pool)[1]
            a, b = ([lo], [hi]) if len(unpacked) == 0 else ([hi], [lo])
        unpacked.append(dict(name=nm, a=list(a), b=list(b), c=list(c),
                             kind=kind,
                             container=draw(st.sampled_from(
                                 ["list", "array"]))))
    fixed = {names[nun]: draw(st.one_of(st.integers(-3, 3),
                                        st.sampled_from(["x", "QAM"])))}
    na = 1
    nb = 1
    nc = 1
    for u in unpacked:
        na *= len(u["a"])
        nb *= len(u["b"])
        nc *= len(u["c"])
    rep = st.lists(_rep_strategy(specs), min_size=1, max_size=3)
    a_obs = [draw(rep) for _ in range(na)]
    b_obs = [draw(rep) for _ in range(nb)]
    # a third result set, combined as (a+b)+c or a+(b+c)
    third = draw(st.sampled_from(["left", "right"] if cross else
                                 [None, None, "left", "right"]))
    c_obs = [draw(rep) for _ in range(nc)] if third else []
    # value accumulation may have been switched on for some of the sets only
    acc_sides = draw(st.one_of(st.none(), st.none(), st.lists(
        st.booleans(), min_size=3, max_size=3)))
    return dict(part="combine", results=specs, unpacked=unpacked,
                fixed=fixed, a_obs=a_obs, b_obs=b_obs, c_obs=c_obs,
                third=third, acc_sides=acc_sides,
                name_order_varies=draw(st.booleans()),
                np_obs=draw(st.sampled_from([False, False, True])))


@st.composite
def _skipcount_case(draw, tier):
    """result sets of which only SOME carry the runner's 'num_skipped_reps'
    SUM result (merge_all_results documents that such sets can be merged);
    the grouping law must hold for that result as well"""
    n = draw(st.integers(2, 6))
    with_y = draw(st.booleans())
    sets = []
    for _ in range(n):
        d = dict(x=draw(st.integers(-5, 9)),
                 skipped=draw(st.one_of(st.none(), st.none(),
                                        st.integers(0, 4))))
        if with_y:
            d["y"] = draw(st.integers(-3, 3))
        if d["skipped"] is not None:
            # the skip count may be stored before the other results, and
            # the set may hold an earlier variation (appended results)
            d["skip_first"] = draw(st.booleans())
            if draw(st.integers(0, 3)) == 0:
                d["hist"] = [draw(st.integers(10, 19)),
                             draw(st.integers(5, 9))]
        sets.append(d)
    order = draw(st.lists(st.integers(0, 10), min_size=n, max_size=n))
    empty_head = draw(st.integers(0, 2)) == 0
    return dict(part="skipcount", sets=sets, order=order,
                empty_head=empty_head)


PARTS = [
    Part("skipcount", _skipcount_case, quick=800, thorough=20000),
    Part("result", _result_case, quick=6000, thorough=150000,
         quick_shards=8),
    Part("sets", _sets_case, quick=2000, thorough=40000),
    Part("combine", _combine_case, quick=1500, thorough=30000),
]


# ----------------------------------------------------------------------------
# reference model (exact rational arithmetic)
# ----------------------------------------------------------------------------
class Ref(object):
    """Sufficient statistics of a sequence of observations, exactly."""
    def __init__(self, typ, choice_num, obs):
        self.typ = typ
        self.n = len(obs)
        self.obs = obs
        self.r = None
        if typ == "SUM":
            self.r = [Fraction(v) for v, _ in obs]
            self.value = sum(self.r, Fraction(0))
            self.value_abs = sum((abs(x) for x in self.r), Fraction(0))
            self.total = None
        elif typ == "RATIO":
            self.r = [Fraction(v) / Fraction(t) for v, t in obs]
            self.value = sum((Fraction(v) for v, _ in obs), Fraction(0))
            self.value_abs = self.value
            self.total = Fraction(sum(t for _, t in obs))
        elif typ == "CHOICE":
            self.value = [sum(1 for v, _ in obs if v == i)
                          for i in range(choice_num)]
            self.total = Fraction(self.n)
        else:
            self.value = obs[-1][0] if obs else None
            self.total = None
        if self.r is not None:
            self.rsum = sum(self.r, Fraction(0))
            self.rsum_abs = sum((abs(x) for x in self.r), Fraction(0))
            self.rsq = sum((x * x for x in self.r), Fraction(0))
            if self.n:
                self.mean = self.rsum / self.n
                self.var = self.rsq / self.n - self.mean ** 2


def _frac(x, what, tags):
    """library number -> Fraction (exact); non-finite is a violation"""
    if isinstance(x, (bool, np.bool_)):
        raise Violation("wrong_type", "%s is a bool: %r" % (what, x), tags)
    if isinstance(x, (int, np.integer)):
        return Fraction(int(x))
    if isinstance(x, (float, np.floating)):
        x = float(x)
        if x != x or x in (float("inf"), float("-inf")):
            raise Violation("not_finite", "%s = %r" % (what, x), tags)
        return Fraction(x)
    raise Violation("wrong_type", "%s has type %s: %r" %
                    (what, type(x).__name__, x), tags)


def _close(ctx, name, got, ref, scale, exact, what, tags):
    err = abs(_frac(got, what, tags) - ref)
    if exact:
        ctx.err(name + "[exact]", float(err), 0.0)
        if err != 0:
            raise Violation(name, "%s: got %r, exact reference %s (=%r)" %
                            (what, got, ref, float(ref)), tags)
    else:
        tol = RTOL * float(scale)
        ctx.close(name, float(err), tol, "%s: got %r, reference %r" %
                  (what, got, float(ref)), tags)


def _plain(x):
    if isinstance(x, np.ndarray):
        return ["ndarray", str(x.dtype), x.tolist()]
    return [type(x).__name__, repr(x)]


def _num(x):
    return isinstance(x, (int, float, np.integer, np.floating)) and \
        not isinstance(x, (bool, np.bool_))


def _same_obs(a, b):
    """a stored observation equals the one handed over: strictly (type and
    repr) - except that observations handed over as numpy scalars may be
    stored as such or as the Python number of the same value"""
    if _NP_OBS[0] and _num(a) and _num(b):
        return bool(a == b)
    return _plain(a) == _plain(b)


def _snap(r):
    """my own field-by-field image of a Result (strict: type and repr)"""
    d = r.to_dict()
    return dict(
        name=_plain(d["name"]), type=_plain(d["update_type_code"]),
        value=_plain(d["value"]), total=_plain(d["total"]),
        result_sum=_plain(d["result_sum"]),
        result_squared_sum=_plain(d["result_squared_sum"]),
        num_updates=_plain(d["num_updates"]),
        acc=_plain(d["accumulate_values_bool"]),
        value_list=[_plain(x) for x in d["value_list"]],
        total_list=[_plain(x) for x in d["total_list"]])


def _snap_diff(a, b):
    return sorted(k for k in a if a[k] != b[k])


def _snap_set(s):
    return {nm: [_snap(r) for r in s[nm]] for nm in
            sorted(s.get_result_names())}


def _check_result(ctx, r, ref, exact, acc, stage, tags, single=None):
    """Compare one library Result with the exact reference.  Only what the
    property states: value, total, update count, mean, variance (and the
    accumulated lists when accumulation is on); MISC: last observation."""
    tags = dict(tags, stage=stage)
    typ = ref.typ
    pre = stage + ": "
    if typ == "MISC":
        got = r.get_result()
        if ref.n and not _same_obs(got, ref.value) and (
                _NP_OBS[0] or type(got) is not type(ref.value) or
                got != ref.value):
            raise Violation("misc_last_wins", pre + "value %r, last "
                            "observation %r" % (got, ref.value), tags)
        if acc:
            # with value accumulation on, every observation is kept, however
            # the observations were grouped
            want_v = [v for v, _ in ref.obs]
            got_l = r.to_dict()["value_list"]
            if len(got_l) != len(want_v) or not all(
                    _same_obs(x, y) for x, y in zip(got_l, want_v)):
                raise Violation("value_list", pre + "accumulated values %r, "
                                "observations %r" % (got_l, want_v), tags)
        return
    d = r.to_dict()
    if d["num_updates"] != ref.n or isinstance(d["num_updates"], bool):
        raise Violation("num_updates", pre + "num_updates %r, %d observations"
                        % (d["num_updates"], ref.n), tags)
    if typ == "CHOICE":
        val = np.asarray(d["value"])
        if val.shape != (len(ref.value),) or val.tolist() != ref.value:
            raise Violation("choice_counts", pre + "counts %r, reference %r" %
                            (val.tolist(), ref.value), tags)
        _close(ctx, "total", d["total"], ref.total, 1, True, pre + "total",
               tags)
        if ref.n:
            got = np.asarray(r.get_result(), dtype=float)
            want = np.array([c / float(ref.n) for c in ref.value])
            e = float(np.max(np.abs(got - want))) if got.shape == want.shape \
                else float("inf")
            ctx.close("choice_freq", e, 1e-15, pre + "get_result %r" %
                      (got.tolist(),), tags)
    else:
        _close(ctx, "value", d["value"], ref.value, ref.value_abs, exact,
               pre + "value", tags)
        if typ == "RATIO":
            _close(ctx, "total", d["total"], ref.total, 1, True,
                   pre + "total", tags)
        if ref.n:
            if typ == "SUM":
                _close(ctx, "get_result", r.get_result(), ref.value,
                       ref.value_abs, exact, pre + "get_result()", tags)
            else:
                q = ref.value / ref.total
                _close(ctx, "get_result", r.get_result(), q, q, False,
                       pre + "get_result()", tags)
        # the raw sufficient statistics are compared exactly in the exact
        # classes (observation point: the public dict representation)
        if exact:
            _close(ctx, "result_sum", d["result_sum"], ref.rsum, 1, True,
                   pre + "result_sum", tags)
            _close(ctx, "result_squared_sum", d["result_squared_sum"],
                   ref.rsq, 1, True, pre + "result_squared_sum", tags)
        if ref.n:
            _close(ctx, "mean", r.get_result_mean(), ref.mean,
                   ref.rsum_abs / ref.n, False, pre + "mean", tags)
            _close(ctx, "var", r.get_result_var(), ref.var,
                   2 * ref.rsq / ref.n, False, pre + "variance", tags)
    if single is not None:
        ds = single.to_dict()
        if typ == "SUM" and _plain(d["total"]) != _plain(ds["total"]):
            raise Violation("total", pre + "total %r, single object %r" %
                            (d["total"], ds["total"]), tags)
        if typ == "CHOICE" and ref.n:
            if (r.get_result_mean() != single.get_result_mean()
                    or r.get_result_var() != single.get_result_var()):
                raise Violation("choice_mean_var", pre + "mean/var (%r, %r) "
                                "differ from the single object (%r, %r)" % (
                                    r.get_result_mean(), r.get_result_var(),
                                    single.get_result_mean(),
                                    single.get_result_var()), tags)
    if acc:
        want_v = [v for v, _ in ref.obs]
        want_t = [t for _, t in ref.obs] if typ == "RATIO" else []
        if len(d["value_list"]) != len(want_v) or not all(
                _same_obs(x, y) for x, y in zip(d["value_list"], want_v)):
            raise Violation("value_list", pre + "accumulated values %r, "
                            "observations %r" % (d["value_list"], want_v),
                            tags)
        if len(d["total_list"]) != len(want_t) or not all(
                _same_obs(x, y) for x, y in zip(d["total_list"], want_t)):
            raise Violation("total_list", pre + "accumulated totals %r, "
                            "observations %r" % (d["total_list"], want_t),
                            tags)


_EXACT = {"int", "dyadic", "choice", "unitfrac"}


def _new_result(Result, name, spec_type, acc, choice_num, obs, use_create):
    """Result holding the observations obs (list of [value, total])."""
    code = getattr(Result, spec_type + "TYPE")
    start = 0
    if _NP_OBS[0]:
        # the observations as numpy scalars (what a simulation that counts
        # with numpy hands over): same values, other number types
        def conv(x, j):
            if isinstance(x, bool) or not isinstance(x, (int, float)):
                return x
            if isinstance(x, int):
                if spec_type == "CHOICE":
                    return [np.int64, np.uint8, np.int16, np.int32][j % 4](x)
                return np.int64(x) if abs(x) < 2 ** 62 else x
            return np.float64(x)
        obs = [[conv(v, j), conv(t, j)] for j, (v, t) in enumerate(obs)]
    if use_create and obs:
        v, t = obs[0]
        if spec_type == "CHOICE":
            r = Result.create(name, code, v, choice_num,
                              accumulate_values=acc)
        elif spec_type == "RATIO":
            r = Result.create(name, code, v, t, accumulate_values=acc)
        else:
            r = Result.create(name, code, v, accumulate_values=acc)
        start = 1
    else:
        r = Result(name, code, accumulate_values=acc, choice_num=choice_num)
    for v, t in obs[start:]:
        if spec_type == "RATIO":
            r.update(v, t)
        else:
            r.update(v)
    return r


_NP_OBS = [False]      # set per case by check()


def _plan_shape(order, k):
    if k <= 2:
        return "plan_trivial"
    idx = []
    left = k
    for j, o in enumerate(order):
        idx.append(o % (left - 1))
        left -= 1
    if all(i == 0 for i in idx):
        return "plan_left_comb"
    if all(i == k - 2 - j for j, i in enumerate(idx)):
        return "plan_right_comb"
    return "plan_mixed"


# ----------------------------------------------------------------------------
# part: result
# ----------------------------------------------------------------------------
def _check_result_part(case, ctx):
    from pyphysim.simulations.results import Result
    typ, cls, acc = case["type"], case["cls"], bool(case["acc"])
    cn = case["choice_num"]
    obs = [list(o) for o in case["obs"]]
    n = len(obs)
    tail = int(case["tail"])
    sizes = list(case["chunks"])
    assert sum(sizes) + tail == n and all(s >= 1 for s in sizes)
    exact = cls in _EXACT
    tags = dict(part="result", type=typ, cls=cls, acc=acc)
    k = len(sizes)
    order = list(case["order"])
    if case["empty_head"]:
        order = order + [0]
    empty_at = case.get("empty_at")
    if empty_at is not None:
        order.insert(int(case["empty_order"]) % (len(order) + 1),
                     int(case["empty_order"]))
        ctx.label("empty_operand_merged_in")
    shape = _plan_shape(order, k + (1 if case["empty_head"] else 0) +
                        (1 if empty_at is not None else 0))
    ctx.label("result:" + typ, "cls:" + cls, "acc" if acc else "no_acc",
              "chunks=1" if k == 1 else ("chunks=2" if k == 2 else
                                         "chunks>=3"),
              shape, "n=%s" % ("1" if n == 1 else "2" if n == 2 else
                               "3..6" if n <= 6 else ">=7"))
    if case["empty_head"]:
        ctx.label("empty_head")
    if tail:
        ctx.label("tail_updates")
    ctx.nontrivial(n >= 3 and k >= 3 and shape != "plan_left_comb")

    # (1) everything accumulated into ONE object
    ref = Ref(typ, cn, obs)
    single = _new_result(Result, "res", typ, acc, cn, obs,
                         case["create_first"])
    _check_result(ctx, single, ref, exact, acc, "single", tags)

    # (2) split over several objects
    objs, ranges, pos = [], [], 0
    if case["empty_head"]:
        objs.append(_new_result(Result, "res", typ, acc, cn, [], False))
        ranges.append((0, 0))
    for s in sizes:
        chunk = obs[pos:pos + s]
        objs.append(_new_result(Result, "res", typ, acc, cn, chunk,
                                case["create_first"]))
        ranges.append((pos, pos + s))
        _check_result(ctx, objs[-1], Ref(typ, cn, chunk), exact, acc, "chunk",
                      tags)
        pos += s
    if empty_at is not None:
        j = 1 + int(empty_at) % len(objs)
        objs.insert(j, _new_result(Result, "res", typ, acc, cn, [], False))
        ranges.insert(j, (ranges[j - 1][1], ranges[j - 1][1]))
    operands = []                       # (object, snapshot, description)
    step = 0
    while len(objs) > 1:
        i = order[step] % (len(objs) - 1)
        step += 1
        left, right = objs[i], objs[i + 1]
        before = _snap(right)
        left.merge(right)
        after = _snap(right)
        if before != after:
            raise Violation("operand_mutated", "merge step %d changed the "
                            "merged-in operand (observations %r): fields %r" %
                            (step, ranges[i + 1], _snap_diff(before, after)),
                            tags)
        operands.append((right, before, ranges[i + 1]))
        ranges[i] = (ranges[i][0], ranges[i + 1][1])
        del objs[i + 1], ranges[i + 1]
        a, b = ranges[i]
        _check_result(ctx, left, Ref(typ, cn, obs[a:b]), exact, acc,
                      "partial_merge", tags)
    merged = objs[0]
    for v, t in obs[n - tail:]:
        if typ == "RATIO":
            merged.update(v, t)
        else:
            merged.update(v)
    _check_result(ctx, merged, ref, exact, acc, "merged", tags, single=single)
    if exact and typ != "MISC" and not (merged == single):
        raise Violation("library_eq", "merged object != single object "
                        "according to Result.__eq__ although all statistics "
                        "are exactly representable: %r vs %r" %
                        (merged.to_dict(), single.to_dict()), tags)
    for obj, before, rng in operands:
        after = _snap(obj)
        if before != after:
            raise Violation("operand_mutated_later", "operand holding "
                            "observations %r was changed by a later merge/"
                            "update of the receiver: fields %r" %
                            (rng, _snap_diff(before, after)), tags)


# ----------------------------------------------------------------------------
# part: sets
# ----------------------------------------------------------------------------
def _make_set(SimulationResults, Result, specs, rep, reverse=False):
    s = SimulationResults()
    pairs = list(zip(specs, rep))
    if reverse:
        # the same results, added to the set in another order
        pairs = pairs[::-1]
    for spec, (v, t) in pairs:
        s.add_result(_new_result(Result, spec["name"], spec["type"],
                                 bool(spec["acc"]), spec["choice_num"],
                                 [[v, t]], True))
    return s


def _check_set(ctx, s, specs, reps, stage, tags, index=-1, nvalues=1):
    names = sorted(s.get_result_names())
    want = sorted(sp["name"] for sp in specs)
    if names != want:
        raise Violation("set_names", "%s: result names %r, expected %r" %
                        (stage, names, want), tags)
    for j, sp in enumerate(specs):
        lst = s[sp["name"]]
        if len(lst) != nvalues:
            raise Violation("set_list_length", "%s: %d Result objects stored "
                            "for %r, expected %d" % (stage, len(lst),
                                                     sp["name"], nvalues),
                            tags)
        ref = Ref(sp["type"], sp["choice_num"], [r[j] for r in reps])
        _check_result(ctx, lst[index], ref, sp["cls"] in _EXACT,
                      bool(sp["acc"]), stage,
                      dict(tags, type=sp["type"], cls=sp["cls"],
                           acc=bool(sp["acc"])))


def _check_sets_part(case, ctx):
    from pyphysim.simulations.results import Result, SimulationResults
    specs = case["results"]
    tags = dict(part="sets")
    nvar = len(case["variations"])
    ctx.label("sets:nres=%d" % len(specs), "sets:nvar=%d" % nvar)
    for sp in specs:
        ctx.label("sets:" + sp["type"])
    pending = []        # operand-mutation findings are raised last
    finals = []
    nontrivial = False
    for vi, var in enumerate(case["variations"]):
        reps = var["reps"]
        sizes = list(var["chunks"])
        k = len(sizes)
        assert sum(sizes) == len(reps)
        if len(reps) >= 3 and k >= 2:
            nontrivial = True
        ctx.label("sets:" + _plan_shape(var["order"], k))
        operands = []   # (set, snapshot, description, via_empty)
        sets, ranges, pos = [], [], 0
        for ci, sz in enumerate(sizes):
            chunk = reps[pos:pos + sz]
            rep_sets = [_make_set(SimulationResults, Result, specs, r,
                                  reverse=bool(case.get("name_order_varies"))
                                  and (pos + q) % 2 == 1)
                        for q, r in enumerate(chunk)]
            via_empty = bool(var["from_empty"][ci])
            if via_empty:
                ctx.label("sets:receiver_empty" + ("_then_merge" if sz >= 2
                                                   else ""))
                acc_set = SimulationResults()
                todo = rep_sets
            else:
                ctx.label("sets:receiver_first_rep")
                acc_set = rep_sets[0]
                todo = rep_sets[1:]
            for ri, rs in enumerate(todo):
                before = _snap_set(rs)
                acc_set.merge_all_results(rs)
                after = _snap_set(rs)
                desc = "variation %d chunk %d repetition set %d" % (vi, ci,
                                                                   ri)
                if before != after:
                    pending.append(("set_operand_mutated", desc,
                                    dict(tags, via_empty=via_empty)))
                operands.append((rs, before, desc, via_empty))
            _check_set(ctx, acc_set, specs, chunk, "chunk_set", tags)
            sets.append(acc_set)
            ranges.append((pos, pos + sz))
            pos += sz
        step = 0
        while len(sets) > 1:
            i = var["order"][step] % (len(sets) - 1)
            step += 1
            left, right = sets[i], sets[i + 1]
            before = _snap_set(right)
            left.merge_all_results(right)
            after = _snap_set(right)
            desc = "variation %d chunk set of repetitions %r" % (
                vi, ranges[i + 1])
            if before != after:
                pending.append(("set_operand_mutated", desc,
                                dict(tags, via_empty=False)))
            operands.append((right, before, desc, False))
            ranges[i] = (ranges[i][0], ranges[i + 1][1])
            del sets[i + 1], ranges[i + 1]
            a, b = ranges[i]
            _check_set(ctx, left, specs, reps[a:b], "partial_set_merge", tags)
        _check_set(ctx, sets[0], specs, reps, "merged_set", tags)
        for obj, before, desc, via_empty in operands:
            if _snap_set(obj) != before:
                pending.append(("set_operand_mutated_later", desc,
                                dict(tags, via_empty=via_empty)))
        finals.append(sets[0])
    ctx.nontrivial(nontrivial)

    # append the per-variation sets (what the runner does per variation)
    allres = SimulationResults()
    grouped = bool(case.get("append_grouped")) and nvar >= 2
    if case.get("name_order_varies"):
        ctx.label("sets:name_order_varies")
    if grouped:
        # two appended sets (several results per name each) appended again
        ctx.label("sets:append_of_appended_sets")
        halves = [SimulationResults(), SimulationResults()]
    for vi, f in enumerate(finals):
        before = _snap_set(f)
        target = halves[0 if vi < nvar // 2 else 1] if grouped else allres
        target.append_all_results(f)
        if _snap_set(f) != before:
            pending.append(("append_operand_mutated", "variation %d" % vi,
                            tags))
    if grouped:
        for h in halves:
            before = _snap_set(h)
            allres.append_all_results(h)
            if _snap_set(h) != before:
                pending.append(("append_operand_mutated", "appended half",
                                tags))
    for vi, var in enumerate(case["variations"]):
        _check_set(ctx, allres, specs, var["reps"], "appended[%d]" % vi, tags,
                   index=vi, nvalues=nvar)
    # documented: with several values stored per name, merge_all_results
    # updates the LAST one (here: the last variation) and only that one
    late = case.get("late_reps") or []
    if late:
        ctx.label("sets:merge_after_append")
    for li, rep in enumerate(late):
        rs = _make_set(SimulationResults, Result, specs, rep)
        before = _snap_set(rs)
        allres.merge_all_results(rs)
        if _snap_set(rs) != before:
            pending.append(("set_operand_mutated", "late repetition set %d" %
                            li, dict(tags, via_empty=False)))
    if late:
        for vi, var in enumerate(case["variations"]):
            extra = late if vi == nvar - 1 else []
            _check_set(ctx, allres, specs, var["reps"] + extra,
                       "appended_then_merged[%d]" % vi, tags, index=vi,
                       nvalues=nvar)
    for sp_i, sp in enumerate(specs):
        if sp["type"] == "SUM" and sp["cls"] in _EXACT:
            got = allres.get_result_values_list(sp["name"])
            want = [sum((Fraction(r[sp_i][0]) for r in var["reps"] +
                         (late if vi == nvar - 1 else [])), Fraction(0))
                    for vi, var in enumerate(case["variations"])]
            if [Fraction(x) for x in got] != want:
                raise Violation("values_list", "get_result_values_list(%r) = "
                                "%r, reference %r" % (sp["name"], got,
                                                      [float(w) for w in
                                                       want]), tags)
    if pending:
        # findings not explained by the empty-receiver path come first
        pending.sort(key=lambda p: bool(p[2].get("via_empty")))
        name, desc, t = pending[0]
        raise Violation(name, "%s was changed by merging (%d operand "
                        "observations in this case)" % (desc, len(pending)),
                        t)


# ----------------------------------------------------------------------------
# part: combine
# ----------------------------------------------------------------------------
def _grid(unpacked, which):
    """row-major product over the SORTED unpacked names, values in the order
    they were given (documented order of get_unpacked_params_list)"""
    us = sorted(unpacked, key=lambda u: u["name"])
    return [u["name"] for u in us], \
        list(itertools.product(*[u[which] for u in us]))


def _build_side(SimulationParameters, SimulationResults, Result, case, which,
                specs, obs):
    p = SimulationParameters()
    for u in case["unpacked"]:
        vals = list(u[which])
        p.add(u["name"], np.array(vals) if u["container"] == "array"
              else vals)
    for nm, v in case["fixed"].items():
        p.add(nm, v)
    for u in case["unpacked"]:
        p.set_unpack_parameter(u["name"])
    s = SimulationResults()
    s.set_parameters(p)
    _, combos = _grid(case["unpacked"], which)
    assert len(combos) == len(obs)
    order = list(enumerate(specs))
    if which != "a" and case.get("name_order_varies"):
        # the other sets hold the same results, added in another order
        order.reverse()
    for reps in obs:
        for j, sp in order:
            acc = bool(sp["acc"])
            if case.get("acc_sides"):
                acc = bool(case["acc_sides"]["abc".index(which)])
            s.append_result(_new_result(
                Result, sp["name"], sp["type"], acc,
                sp["choice_num"], [r[j] for r in reps], False))
    return s, combos


def _check_combine_part(case, ctx):
    from pyphysim.simulations.parameters import SimulationParameters
    from pyphysim.simulations.results import (Result, SimulationResults,
                                              combine_simulation_results)
    all_specs = case["results"]
    has_choice = any(sp["type"] == "CHOICE" for sp in all_specs)
    tags = dict(part="combine", has_choice=has_choice)
    third = case.get("third")
    sides = ["a", "b"] + (["c"] if third else [])
    if third:
        ctx.label("combine:three_sets_" + third)
    if case.get("acc_sides") and len(set(case["acc_sides"][:len(sides)])) > 1:
        ctx.label("combine:accumulation_differs_between_sets")
    for u in case["unpacked"]:
        if u.get("kind") in ("mixed", "str"):
            ctx.label("combine:values_" + u["kind"])
    kinds = []
    for u in case["unpacked"]:
        common = set(u["a"]) & set(u["b"])
        if not common:
            kinds.append("none")
        elif set(u["a"]) == set(u["b"]):
            kinds.append("all")
        else:
            kinds.append("some")
    ctx.label("combine:nunpacked=%d" % len(case["unpacked"]))
    for kd in kinds:
        ctx.label("combine:overlap_" + kd)
    for sp in all_specs:
        ctx.label("combine:" + sp["type"])
    ctx.nontrivial("some" in kinds)

    def run(keep):
        specs = [sp for i, sp in enumerate(all_specs) if i in keep]
        sel = lambda obs: [[[r[i] for i in keep] for r in reps]  # noqa
                           for reps in obs]
        built = [_build_side(SimulationParameters, SimulationResults,
                             Result, case, w, specs, sel(case[w + "_obs"]))
                 for w in sides]
        sets = [b[0] for b in built]
        snaps = [_snap_set(x) for x in sets]
        try:
            if third == "left":
                union = combine_simulation_results(
                    combine_simulation_results(sets[0], sets[1]), sets[2])
            elif third == "right":
                union = combine_simulation_results(
                    sets[0], combine_simulation_results(sets[1], sets[2]))
            else:
                union = combine_simulation_results(sets[0], sets[1])
        except Exception as exc:     # tag only; always re-raised by caller
            exc.vpbt_tags = dict(tags, call="combine_simulation_results")
            raise
        names, _ = _grid(case["unpacked"], "a")
        up = union.params
        if list(up.unpacked_parameters) != names:
            raise Violation("combine_params", "unpacked parameters %r, "
                            "expected %r" % (up.unpacked_parameters, names),
                            tags)
        for nm, v in case["fixed"].items():
            if nm not in up.parameters or up[nm] != v or \
                    type(up[nm]) is not type(v):
                raise Violation("combine_params", "fixed parameter %r lost" %
                                nm, tags)
        for u in case["unpacked"]:
            got = sorted(np.asarray(up[u["name"]]).tolist())
            want = sorted(set().union(*[u[w] for w in sides]))
            if got != want:
                raise Violation("combine_params", "values of %r: %r, expected "
                                "the union %r" % (u["name"], got, want), tags)
        variations = up.get_unpacked_params_list()
        seen = set()
        for vi, var in enumerate(variations):
            combo = tuple(var[nm] for nm in names)
            key = tuple(x if isinstance(x, str) else float(x) for x in combo)
            if key in seen:
                raise Violation("combine_params", "combination %r twice" %
                                (combo,), tags)
            seen.add(key)
            srcs = []
            for combos, obs in [(built[k][1], case[w + "_obs"])
                                for k, w in enumerate(sides)]:
                for ci, c in enumerate(combos):
                    if all(x == y for x, y in zip(c, combo)):
                        srcs.append(obs[ci])
            ctx.label("combine:sources=%d" % len(srcs))
            for j, sp in zip(keep, specs):
                lst = union[sp["name"]]
                if len(lst) != len(variations):
                    raise Violation("combine_list_length", "%d results for "
                                    "%r, %d combinations" %
                                    (len(lst), sp["name"], len(variations)),
                                    tags)
                seq = [r[j] for reps in srcs for r in reps]
                ref = Ref(sp["type"], sp["choice_num"], seq)
                # lists are not asserted here: the combined object is a new
                # Result created without value accumulation
                _check_result(ctx, lst[vi], ref, sp["cls"] in _EXACT, False,
                              "combined(sources=%d)" % len(srcs),
                              dict(tags, type=sp["type"], cls=sp["cls"],
                                   nsources=len(srcs)))
        want_n = 1
        for u in case["unpacked"]:
            want_n *= len(set().union(*[u[w] for w in sides]))
        if len(variations) != want_n:
            raise Violation("combine_params", "%d combinations, expected %d" %
                            (len(variations), want_n), tags)
        if [_snap_set(x) for x in sets] != snaps:
            raise Violation("combine_operand_mutated", "a source result set "
                            "was changed by combine_simulation_results", tags)

    everything = list(range(len(all_specs)))
    if not has_choice:
        run(everything)
        return
    try:
        run(everything)
    except Violation:
        raise
    except Exception as exc:
        # keep searching behind a failure of the CHOICE path: the other
        # results of the same case are still verified; the original
        # exception is re-raised afterwards (never swallowed)
        keep = [i for i, sp in enumerate(all_specs) if sp["type"] != "CHOICE"]
        ctx.label("combine:retry_without_choice")
        if keep:
            run(keep)
        raise exc


def _check_skipcount_part(case, ctx):
    from pyphysim.simulations.results import Result, SimulationResults
    tags = dict(part="skipcount")
    objs, ranges, hists = [], [], []

    def build(x, y, skipped, skip_first):
        r = SimulationResults()
        if skipped is not None and skip_first:
            r.add_new_result("num_skipped_reps", Result.SUMTYPE, skipped)
        r.add_new_result("x", Result.SUMTYPE, x)
        if skipped is not None and not skip_first:
            r.add_new_result("num_skipped_reps", Result.SUMTYPE, skipped)
        if y is not None:
            r.add_new_result("y", Result.SUMTYPE, y)
        return r

    if case.get("empty_head"):
        # everything is collected into a set that starts empty
        objs.append(SimulationResults())
        ranges.append((0, 0))
        hists.append(None)
        ctx.label("skipcount:empty_receiver")
    for i, d in enumerate(case["sets"]):
        r = build(d["x"], d.get("y"), d["skipped"], d.get("skip_first"))
        if d.get("hist"):
            # an earlier variation of the same results comes first
            hx, hs = d["hist"]
            r0 = build(hx, None if d.get("y") is None else 0, hs,
                       d.get("skip_first"))
            r0.append_all_results(r)
            r = r0
            ctx.label("skipcount:multi_valued_set")
        if d.get("skip_first"):
            ctx.label("skipcount:skip_count_stored_first")
        objs.append(r)
        ranges.append((i, i + 1))
        hists.append(d.get("hist"))
    n_with = sum(1 for d in case["sets"] if d["skipped"] is not None)
    ctx.label("skipcount:with=%s" % ("none" if n_with == 0 else "all"
                                     if n_with == len(case["sets"])
                                     else "some"))
    ctx.nontrivial(0 < n_with < len(case["sets"]) and len(case["sets"]) >= 3)
    step = 0
    merged_in = []
    while len(objs) > 1:
        i = case["order"][step] % (len(objs) - 1)
        step += 1
        operand = objs[i + 1]
        before = _snap_set(operand)
        receiver_was_empty = len(objs[i]) == 0
        objs[i].merge_all_results(operand)
        merged_in.append((operand, before, ranges[i + 1]))
        ranges[i] = (ranges[i][0], ranges[i + 1][1])
        if receiver_was_empty:
            hists[i] = hists[i + 1]     # an empty set takes over everything
            ctx.label("skipcount:merged_into_empty")
        del objs[i + 1], ranges[i + 1], hists[i + 1]
        # merging never mutates the merged-in operands, now or later
        for op_set, snap, rng in merged_in:
            if _snap_set(op_set) != snap:
                raise Violation("skipcount_operand_mutated", "the set of "
                                "repetitions %d..%d, merged in earlier, was "
                                "changed by merge step %d" %
                                (rng[0], rng[1] - 1, step), tags)
        a, b = ranges[i]
        part_sets = case["sets"][a:b]
        for nm in ("x", "y"):
            if part_sets[0].get(nm) is None:
                continue
            want = sum(d[nm] for d in part_sets)
            got = objs[i][nm][-1].get_result()
            if got != want:
                raise Violation("skipcount_x", "merged %r of sets %d..%d is "
                                "%r, sum is %r" % (nm, a, b - 1, got, want),
                                tags)
        have = [d["skipped"] for d in part_sets if d["skipped"] is not None]
        names = objs[i].get_result_names()
        if have:
            if "num_skipped_reps" not in names:
                raise Violation("skipcount_missing", "merged sets %d..%d lost "
                                "the 'num_skipped_reps' result" % (a, b - 1),
                                tags)
            got = objs[i]["num_skipped_reps"][-1].get_result()
            if got != sum(have):
                raise Violation("skipcount_value", "merged 'num_skipped_reps' "
                                "of sets %d..%d (counts %r) is %r, expected %r"
                                % (a, b - 1, [d["skipped"] for d in part_sets],
                                   got, sum(have)), tags)
        if hists[i]:
            # the earlier variation held by the receiver is not touched
            hx, hs = hists[i]
            got = (objs[i]["x"][0].get_result(),
                   objs[i]["num_skipped_reps"][0].get_result(),
                   len(objs[i]["x"]), len(objs[i]["num_skipped_reps"]))
            if got != (hx, hs, 2, 2):
                raise Violation("skipcount_earlier_variation", "the earlier "
                                "variation (x=%r, skipped=%r) of the "
                                "receiving set reads x=%r skipped=%r (list "
                                "lengths %r, %r) after a merge" %
                                ((hx, hs) + got), tags)


def check(case, ctx):
    part = case["part"]
    _NP_OBS[0] = bool(case.get("np_obs"))
    if _NP_OBS[0]:
        ctx.label("observations_as_numpy_scalars")
    if part == "skipcount":
        return _check_skipcount_part(case, ctx)
    if part == "result":
        return _check_result_part(case, ctx)
    if part == "sets":
        return _check_sets_part(case, ctx)
    if part == "combine":
        return _check_combine_part(case, ctx)
    raise AssertionError("unknown part %r" % part)
