"""C07 - a simulation stopped at any point resumes without losing or
double-counting work (fault enumeration: crash points x write prefixes)."""
import json
import os
import pickle
import shutil
import subprocess
import sys
import tempfile

from hypothesis import strategies as st

from ..core import Part, Violation, VERIF_DIR, REPO
from .. import runner_harness as H

PROPERTY = "C07"
LEVEL = "fault_enumeration"
LEVEL_TEXT = (
    "Fault enumeration with a harness-owned crash model: the harness kills "
    "the 'process' (a BaseException no library handler can swallow; "
    "cross-checked against real child processes ended by os._exit) inside "
    "any _run_simulation call, at any file-system call made while saving "
    "partial/final results (open, any of five write prefixes, before/after "
    "the rename, before/after each deletion), then discards the runner, "
    "builds a new one from the files left behind and lets it finish. "
    "Repetitions are identified individually (one-hot id vectors), so the "
    "merged result is the multiset of counted repetitions. For a small grid "
    "all crash points are enumerated in every run; larger grids, crash "
    "sequences, the 500-repetition save period and the fake 5-minute clock "
    "are sampled with Hypothesis.")
LEVEL_NOTE = (
    "Crash model = process death between Python-level file-system calls "
    "(durable state only changes there); OS-level reordering of unsynced "
    "pages after power loss is outside the model. time() is replaced by a "
    "fake clock; open/os.replace/os.remove are wrapped inside the harness "
    "process only.")
TECHNIQUE = ("fault injection driven by Hypothesis + exhaustive enumeration "
             "of crash points on a small grid; invariant over the history of "
             "counted repetition ids")
RULE = ("case = grid (0..2 unpacked parameters) + rep_max + skip pattern + "
        "clock + partial results in their own folder or next to the final "
        "file + sequence of 1..3 "
        "crash points followed by a clean restart; non-trivial = a crash "
        "actually fired after at least one completed save of a partial file "
        "and before completion, or during a save (open/prefix/rename); "
        "distinct = SHA-1 of the case")
RULE += (" Added after the white-box review: "
         "interruption kinds kill / Ctrl-C / ordinary exception; final "
         "mode 'jobs' = one simulate(index) per variation, then "
         "simulate() ")
RULE += (" Added after the second white-box review: the not-unpacked "
         "list-valued parameter may be a numpy array; the harness accepts "
         "deletion through pathlib, fsync before the rename and any name "
         "for temporary files (equivalent implementations). ")

ASSUMPTIONS = [
    "a crash is the death of the Python process between two file-system "
    "calls; what is on disk at that moment is what the restart sees",
    "the restarted runner is configured exactly as the crashed one "
    "(except in the 'guard' and 'extend' classes)",
]
QUICK_BUDGET_S = 300

PREFIXES = ["open", "zero", "one", "half", "allbutone", "full"]


# ----------------------------------------------------------------------------
# generators
# ----------------------------------------------------------------------------
def _grid(draw, big):
    names = draw(st.permutations(["b", "a", "SNR"]))
    n_unp = draw(st.sampled_from([0, 1] if big else [0, 1, 1, 2]))
    unpacked = []
    for n in names[:n_unp]:
        vals = draw(st.lists(st.integers(0, 30), min_size=1,
                             max_size=2 if big else 3, unique=True))
        unpacked.append([n, vals])
    return unpacked


@st.composite
def _case(draw, tier):
    period = draw(st.integers(0, 14)) == 0         # 500-repetition rule class
    unpacked = _grid(draw, period)
    nvar = 1
    for _, v in unpacked:
        nvar *= len(v)
    if period:
        rep_max = draw(st.sampled_from([499, 500, 501, 502, 999, 1000, 1001,
                                        1203]))
        clock = [0]
        skips = []
    else:
        rep_max = draw(st.integers(1, 8 if tier == "quick" else 14))
        clock = draw(st.one_of(
            st.just([301]), st.just([0]),
            st.lists(st.sampled_from([0, 0, 150, 301]), min_size=1,
                     max_size=5)))
        skips = draw(st.lists(
            st.tuples(st.integers(0, nvar - 1),
                      st.integers(0, rep_max + 2)), max_size=4,
            unique=True).map(lambda l: [list(x) for x in l]))
    stop = draw(st.one_of(
        st.just({"kind": "always"}), st.just({"kind": "always"}),
        st.builds(lambda t: {"kind": "rep", "thr": t},
                  st.lists(st.integers(1, rep_max + 1), min_size=1,
                           max_size=3))))
    ncr = draw(st.sampled_from([1, 1, 2] if period else [1, 1, 1, 2, 3]))
    max_calls = nvar * rep_max + len(skips) - 1
    max_writes = nvar * rep_max if clock != [0] else \
        nvar * (rep_max // 500 + 1)
    crashes = []
    for _ in range(ncr):
        kind = draw(st.sampled_from(["call", "call", "merge", "write",
                                     "write", "write", "replace", "remove"]))
        if kind == "merge":
            crashes.append({"at": "merge", "n": draw(st.integers(0,
                                                                 max_calls))})
        elif kind == "call":
            if period:
                n = draw(st.one_of(
                    st.integers(0, max_calls),
                    st.sampled_from([499, 500, 501, 999, 1000, 1001])))
            else:
                n = draw(st.integers(0, max_calls))
            crashes.append({"at": "call", "n": n})
        elif kind == "write":
            crashes.append({"at": "write",
                            "k": draw(st.integers(0, max_writes)),
                            "prefix": draw(st.sampled_from(PREFIXES))})
        elif kind == "replace":
            crashes.append({"at": "replace",
                            "k": draw(st.integers(0, max_writes)),
                            "when": draw(st.sampled_from(["before",
                                                          "after"]))})
        else:
            crashes.append({"at": "remove",
                            "k": draw(st.integers(0, nvar - 1)),
                            "when": draw(st.sampled_from(["before",
                                                          "after"]))})
    for c in crashes:
        # how the run is interrupted: process death or Ctrl-C (the library's
        # own handlers run before the process exits)
        c["exc"] = draw(st.sampled_from(["kill", "kill", "ctrlc", "error"]))
    cfg = dict(idspace=(ncr + 3) * nvar * (rep_max + 1) + 4,
               unpacked=unpacked, container={}, fixed=[["bias", 1.5],
                                                       ["mode", "x"]] + (
                   [["ant", [2, 4]]] if draw(st.booleans()) else []),
               rep_max=rep_max, stop=stop, skips=skips,
               filename=draw(st.sampled_from(["res", "res_{bias}"])),
               ext=draw(st.sampled_from(["", "", ".json"])),
               delete_partial=draw(st.booleans()), clock=clock)
    if draw(st.integers(0, 3)) == 0:
        cfg["partial_folder"] = None
    if len(cfg["fixed"]) == 3 and draw(st.booleans()):
        # the not-unpacked list of values is a numpy array
        cfg["fixed_container"] = "array"
    final = draw(st.sampled_from(["same", "same", "same", "jobs", "extend",
                                  "guard_removed", "guard_added",
                                  "shrink_then_same", "guard_fixed",
                                  "guard_unpacked", "guard_unpacked_last"]))
    if final in ("guard_unpacked", "guard_unpacked_last") and not unpacked:
        final = "guard_fixed"
    return dict(part="crash", cfg=cfg, crashes=crashes, final=final)


def _enum_cfg(clock, ext, delete_partial, skips=()):
    return dict(idspace=64, unpacked=[["b", [3, 7]]], container={},
                fixed=[["bias", 1.5]], rep_max=5, stop={"kind": "always"},
                skips=[list(s) for s in skips], filename="res", ext=ext,
                delete_partial=delete_partial, clock=clock)


def _dry_run_counts(cfg):
    """Run once without crash to count the events of a complete run."""
    cwd = os.getcwd()
    tmp = tempfile.mkdtemp(prefix="vpbt-c07-dry-")
    try:
        os.chdir(tmp)
        env = H.Env(cfg)
        with H.Injector(env, tmp) as inj:
            inj.new_run(None)
            H.make_runner(env).simulate()
            return dict(calls=env.n_attempts_total, writes=inj.n_writes,
                        replaces=inj.n_replaces, removes=inj.n_removes)
    finally:
        os.chdir(cwd)
        shutil.rmtree(tmp, ignore_errors=True)


def _enumerate(tier):
    """ALL single crash points of small grids (2 variations x rep_max 5)."""
    from ..core import setup_repo_path
    setup_repo_path()
    cases = []
    cfgs = [_enum_cfg([301], "", False),          # save after every rep
            _enum_cfg([301], ".json", True),
            _enum_cfg([0], "", True, skips=[(0, 0), (1, 2)]),
            # nothing unpacked, partial results next to the final file
            dict(_enum_cfg([301], "", False), unpacked=[], rep_max=4,
                 partial_folder=None),
            dict(_enum_cfg([301], "", True), unpacked=[], rep_max=4,
                 partial_folder=None)]
    if tier == "thorough":
        cfgs += [_enum_cfg([301], "", True, skips=[(0, 1), (1, 0)]),
                 _enum_cfg([0, 301], ".json", False),
                 _enum_cfg([150], "", False)]
    for cfg in cfgs:
        n = _dry_run_counts(cfg)
        specs = [{"at": "call", "n": i} for i in range(n["calls"])]
        specs += [{"at": "merge", "n": i} for i in range(n["calls"])]
        for k in range(n["writes"]):
            specs += [{"at": "write", "k": k, "prefix": p} for p in PREFIXES]
        for k in range(n["replaces"]):
            specs += [{"at": "replace", "k": k, "when": w}
                      for w in ("before", "after")]
        for k in range(n["removes"]):
            specs += [{"at": "remove", "k": k, "when": w}
                      for w in ("before", "after")]
        for s in specs:
            for exc in ("kill", "ctrlc") + (
                    ("error",) if s["at"] in ("call", "merge") else ()):
                cases.append(dict(part="enum", cfg=cfg,
                                  crashes=[dict(s, exc=exc)], final="same"))
    # a few PAIRS also in the quick tier (all pairs: thorough): interrupted
    # right after a save, resumed and interrupted again BEFORE the next save
    # (what was merged in memory since the restart is not durable)
    cfg = dict(_enum_cfg([301], "", False), rep_max=3)
    firsts = [{"at": "replace", "k": 0, "when": "after"},
              {"at": "replace", "k": 1, "when": "after"},
              {"at": "write", "k": 1, "prefix": "full"}]
    seconds = [{"at": "call", "n": 0}, {"at": "call", "n": 1},
               {"at": "merge", "n": 0}, {"at": "write", "k": 0,
                                         "prefix": "open"},
               {"at": "write", "k": 0, "prefix": "half"},
               {"at": "replace", "k": 0, "when": "before"}]
    for a in firsts:
        for b in seconds:
            for exc in ("kill", "ctrlc"):
                cases.append(dict(part="enum", cfg=cfg,
                                  crashes=[dict(a, exc="kill"),
                                           dict(b, exc=exc)], final="same"))
    return cases


def _enumerate_pairs(tier):
    """thorough: all PAIRS of crash points (second crash in the restarted
    run) on a 2 x 3 grid."""
    if tier != "thorough":
        return []
    from ..core import setup_repo_path
    setup_repo_path()
    cfg = dict(_enum_cfg([301], "", False), rep_max=3)
    n = _dry_run_counts(cfg)
    specs = [{"at": "call", "n": i} for i in range(n["calls"])]
    specs += [{"at": "merge", "n": i, "exc": "ctrlc"}
              for i in range(n["calls"])]
    for k in range(n["writes"]):
        specs += [{"at": "write", "k": k, "prefix": p}
                  for p in ("open", "half", "full")]
    for k in range(n["replaces"]):
        specs += [{"at": "replace", "k": k, "when": "before"}]
    return [dict(part="enum_pairs", cfg=cfg, crashes=[a, b], final="same")
            for a in specs for b in specs]


@st.composite
def _realproc_case(draw, tier):
    c = draw(_case(tier))
    c["part"] = "realproc"
    c["crashes"] = [dict(c["crashes"][0], exc="kill")]
    if c["crashes"][0]["at"] == "merge":
        c["crashes"][0]["at"] = "call"
    c["final"] = "same"
    if c["cfg"]["rep_max"] > 20:
        c["cfg"]["rep_max"] = 7
        c["cfg"]["idspace"] = 200
    return c


PARTS = [
    Part("enum", enumerate=_enumerate, exhaustive=True, quick_shards=8),
    Part("enum_pairs", enumerate=_enumerate_pairs, exhaustive=True),
    Part("crash", _case, quick=1200, thorough=60000, quick_shards=8),
    Part("realproc", _realproc_case, quick=16, thorough=160, quick_shards=8,
         thorough_shards=16),
]


# ----------------------------------------------------------------------------
# oracle
# ----------------------------------------------------------------------------
def _partial_paths(cfg, env):
    """variation -> absolute path of its partial-results file"""
    from pyphysim.simulations.runner import get_partial_results_filename
    probe = H.make_runner(env)
    probe._simulation_results_saver.results.set_parameters(probe.params)
    base = probe._simulation_results_saver.results_base_filename
    out = {}
    for v, p in enumerate(probe.params.get_unpacked_params_list()):
        out[v] = os.path.realpath(
            get_partial_results_filename(
                base, p, "partial_results" if cfg.get(
                    "partial_folder", "default") is not None else None))
    template = cfg["filename"] + cfg["ext"]
    final = base if os.path.splitext(template)[1] else base + ".pickle"
    return out, final


def _durable_ids(inj, paths, tags, where):
    """ids held by the last COMPLETED save of each partial file."""
    inj.reconcile()
    out = {}
    for v, path in paths.items():
        data = inj.durable.get(path)
        if data is None:
            continue
        if isinstance(data, bytes):
            pr = pickle.loads(data)
        else:
            # a text file: whatever format the library chose for its partial
            # results, it can read it back
            from pyphysim.simulations.results import SimulationResults as _SR
            pr = _SR.from_json(data)
        ids = H.digits4(pr["ids"][-1].get_result())
        if any(m != 1 for m in ids.values()):
            raise Violation("durable_double_count", "%s: partial file of "
                            "variation %d counts a repetition twice: %r" %
                            (where, v, ids), tags)
        if pr.current_rep != len(ids):
            raise Violation("durable_rep_mismatch", "%s: partial file of "
                            "variation %d has current_rep=%r but holds %d "
                            "repetitions" % (where, v, pr.current_rep,
                                             len(ids)), tags)
        out[v] = sorted(ids)
    return out


def _snapshot(root):
    snap = {}
    for d, _, files in os.walk(root):
        for fn in files:
            p = os.path.join(d, fn)
            with open(p, "rb") as f:
                snap[os.path.relpath(p, root)] = f.read()
    return snap


def _canon(obj, depth=0):
    """deterministic deep description of an unpickled object"""
    import numpy as np
    if depth > 12:
        return "..."
    if isinstance(obj, np.ndarray):
        return ("ndarray", obj.dtype.str, obj.shape, obj.tolist())
    if isinstance(obj, dict):
        return ("dict", sorted((repr(k), _canon(v, depth + 1))
                               for k, v in obj.items()))
    if isinstance(obj, (list, tuple)):
        return (type(obj).__name__, [_canon(v, depth + 1) for v in obj])
    if isinstance(obj, (set, frozenset)):
        return ("set", sorted(repr(x) for x in obj))
    if hasattr(obj, "__dict__"):
        return (type(obj).__name__, _canon(vars(obj), depth + 1))
    return repr(obj)


def _canonical_snapshot(root):
    """file -> comparable content.  Pickle byte streams of equal objects
    differ between processes (memoisation of shared strings), so complete
    pickles are compared as objects and torn ones by (torn, length class)."""
    out = {}
    for rel, data in sorted(_snapshot(root).items()):
        if ".pickle" in rel:
            try:
                val = ("pickle", _canon(pickle.loads(data)))
            except Exception:  # noqa  (torn file)
                val = ("torn-pickle", len(data) == 0, len(data) == 1)
        else:
            val = ("bytes", data)
        if "tmp" in os.path.basename(rel).lower():
            # the NAME of a temporary file is the library's business (it may
            # contain the process id): such files are compared as a group
            key = os.path.join(os.path.dirname(rel), "<temporary files>")
            out[key] = out.get(key, ()) + (val,)
        else:
            out[rel] = val
    return out


def _R(cfg, v, rep_max):
    st_ = cfg["stop"]
    if st_["kind"] == "always":
        return rep_max
    thr = st_["thr"][v % len(st_["thr"])]
    return max(1, min(rep_max, thr))


def _run_scenario(case, ctx, tmp, real_exit_first=False):
    from pyphysim.simulations.results import SimulationResults
    cfg = case["cfg"]
    names, combos = H.variations_of(cfg)
    nvar = len(combos)
    tags = dict(nvar=nvar, ext=cfg["ext"], final=case["final"],
                crash_kinds=sorted(set(c["at"] for c in case["crashes"])))
    env = H.Env(cfg)
    fired_any = False
    nontrivial = False
    with H.Injector(env, tmp) as inj:
        paths, final_path = _partial_paths(cfg, env)
        for ci, crash in enumerate(case["crashes"]):
            env.run_no = ci
            inj.new_run(crash if crash["at"] not in ("call", "merge")
                        else None)
            env.exc_kind = crash.get("exc", "kill")
            env.crash_at_call = (env.n_attempts_total + crash["n"]
                                 if crash["at"] == "call" else None)
            env.trap_at_call = (env.n_attempts_total + crash["n"]
                                if crash["at"] == "merge" else None)
            had_durable = bool(_durable_ids(inj, paths, tags, "before run"))
            runner = H.make_runner(env)
            try:
                runner.simulate()
                fired = False
            except (H.SimulatedCrash, KeyboardInterrupt, H.SimulatedError):
                fired = True
            env.crash_at_call = env.trap_at_call = None
            env.exc_kind = "kill"
            tags["last_fired"] = inj.fired or ("call" if fired else None)
            if fired:
                fired_any = True
                ctx.label("fired:" + crash["at"] +
                          (":" + crash.get("prefix", crash.get("when", ""))
                           if crash["at"] not in ("call", "merge") else ""),
                          "exc=" + crash.get("exc", "kill"))
                if crash["at"] in ("write", "replace") or had_durable or \
                        _durable_ids(inj, paths, tags, "after crash"):
                    nontrivial = True
            else:
                ctx.label("crash_not_reached")
            del runner
            _durable_ids(inj, paths, tags, "after run %d" % ci)
            # (NOT required: that repetitions saved once stay saved.  The
            # statement asks for exact counts from durable + new repetitions;
            # the unchanged library itself re-simulates a variation whose
            # partial file was already deleted when the clean-up after the
            # final save is interrupted.  A 'monotone durability' oracle was
            # tried and withdrawn as over-reach, DESIGN 9.4.)

        # ---- final, clean run ------------------------------------------------
        env.run_no = len(case["crashes"])
        inj.new_run(None)
        D = _durable_ids(inj, paths, tags, "before final run")
        final = case["final"]
        ctx.label("final=" + final)
        if final in ("guard_fixed", "guard_unpacked", "guard_unpacked_last",
                     "guard_removed", "guard_added"):
            if final == "guard_unpacked_last":
                # only the LAST value of the last (sorted) unpacked parameter
                # changes: the variations using it differ, the others are
                # unchanged.  Refused iff one of the changed variations has
                # durable partial results.
                lastname = names[-1]
                lastval = dict(cfg["unpacked"])[lastname][-1]
                changed = [v for v, c in enumerate(combos)
                           if c[lastname] == lastval]
                D = dict((v, g) for v, g in D.items() if v in changed)
            if not D:
                ctx.label("guard_without_partials")
                return tags, fired_any, False
            cfg2 = json.loads(json.dumps(cfg))
            if final == "guard_fixed":
                cfg2["fixed"][1][1] = "y"          # 'mode' (not in file name)
            elif final == "guard_removed":
                # the configuration no longer has the parameter 'mode'
                del cfg2["fixed"][1]
            elif final == "guard_added":
                cfg2["fixed"].append(["extra", 3])
            elif final == "guard_unpacked_last":
                for nv in cfg2["unpacked"]:
                    if nv[0] == lastname:
                        nv[1][-1] = nv[1][-1] + 100
            else:
                # change the value every durable variation was simulated with
                cfg2["unpacked"] = [[n, [x + 100 for x in vals]]
                                    for n, vals in cfg2["unpacked"]]
            before = _snapshot(tmp)
            runner = H.make_runner(env, cfg2)
            raised = None
            try:
                runner.simulate()
            except ValueError as e:
                raised = e
            if raised is None:
                raise Violation("guard_not_raised", "restart with different "
                                "parameters (%s) did not raise ValueError "
                                "although partial results of variations %r "
                                "exist" % (final, sorted(D)), tags)
            # files saved for the OLD parameters must be untouched
            after = _snapshot(tmp)
            for rel, data in before.items():
                if os.path.realpath(os.path.join(tmp, rel)) in \
                        [paths[v] for v in D] and after.get(rel) != data:
                    raise Violation("guard_modified_files", "partial file %s "
                                    "changed by the refused restart" % rel,
                                    tags)
            return tags, fired_any, fired_any

        if final == "shrink_then_same":
            # a complete run with a LOWER rep_max in between (rep_max is not
            # part of the parameters that must match): what it reports and
            # saves must stay consistent with what the files contain
            cfg_low = dict(cfg, rep_max=max(1, cfg["rep_max"] // 2))
            runner = H.make_runner(env, cfg_low)
            runner.simulate()
            reps_low = list(runner.runned_reps)
            for v in range(nvar):
                counted = H.digits4(runner.results["ids"][v].get_result())
                if any(m != 1 for m in counted.values()) or \
                        reps_low[v] != len(counted):
                    raise Violation("rep_count", "run with lower rep_max: "
                                    "variation %d reports %r repetitions but "
                                    "its result holds %r" %
                                    (v, reps_low[v], counted), tags)
            del runner
            env.run_no += 1
            inj.new_run(None)
            D = _durable_ids(inj, paths, tags, "after the run with lower "
                             "rep_max")
        rep_max2 = cfg["rep_max"]
        cfgf = cfg
        if final == "extend":
            cfgf = dict(cfg, rep_max=cfg["rep_max"] + 3)
            rep_max2 = cfgf["rep_max"]
        log_start = len(env.log)
        if final == "jobs":
            # the documented cluster workflow: one simulate(index) job per
            # variation, then simulate() collects.  A job that returns has
            # finished its variation.
            for v in range(nvar):
                job = H.make_runner(env, cfgf)
                job.simulate(v)
                held = _durable_ids(inj, {v: paths[v]}, tags,
                                    "after job %d" % v).get(v, [])
                want = max(_R(cfg, v, rep_max2), len(D.get(v, [])))
                if len(held) != want:
                    raise Violation("job_incomplete", "simulate(%d) returned "
                                    "but the partial file of the variation "
                                    "holds %d of %d repetitions" %
                                    (v, len(held), want), tags)
                del job
        runner = H.make_runner(env, cfgf)
        runner.simulate()              # must complete: any exception = violation
        if env.param_errors:
            raise Violation("params_received", env.param_errors[0], tags)
        executed = {}
        for k, d in env.log[log_start:]:
            if k == "call" and d["gid"] is not None:
                executed.setdefault(d["v"], []).append(d["gid"])
        res = runner.results
        reps = list(runner.runned_reps)
        for v in range(nvar):
            want = _R(cfg, v, rep_max2)
            if v in D:
                want = max(want, len(D[v]))
            counted = H.digits4(res["ids"][v].get_result())
            twice = dict((g, m) for g, m in counted.items() if m != 1)
            if twice:
                raise Violation("double_count", "variation %d counts "
                                "repetitions more than once: %r" % (v, twice),
                                tags)
            if len(counted) != want or reps[v] != want:
                raise Violation("rep_count", "variation %d: %d repetitions "
                                "counted, runned_reps=%r, requested %d "
                                "(durable before restart: %d)" %
                                (v, len(counted), reps[v], want,
                                 len(D.get(v, []))), tags)
            nu = res["ids"][v].num_updates
            if nu != want:
                raise Violation("rep_count", "variation %d: num_updates=%d, "
                                "requested %d" % (v, nu, want), tags)
            lost = [g for g in D.get(v, []) if g not in counted]
            if lost:
                raise Violation("durable_lost", "variation %d: durably saved "
                                "repetitions %r are not in the final result" %
                                (v, lost), tags)
            alien = [g for g in counted
                     if g not in D.get(v, []) and g not in executed.get(v, [])]
            if alien:
                raise Violation("undurable_counted", "variation %d: "
                                "repetitions %r are counted but were neither "
                                "durably saved nor executed by the restarted "
                                "run" % (v, alien), tags)
            n_exec = len(executed.get(v, []))
            if n_exec != want - len(D.get(v, [])):
                raise Violation("restart_calls", "variation %d: restarted run "
                                "executed %d repetitions, expected %d - %d" %
                                (v, n_exec, want, len(D.get(v, []))), tags)
            # the other results must be the merge of exactly these ids
            gids = sorted(counted)
            if res["sumv"][v].get_result() != sum(H.val_sumv(g)
                                                  for g in gids):
                raise Violation("merged_sum", "variation %d: sumv %r is not "
                                "the sum over the counted repetitions" %
                                (v, res["sumv"][v].get_result()), tags)
            rr = res["ratio"][v]
            if (rr._value, rr._total) != (
                    sum(H.val_ratio(g)[0] for g in gids),
                    sum(H.val_ratio(g)[1] for g in gids)):
                raise Violation("merged_ratio", "variation %d" % v, tags)
        # final results file is complete and loadable
        if not os.path.exists(final_path):
            raise Violation("final_file", "final results file missing", tags)
        fr = SimulationResults.load_from_file(final_path)
        for v in range(nvar):
            a = H.digits4(fr["ids"][v].get_result())
            b = H.digits4(res["ids"][v].get_result())
            if a != b:
                raise Violation("final_file", "variation %d differs between "
                                "the saved file and runner.results" % v, tags)
    return tags, fired_any, nontrivial


def check(case, ctx):
    cfg = case["cfg"]
    ctx.label("part=" + case["part"], "ncrash=%d" % len(case["crashes"]),
              "ext=" + (cfg["ext"] or ".pickle"),
              "rep_max>=499" if cfg["rep_max"] >= 499 else "rep_max<20",
              "clock=every_rep" if cfg["clock"] == [301] else
              ("clock=never" if cfg["clock"] == [0] else "clock=mixed"))
    cwd = os.getcwd()
    tmp = os.path.realpath(tempfile.mkdtemp(prefix="vpbt-c07-"))
    try:
        os.chdir(tmp)
        if case["part"] == "realproc":
            _check_realproc(case, ctx, tmp)
            return
        tags, fired, nontrivial = _run_scenario(case, ctx, tmp)
        ctx.nontrivial(nontrivial)
    finally:
        os.chdir(cwd)
        shutil.rmtree(tmp, ignore_errors=True)


# ----------------------------------------------------------------------------
# cross-check of the crash model against real process death
# ----------------------------------------------------------------------------
def _crash_only(case, tmp, real_exit):
    """Run only the first (crashing) run in directory tmp."""
    cfg = case["cfg"]
    crash = case["crashes"][0]
    env = H.Env(cfg)
    env.real_exit = real_exit
    with H.Injector(env, tmp) as inj:
        inj.new_run(crash if crash["at"] != "call" else None)
        env.crash_at_call = crash["n"] if crash["at"] == "call" else None
        runner = H.make_runner(env)
        try:
            runner.simulate()
            return False
        except H.SimulatedCrash:
            return True


def _check_realproc(case, ctx, tmp):
    a = os.path.join(tmp, "inproc")
    b = os.path.join(tmp, "child")
    os.mkdir(a)
    os.mkdir(b)
    os.chdir(a)
    fired = _crash_only(case, a, False)
    os.chdir(b)
    env = dict(os.environ, VERIF_REPO=REPO, PYTHONPATH=VERIF_DIR)
    p = subprocess.run([sys.executable, "-m", "vpbt.props.c07_crash_restart",
                        json.dumps(case), b], env=env, cwd=b,
                       capture_output=True, text=True, timeout=300)
    if p.returncode not in (0, 137):
        raise AssertionError("harness: child failed rc=%r\n%s" %
                             (p.returncode, p.stderr[-2000:]))
    child_fired = p.returncode == 137
    tags = dict(crash=case["crashes"][0]["at"])
    if fired != child_fired:
        raise Violation("crash_model_mismatch", "in-process crash fired=%r, "
                        "child process died=%r" % (fired, child_fired), tags)
    sa, sb = _canonical_snapshot(a), _canonical_snapshot(b)
    if sorted(sa) != sorted(sb):
        raise Violation("crash_model_mismatch", "files differ: in-process %r "
                        "vs child %r" % (sorted(sa), sorted(sb)), tags)
    for k in sa:
        if sa[k] != sb[k]:
            raise Violation("crash_model_mismatch", "content of %s differs: "
                            "%.300r vs %.300r" % (k, sa[k], sb[k]), tags)
    ctx.label("realproc_fired" if fired else "realproc_not_reached")
    ctx.nontrivial(fired)
    os.chdir(tmp)


if __name__ == "__main__":
    # child process of the real-process cross-check
    from vpbt.core import setup_repo_path
    setup_repo_path()
    _case_ = json.loads(sys.argv[1])
    os.chdir(sys.argv[2])
    _crash_only(_case_, os.path.realpath(sys.argv[2]), True)
    sys.exit(0)
