"""C12 - water-filling returns the capacity-optimal power allocation."""
import math

import numpy as np
from hypothesis import strategies as st

from ..core import Part, Violation
from ..gens import fixed, fl, loguniform, seeds

PROPERTY = "C12"
LEVEL = "exploration"
RULE = ("gain vectors of 1..12 entries (log-uniform over 12 decades; classes "
        "all-equal / duplicates / wide spread / single), Pt, noise variance "
        "and Es log-uniform over 1e-3..1e3, gains and noise optionally "
        "scaled together by 1e-24..1e15, total power optionally placed at or "
        "within 1e-12..1e-3 (relative) of a switching point; non-trivial = (>=2 channels and "
        "at least one channel switched off) or Es != 1; distinct = SHA-1 of "
        "the case description")
RULE += (" Added after the white-box review: total power and noise "
         "optionally x 1e-30..1e20, the scalars optionally as Python ints, "
         "gain vectors of 33..2048 entries in one case of thirty ")
RULE += (" Added after the second white-box review: nearly equal gains "
         "(relative differences 1e-15..1e-3, one or two clusters), gains "
         "spanning up to 18 orders of magnitude, a total power 1e-6..1e-12 "
         "times smaller (water level up to 1e15 x the power); 'non-"
         "negative' and 'sums to the total power' are judged relative to "
         "the power (1e-12 n Pt + 16 n eps |mu|) instead of 1e-9 (Pt + mu). ")

LEVEL_TEXT = ("Generated-input search (Hypothesis, seeded, sharded) over gain "
              "vectors, powers, noise and symbol energies against four "
              "independent oracles: KKT level equation for the returned "
              "level, an independently computed water level, sampled "
              "competitor allocations (optimality) and permutation "
              "equivariance. Absence of violations is not proven.")
LEVEL_NOTE = ("numpy float64 arithmetic; tolerances 1e-9 relative to Pt+mu; "
              "optimality judged against sampled competitors only")
TECHNIQUE = ("property-based testing (Hypothesis): reference-model + KKT + "
             "metamorphic (permutation, competitor) oracles")
ASSUMPTIONS = [
    "sum(p)==Pt and the level equation are judged with tolerance "
    "1e-9*(Pt+mu) (allocation is a difference of levels of size mu)",
    "optimality is tested against sampled competitors (simplex points and "
    "pairwise epsilon-transfers), not proven",
]


def _gains():
    g = loguniform(-6, 6)
    generic = st.lists(g, min_size=1, max_size=12)
    equal = st.tuples(g, st.integers(1, 12)).map(lambda t: [t[0]] * t[1])
    dup = st.lists(st.sampled_from([1e-3, 0.5, 1.0, 2.0, 7.5, 1e4]),
                   min_size=2, max_size=12)
    spread = st.tuples(loguniform(-6, -4), loguniform(4, 6),
                       st.lists(g, max_size=6)).map(
                           lambda t: [t[0], t[1]] + t[2])
    narrow = st.tuples(g, st.lists(fl(1.0, 3.0), min_size=2, max_size=12)) \
        .map(lambda t: [t[0] * x for x in t[1]])
    # nearly equal gains (relative differences 1e-15 .. 1e-3 around a
    # common value): the boundary of the "equal gains" class
    near = st.tuples(g, st.lists(st.tuples(st.sampled_from([-1, 1]),
                                           fl(-15.0, -3.0)),
                                 min_size=2, max_size=12)) \
        .map(lambda t: [t[0] * (1.0 + sg * 10.0 ** e) for sg, e in t[1]])
    # two such clusters
    near2 = st.tuples(near, near).map(lambda t: (t[0] + t[1])[:12])
    # gains spanning up to 18 orders of magnitude
    spread2 = st.tuples(loguniform(-9, -6), loguniform(6, 9),
                        st.lists(g, max_size=4)).map(
                            lambda t: [t[0], t[1]] + t[2])
    return st.one_of(generic, narrow, equal, dup, spread, near, near2,
                     spread2)


def _strategy(tier):
    es = st.one_of(st.just(1.0), loguniform(-3, 3), loguniform(-3, 3))
    # integer-valued gains handed over as an integer-dtype array
    int_gains = st.lists(st.integers(1, 40), min_size=1, max_size=8)
    return fixed(
        part=st.just("wf"),
        gains=st.one_of(_gains(), _gains(), _gains(), _gains(), int_gains),
        gdtype=st.sampled_from(["float64", "float64", "float64", "int64",
                                "int32"]),
        Pt=loguniform(-3, 3),
        # a total power far below the noise floors (water level up to 1e15
        # times the power)
        pt_exp=st.sampled_from([0, 0, 0, 0, 0, -6, -9, -12]),
        # very high SNR: the equal share of the power is 10^u times the
        # LARGEST noise floor (all channels on, floors nearly negligible -
        # but the allocation still follows them)
        hsnr=st.one_of(st.none(), st.none(), st.none(), st.none(), st.none(),
                       st.none(), st.none(), st.none(), fl(5.0, 9.5)),
        N0=loguniform(-3, 3),
        Es=es,
        # common absolute scale of gains and noise (the floors N0/(Es g)
        # and hence the allocation do not depend on it): tiny or huge gains
        # with a matching noise level
        gscale_exp=st.sampled_from([0, 0, 0, 0, -24, -18, -15, -12, 9, 15]),
        # total power placed at / next to the power at which one more
        # channel is switched on (relative distance 1e-12..1e-3, or exactly)
        # total power and noise scaled together (powers in Watts: 1e-13,
        # or huge): the allocation scales with them
        pscale_exp=st.sampled_from([0, 0, 0, 0, -30, -20, -13, -8, 8, 20]),
        # the scalars as the caller's number type: floats, or Python ints
        # when their values are whole numbers
        int_scalars=st.booleans(),
        # a long gain vector (n up to 2048), drawn from a seeded generator
        long=st.tuples(st.integers(0, 29),
                       st.sampled_from([33, 64, 300, 1100, 2048, 6000]),
                       seeds).map(lambda t: [t[1], t[2]] if t[0] == 17
                                  else None),
        pt_switch=st.one_of(st.none(), st.none(), st.none(), st.tuples(
            fl(0.0, 1.0), st.integers(-12, -3),
            st.sampled_from([-1, -1, 1, 0])).map(list)),
        perm_seed=seeds,
        simplex=st.lists(st.lists(fl(0.0, 1.0).map(lambda x: round(x, 6)),
                                  min_size=12, max_size=12),
                         min_size=0, max_size=3),
        eps=st.sampled_from([1e-1, 1e-2, 1e-3, 1e-5]),
    )


PARTS = [Part("wf", _strategy, quick=6000, thorough=400000)]


def _ref_level(a, Pt):
    """Independent water level: smallest set of best channels that is
    affordable; a = noise/(Es*gain) floors."""
    s = sorted(a)
    if len(s) > 32:
        # long vectors: running sums (their rounding, n*eps relative, is far
        # inside the 1e-9 tolerance)
        pre = [0.0]
        for x in s:
            pre.append(pre[-1] + x)
        for k in range(len(s), 0, -1):
            m = (Pt + pre[k]) / k
            if m > s[k - 1] or k == 1:
                return (Pt + math.fsum(s[:k])) / k
    for k in range(len(s), 0, -1):
        m = (Pt + math.fsum(s[:k])) / k
        if m > s[k - 1] or k == 1:
            return m
    raise AssertionError


def _capacity(g, Es, N0, p):
    return math.fsum(math.log2(1.0 + gi * Es * max(pi, 0.0) / N0)
                     for gi, pi in zip(g, p))


def check(case, ctx):
    from pyphysim.comm.waterfilling import doWF
    g = [float(x) for x in case["gains"]]
    if case.get("long"):
        ln, lseed = case["long"]
        g = (10.0 ** np.random.RandomState(int(lseed)).uniform(
            -3.0, 3.0, int(ln))).tolist()
        ctx.label("long_vector")
    Pt, N0, Es = float(case["Pt"]), float(case["N0"]), float(case["Es"])
    pte = int(case.get("pt_exp", 0) or 0)
    if pte:
        Pt = Pt * 10.0 ** pte
        ctx.label("Pt_x_1e%d" % pte)
    pe = int(case.get("pscale_exp", 0))
    if pe:
        Pt, N0 = Pt * 10.0 ** pe, N0 * 10.0 ** pe
        ctx.label("power_scaled_1e%d" % pe)
    n = len(g)
    tags = dict(Es_is_one=(Es == 1.0), n=n)
    # the caller's array: integer gains may come as an integer-dtype array
    # (float32 arrays are not generated: the library then computes in single
    # precision, which the float64 tolerances here do not describe)
    gdtype = case.get("gdtype", "float64")
    ge = int(case.get("gscale_exp", 0))
    if ge:
        gdtype = "float64"
        g = [x * 10.0 ** ge for x in g]
        N0 = N0 * 10.0 ** ge
        ctx.label("gains_scaled_1e%d" % ge)
    if case.get("long") and int(case["long"][1]) % 2 == 0 and n >= 40:
        # an OFDM-sized problem at low power: only 5 % of the channels get
        # any power (the loop that removes channels runs 0.95 n times)
        fs = sorted(N0 / (Es * gi) for gi in g)
        kk = max(1, n // 20)
        Pt = math.fsum(fs[kk] - fs[i] for i in range(kk)) * 1.001
        ctx.label("long_vector_mostly_off")
    if case.get("hsnr") is not None and not case.get("long"):
        Pt = n * max(N0 / (Es * gi) for gi in g) * 10.0 ** float(case["hsnr"])
        ctx.label("very_high_snr(share=1e%d x worst floor)" %
                  int(case["hsnr"]))
    sw = case.get("pt_switch")
    if case.get("hsnr") is not None and not case.get("long"):
        sw = None
    if sw and n >= 2:
        fl_sorted = sorted(N0 / (Es * gi) for gi in g)
        k = 1 + int(sw[0] * (n - 1) * 0.999999)
        T = math.fsum(fl_sorted[k] - fl_sorted[i] for i in range(k))
        if T > 0 and math.isfinite(T):
            Pt = T * (1.0 + sw[2] * 10.0 ** sw[1])
            ctx.label("Pt_at_switching_point" if sw[2] == 0 else
                      "Pt_near_switching_point")
    if gdtype.startswith("int") and not all(x == int(x) for x in g):
        gdtype = "float64"
    if gdtype == "float32" and not all(float(np.float32(x)) == x for x in g):
        gdtype = "float64"
    garr = np.array(g, dtype=gdtype)
    ctx.label("gains_dtype=" + gdtype)
    tags["gdtype"] = gdtype
    args = [Pt, N0, Es]
    if case.get("int_scalars") and not ge and not pe:
        # e.g. doWF(gains, 10): whole-number scalars given as Python ints
        # (the values are rounded to whole numbers >= 1 for this class)
        Pt, N0, Es = [float(max(1, int(round(x)))) for x in (Pt, N0, Es)]
        args = [int(Pt), int(N0), int(Es)]
        ctx.label("scalars_python_int")
    p, mu = doWF(garr, *args)
    p = np.asarray(p, dtype=float)
    mu = float(mu)
    # ordinary use: the same gains array is used again (power sweep, a later
    # comparison).  It still holds the gains, and the same call gives the
    # same answer.
    if not np.array_equal(garr, np.array(g, dtype=gdtype)):
        raise Violation("gains_array_modified", "doWF changed the array of "
                        "gains handed to it: %r -> %r" % (g, garr.tolist()),
                        tags)
    p_again, mu_again = doWF(garr, *args)
    if not (np.array_equal(np.asarray(p_again, dtype=float), p) and
            float(mu_again) == mu):
        raise Violation("second_call_differs", "a second identical call "
                        "returned a different allocation", tags)
    if p.shape != (n,):
        raise Violation("shape", "allocation shape %r for %d gains" %
                        (p.shape, n), tags)
    a = [N0 / (Es * gi) for gi in g]
    scale = Pt + abs(mu)
    tol = 1e-9 * scale

    n_off = int(np.sum(p <= 0))
    ctx.label("n=1" if n == 1 else ("n=2..4" if n <= 4 else "n>=5"))
    ctx.label("Es=1" if Es == 1.0 else "Es!=1")
    ctx.label("some_off" if n_off else "all_on")
    if len(set(g)) < n:
        ctx.label("tied_gains")
    ctx.nontrivial((n >= 2 and n_off >= 1) or Es != 1.0)

    # "non-negative" and "sums to the total power" are statements about
    # the power: tolerance relative to Pt, plus the rounding that "p = mu -
    # floor" itself carries (a few eps*mu per channel) - not 1e-9*mu, which
    # would accept any allocation once the level is 1e9 times the power
    EPS = 2.220446049250313e-16
    ctx.close("nonneg", max(0.0, -float(p.min())),
              1e-12 * Pt + 16 * EPS * abs(mu),
              "min p = %r" % float(p.min()), tags)
    ctx.close("sum_eq_Pt", abs(math.fsum(p) - Pt),
              1e-12 * n * Pt + 16 * n * EPS * abs(mu),
              "sum p = %r, Pt = %r, mu = %r" % (math.fsum(p), Pt, mu), tags)
    if abs(mu) > 1e9 * Pt:
        ctx.label("level_above_1e9_x_power")
    # level equation for the RETURNED water level
    lev = max(abs(pi - max(0.0, mu - ai)) for pi, ai in zip(p, a))
    ctx.close("level_equation", lev, tol,
              "p=%r mu=%r floors=%r" % (p.tolist(), mu, a), tags)
    # independent water level
    mref = _ref_level(a, Pt)
    ctx.close("level_vs_reference", abs(mu - mref), 1e-9 * (Pt + mref),
              "mu=%r ref=%r" % (mu, mref), tags)
    pref = [max(0.0, mref - ai) for ai in a]
    ctx.close("alloc_vs_reference",
              max(abs(x - y) for x, y in zip(p, pref)), 1e-9 * (Pt + mref),
              "", tags)

    # optimality against competitors
    cap = _capacity(g, Es, N0, p)
    ctol = 1e-9 * (1.0 + abs(cap))
    worst = 0.0
    for w in (case["simplex"] if n <= 12 else []):
        w = [max(x, 0.0) for x in w[:n]]
        s = math.fsum(w)
        if s <= 0:
            continue
        q = [Pt * (x / s) for x in w]
        worst = max(worst, _capacity(g, Es, N0, q) - cap)
    eps = case["eps"]
    idx = list(range(n))
    if n > 32:
        # long vectors: transfers between 6 sampled channels only
        idx = sorted(np.random.RandomState(case["perm_seed"]).permutation(
            n)[:6].tolist())
    for i in idx:
        if p[i] <= 0:
            continue
        for j in idx:
            if i == j:
                continue
            q = list(p)
            d = eps * q[i]
            q[i] -= d
            q[j] += d
            worst = max(worst, _capacity(g, Es, N0, q) - cap)
    ctx.close("optimality", max(worst, 0.0), ctol, "", tags)

    # permutation equivariance
    rs = np.random.RandomState(case["perm_seed"])
    perm = rs.permutation(n)
    p2, mu2 = doWF(np.array(g)[perm], *args)
    ctx.close("perm_level", abs(float(mu2) - mu), 1e-12 * scale, "", tags)
    ctx.close("perm_alloc", float(np.max(np.abs(np.asarray(p2) - p[perm]))),
              1e-12 * scale, "perm=%r" % perm.tolist(), tags)
