"""C01 - modulation is invertible and detection picks the nearest
constellation symbol (BPSK, QPSK, M-PSK with phase offset, square M-QAM)."""
import cmath
import math
import warnings
from fractions import Fraction

import numpy as np
from hypothesis import strategies as st

from ..core import Part, Violation
from ..gens import fl, seeds

PROPERTY = "C01"
LEVEL = "exploration"
RULE = ("every supported modulator (BPSK, QPSK, PSK 2..2^10 [2^12 thorough], "
        "QAM 4..4^6) is enumerated with special phase offsets (table/reject "
        "parts); generated parts draw the modulator, a phase offset in "
        "[-2pi,2pi] (at construction or through setPhaseOffset), index arrays "
        "of 0..3 dimensions and received samples of six classes (on_point, "
        "box, boundary at 1e-1..1e-10 of the neighbour distance, corner, far "
        "up to 1e6, origin; 1..8 samples drawn value by value plus 0..248 "
        "from a drawn RandomState seed); non-trivial = detection case with a sample "
        "farther than 0.25 x (local neighbour distance) from every "
        "constellation point or of class boundary/corner, or a round-trip "
        "case with M > 64, a non-zero phase offset or an input that is not "
        "1-D; distinct = SHA-1 of the case description")
RULE += (" Added after the white-box review: "
         "a 'history' part: 2..6 uses (round trip and detection of "
         "1..40 samples) and phase-offset changes on ONE PSK/QPSK "
         "object; one batch above 2^24 matrix elements ")
RULE += (" Added after the second white-box review: the history part "
         "uses one or TWO live modulators of all four classes (second one "
         "often of the same class and order with another offset, built and "
         "re-offset between uses of the first), the number of samples "
         "varies from use to use (incl. 0, 1 as a 0-d value and 2-D "
         "batches); a 'bignoisy' part sends single blocks of 1.5e3..6e5 "
         "[2e6 thorough] off-point samples (inside, around the boundary, "
         "box, far outside) to the nearest-point oracle. ")

LEVEL_TEXT = ("Generated-input search (Hypothesis, seeded, sharded) plus "
              "complete enumeration of the supported modulator orders: exact "
              "round trip, constellation (distinct points, unit energy, "
              "PSK/QAM point set), brute-force nearest-neighbour oracle on "
              "the emitted constellation with exact rational confirmation "
              "of every mismatch, rejection of unsupported orders and "
              "indexes. Absence of violations is not proven.")
LEVEL_NOTE = ("sample magnitudes up to 1e6; ties closer than 1e-12 relative "
              "are discarded and counted; memory cap M*n <= 2^21 per call")
TECHNIQUE = ("property-based testing (Hypothesis): round-trip + brute-force "
             "reference-model oracle + negative (must-raise) cases")
ASSUMPTIONS = [
    "a detection is only judged when the two smallest distances differ by "
    "more than 1e-12 relative ((d2-d1) > 1e-12*(d1+d2)); closer cases are "
    "exact-tie-equivalent in float64 and are counted as tie_excluded",
    "index inputs are int64/int32 numpy arrays (any shape, incl. 0-d) or, "
    "for non-BPSK classes, Python ints; negative indexes and unsigned "
    "dtypes are outside the documented domain and not generated",
    "received samples are complex128 numpy arrays (any shape, incl. 0-d, "
    "non-contiguous views)",
    "M = 1 is treated as unsupported for QAM (unit mean energy is "
    "impossible); PSK(1) is neither required to work nor to be rejected",
    "the emitted point set is compared with the textbook set "
    "exp(j(2 pi m/M + phi)) / normalised odd-integer grid within 1e-12 "
    "(labels are C15, not checked here)",
]

TIE_REL = 1e-12
MEM_CAP = 2 ** 21          # M * n per library call
SPECIAL_PHIS = ["0", "pi/M", "pi/4", "-pi/2", "2pi/M"]
BAD_M = [0, 1, 3, 5, 6, 7, 12, 24, 36, 100, 9, 25, 1000, 1023, 1025, -4]
QAM_ODD = [2, 8, 32, 128, 512, 2048]


# ----------------------------------------------------------------------------
# configurations
# ----------------------------------------------------------------------------
def _kmax_psk(tier):
    return 10 if tier == "quick" else 12


def _special_phi(name, M):
    return {"0": 0.0, "pi/M": math.pi / M, "pi/4": math.pi / 4,
            "-pi/2": -math.pi / 2, "2pi/M": 2 * math.pi / M}[name]


def _all_cfgs(tier):
    out = [dict(cls="BPSK", M=2, phi=None, set_phi=None),
           dict(cls="QPSK", M=4, phi=None, set_phi=None)]
    for k in range(1, _kmax_psk(tier) + 1):
        out.append(dict(cls="PSK", M=2 ** k, phi=None, set_phi=None))
    for k in range(1, 7):
        out.append(dict(cls="QAM", M=4 ** k, phi=None, set_phi=None))
    return out


def _build(cfg):
    from pyphysim.modulators import fundamental as f
    cls = cfg["cls"]
    if cls == "BPSK":
        m = f.BPSK()
    elif cls == "QPSK":
        m = f.QPSK()
    elif cls == "PSK":
        m = f.PSK(cfg["M"]) if cfg["phi"] is None else \
            f.PSK(cfg["M"], cfg["phi"])
    elif cls == "QAM":
        m = f.QAM(cfg["M"])
    else:
        raise AssertionError(cls)
    if cfg.get("set_phi") is not None:
        m.setPhaseOffset(cfg["set_phi"])
    if cfg.get("reinit_from") and cls in ("PSK", "QAM"):
        # an object of ANOTHER order of the same class, re-initialised
        # through the public setConstellation with this configuration's
        # constellation
        other = f.QAM(cfg["reinit_from"]) if cls == "QAM" else \
            f.PSK(cfg["reinit_from"])
        other.setConstellation(np.array(m.symbols, copy=True))
        return other
    return m


def _eff_phi(cfg):
    if cfg.get("set_phi") is not None:
        return float(cfg["set_phi"])
    if cfg["cls"] == "QPSK":
        return math.pi / 4
    return 0.0 if cfg["phi"] is None else float(cfg["phi"])


def _tags(cfg, **kw):
    t = dict(cls=cfg["cls"], M=cfg["M"],
             via_set=cfg.get("set_phi") is not None)
    t.update(kw)
    return t


@st.composite
def _cfg_st(draw, tier, classes=("BPSK", "QPSK", "PSK", "PSK", "QAM", "QAM")):
    cls = draw(st.sampled_from(list(classes)))
    if cls == "BPSK":
        return dict(cls="BPSK", M=2, phi=None, set_phi=None)
    if cls == "QAM":
        return dict(cls="QAM", M=4 ** draw(st.integers(1, 6)), phi=None,
                    set_phi=None)
    M = 4 if cls == "QPSK" else 2 ** draw(st.integers(1, _kmax_psk(tier)))
    phis = st.one_of(
        fl(-2 * math.pi, 2 * math.pi),
        st.sampled_from(SPECIAL_PHIS).map(lambda n: _special_phi(n, M)),
        fl(-1e-6, 1e-6), fl(-12.0, 12.0),
        # offsets typed as short decimals (3.3, 0.25, -7.85)
        st.integers(-120, 120).map(lambda k: k / 10.0),
        st.integers(-1200, 1200).map(lambda k: k / 100.0))
    phi = None
    if cls == "PSK":
        phi = draw(st.one_of(st.none(), phis, phis))
    set_phi = draw(st.one_of(st.none(), st.none(), phis))
    return dict(cls=cls, M=M, phi=phi, set_phi=set_phi)


# ----------------------------------------------------------------------------
# strategies
# ----------------------------------------------------------------------------
def _dims(maxn):
    """list of 0..3 dimensions with product <= maxn (construction)."""
    @st.composite
    def s(draw):
        nd = draw(st.sampled_from([0, 1, 1, 2, 2, 3]))
        dims, left = [], maxn
        for _ in range(nd):
            hi = max(1, min(left, 64 if nd == 1 else 16))
            d = draw(st.one_of(st.integers(1, hi), st.integers(1, hi),
                               st.integers(1, left if nd == 1 else hi)))
            dims.append(d)
            left = max(1, left // max(d, 1))
        return dims
    return s()


@st.composite
def _roundtrip_st(draw, tier, bad=False):
    cfg = draw(_cfg_st(tier))
    maxn = min(4096, MEM_CAP // cfg["M"])
    dims = draw(_dims(maxn))
    kinds = ["int64", "int64", "int32"]
    if not dims and cfg["cls"] != "BPSK":
        kinds = ["pyint", "int64"]
    case = dict(part="badindex" if bad else "roundtrip", cfg=cfg, dims=dims,
                kind=draw(st.sampled_from(kinds)), seed=draw(seeds),
                transposed=draw(st.booleans()))
    if bad:
        case["bad_pos"] = draw(st.integers(0, 10 ** 6))
        case["excess"] = draw(st.one_of(
            st.just(0), st.integers(0, 3), st.integers(0, 2 ** 20),
            st.just(2 ** 31 - 1 - cfg["M"])))
    return case


def _sample_st(sclass):
    idx = st.integers(0, 2 ** 20)
    unit = fl(-1.0, 1.0)
    if sclass == "on_point":
        return st.fixed_dictionaries(dict(i=idx, a=unit, b=unit))
    if sclass == "box":
        return st.fixed_dictionaries(dict(u=unit, v=unit))
    if sclass == "boundary":
        t = st.one_of(st.sampled_from([0.0, 0.25, -0.25, 0.4]), unit,
                      st.tuples(st.sampled_from([-1.0, 1.0]),
                                fl(0.0, 3.0)).map(
                                    lambda p: p[0] * 10.0 ** p[1]))
        return st.fixed_dictionaries(dict(
            i=idx, r=st.integers(0, 7), dexp=st.integers(1, 10),
            s=st.sampled_from([-1, 1]), t=t))
    if sclass == "corner":
        # near the point where >= 3 decision regions meet (QAM cell corner,
        # PSK centre): half-way along the edge normal, small offsets
        return st.fixed_dictionaries(dict(
            i=idx, r=st.integers(0, 7), dexp=st.integers(1, 10),
            s=st.sampled_from([-1, 1]), s2=st.sampled_from([-1, 1]),
            dexp2=st.integers(1, 10), side=st.sampled_from([-1, 1])))
    if sclass == "far":
        return st.fixed_dictionaries(dict(e=fl(0.5, 6.0),
                                          th=fl(0.0, 2 * math.pi)))
    if sclass == "origin":
        return st.fixed_dictionaries(dict(
            e=st.one_of(fl(-9.0, -1.0), fl(-9.0, -1.0), fl(-9.0, -1.0),
                        fl(-300.0, -9.0), st.just(None)),
            th=fl(0.0, 2 * math.pi)))
    raise AssertionError(sclass)


SCLASSES = ["on_point", "box", "boundary", "boundary", "corner", "far",
            "origin"]


@st.composite
def _detect_st(draw, tier):
    cfg = draw(_cfg_st(tier))
    sclass = draw(st.sampled_from(SCLASSES))
    nmax = min(64 if tier == "quick" else 256, MEM_CAP // cfg["M"])
    # up to 8 samples are drawn value by value (they shrink); the rest of the
    # batch comes from RandomState(seed) with the same class and ranges
    # (Hypothesis generation of hundreds of dicts costs more than the check)
    samples = draw(st.lists(_sample_st(sclass), min_size=1, max_size=8))
    extra = min(nmax - len(samples),
                draw(st.sampled_from([0, 8, 24, 56, 56, 120, 248])))
    return dict(part="detect", cfg=cfg, sclass=sclass, samples=samples,
                extra=max(0, extra), seed=draw(seeds),
                layout=draw(st.integers(0, 5)))


def _rand_sample(sclass, rs):
    """seeded counterpart of _sample_st (same classes, same ranges)"""
    i = int(rs.randint(0, 2 ** 20))

    def u():
        return float(rs.uniform(-1.0, 1.0))

    def sign():
        return int(rs.choice([-1, 1]))
    if sclass == "on_point":
        return dict(i=i, a=u(), b=u())
    if sclass == "box":
        return dict(u=u(), v=u())
    if sclass == "boundary":
        k = rs.randint(0, 3)
        if k == 0:
            t = float(rs.choice([0.0, 0.25, -0.25, 0.4]))
        elif k == 1:
            t = u()
        else:
            t = sign() * 10.0 ** float(rs.uniform(0.0, 3.0))
        return dict(i=i, r=int(rs.randint(0, 8)),
                    dexp=int(rs.randint(1, 11)), s=sign(), t=t)
    if sclass == "corner":
        return dict(i=i, r=int(rs.randint(0, 8)),
                    dexp=int(rs.randint(1, 11)), s=sign(), s2=sign(),
                    dexp2=int(rs.randint(1, 11)), side=sign())
    if sclass == "far":
        return dict(e=float(rs.uniform(0.5, 6.0)),
                    th=float(rs.uniform(0.0, 2 * math.pi)))
    if sclass == "origin":
        k = rs.randint(0, 10)
        e = None if k == 0 else (float(rs.uniform(-300.0, -9.0)) if k <= 2
                                 else float(rs.uniform(-9.0, -1.0)))
        return dict(e=e, th=float(rs.uniform(0.0, 2 * math.pi)))
    raise AssertionError(sclass)


@st.composite
def _history_st(draw, tier):
    """3..8 operations on ONE or TWO live objects (the second one often of
    the same class and order as the first): phase-offset changes (PSK/QPSK)
    interleaved with uses; the number of samples varies from use to use"""
    cfg = draw(_cfg_st(tier, classes=("QPSK", "PSK", "PSK", "PSK", "QAM",
                                      "BPSK")))
    cfgs = [cfg]
    if draw(st.booleans()):
        if draw(st.booleans()) and cfg["cls"] in ("PSK", "QPSK"):
            other = draw(_cfg_st(tier, classes=("PSK",)))
            other = dict(other, M=cfg["M"])
            if other.get("phi") is not None and draw(st.booleans()):
                other = dict(other, phi=draw(st.integers(-60, 60)) / 10.0)
        else:
            other = draw(_cfg_st(tier))
        cfgs.append(other)
    n = draw(st.integers(1, 40))
    sizes = st.sampled_from([n, n, n, 1, max(1, n // 3), 2 * n + 1, 0])

    def phis(M):
        return st.one_of(fl(-2 * math.pi, 2 * math.pi),
                         st.integers(-120, 120).map(lambda k: k / 10.0),
                         st.sampled_from(SPECIAL_PHIS).map(
                             lambda nm: _special_phi(nm, M)),
                         st.just(0.0))
    steps = []
    for _ in range(draw(st.integers(2, 6 if len(cfgs) == 1 else 8))):
        t = draw(st.integers(0, len(cfgs) - 1))
        k = draw(st.sampled_from(["use", "use", "set", "set", "set_back"]))
        if cfgs[t]["cls"] not in ("PSK", "QPSK"):
            k = "use"
        if k == "use":
            steps.append(["use", draw(seeds), draw(sizes), t])
        elif k == "set_back":
            # back to the offset the object was built with
            steps.append(["set", None, 0, t])
        else:
            steps.append(["set", draw(phis(cfgs[t]["M"])), 0, t])
    steps.append(["use", draw(seeds), draw(sizes), 0])
    return dict(part="history", cfg=cfg, cfgs=cfgs, steps=steps, n=n)


def _constellation_st(tier):
    return st.fixed_dictionaries(dict(
        part=st.just("constellation"),
        cfg=_cfg_st(tier, classes=("QPSK", "PSK", "PSK", "PSK"))))


def _enum_table(tier):
    cases = []
    for cfg in _all_cfgs(tier):
        if cfg["cls"] == "PSK":
            for name in SPECIAL_PHIS:
                c = dict(cfg, phi=_special_phi(name, cfg["M"]))
                cases.append(dict(part="table", cfg=c))
                cases.append(dict(part="table",
                                  cfg=dict(cfg, set_phi=c["phi"])))
        cases.append(dict(part="table", cfg=cfg))
    return cases


def _enum_reject(tier):
    cases = []
    for M in BAD_M:
        cases.append(dict(part="reject", what="ctor", cls="PSK", M=M))
        cases.append(dict(part="reject", what="ctor", cls="QAM", M=M))
    for M in QAM_ODD:
        cases.append(dict(part="reject", what="ctor", cls="QAM", M=M))
    for cfg in _all_cfgs(tier):
        for form in ("scalar_M", "scalar_M+5", "array_last", "array_2d",
                     "array_big", "array_all"):
            cases.append(dict(part="reject", what="index", cfg=cfg,
                              form=form))
    # empty inputs are legal and must round-trip to empty outputs
    for cfg in _all_cfgs(tier):
        for dims in ([0], [0, 3], [2, 0, 3]):
            cases.append(dict(part="roundtrip", cfg=cfg, dims=dims,
                              kind="int64", seed=0, transposed=False))
    return cases


def _enum_bigbatch(tier):
    """single calls with MANY samples (M*n above 2**22, where an
    implementation is tempted to work block-wise): round trip of 1-D and 2-D
    index arrays.  Memory of the library's distance matrix: M*n*16 bytes."""
    cases = []
    sizes = [("QAM", 4096, 1100), ("PSK", 1024, 4200), ("QAM", 256, 17000),
             ("QAM", 64, 66000), ("QAM", 4096, 4203)]
    if tier == "thorough":
        sizes += [("QAM", 4096, 2500), ("PSK", 256, 40000),
                  ("QAM", 16, 270000), ("QPSK", 4, 1100000),
                  ("PSK", 8, 1100000), ("QAM", 1024, 9000),
                  # M*n above 2**24 with n not a multiple of a power of two
                  ("PSK", 8, 2100003),
                  ("QAM", 64, 300001), ("QAM", 16, 2200007)]
    for i, (cls, M, n) in enumerate(sizes):
        cfg = dict(cls=cls, M=M, phi=0.0 if cls != "QAM" else None,
                   set_phi=None)
        if cls == "QPSK":
            cfg = dict(cls="QPSK", M=4, phi=None, set_phi=None)
        dims = [n] if i % 2 == 0 else [2, n // 2]
        cases.append(dict(part="roundtrip", cfg=cfg, dims=dims, kind="int64",
                          seed=1000 + i, transposed=False, big=True))
    return cases


def _enum_bignoisy(tier):
    """single calls with MANY off-point samples (M*n above 2**20 and up to
    2**24): an implementation that picks another detector for long blocks is
    judged on noisy, boundary and far-outside samples too."""
    sizes = [("QAM", 16, 70000), ("QAM", 64, 20000), ("PSK", 8, 140000),
             ("QAM", 4096, 1500), ("QPSK", 4, 300000), ("BPSK", 2, 600000)]
    if tier == "thorough":
        sizes += [("QAM", 256, 60000), ("QAM", 1024, 15000),
                  ("PSK", 64, 200000), ("QAM", 16, 1000003),
                  ("QAM", 4, 2000001), ("PSK", 1024, 9001)]
    cases = []
    for i, (cls, M, n) in enumerate(sizes):
        cfg = dict(cls=cls, M=M, phi=(0.0 if i % 2 else 0.3)
                   if cls == "PSK" else None, set_phi=None)
        cases.append(dict(part="bignoisy", cfg=cfg, n=n, seed=2000 + i,
                          two_d=bool(i % 2)))
    return cases


PARTS = [
    Part("bignoisy", enumerate=_enum_bignoisy, quick_shards=3,
         thorough_shards=6),
    Part("bigbatch", enumerate=_enum_bigbatch, quick_shards=2,
         thorough_shards=3),
    Part("table", enumerate=_enum_table, exhaustive=True, quick_shards=8),
    Part("reject", enumerate=_enum_reject, exhaustive=True, quick_shards=2),
    Part("constellation", _constellation_st, quick=400, thorough=20000,
         quick_shards=2),
    Part("roundtrip", _roundtrip_st, quick=1600, thorough=60000),
    Part("history", _history_st, quick=1200, thorough=40000, quick_shards=4),
    Part("badindex", lambda tier: _roundtrip_st(tier, bad=True), quick=400,
         thorough=20000, quick_shards=2),
    Part("detect", _detect_st, quick=4800, thorough=150000, quick_shards=8),
]


# ----------------------------------------------------------------------------
# oracles
# ----------------------------------------------------------------------------
def _symbols(mod):
    return np.asarray(mod.symbols).astype(complex).ravel()


def _check_constellation(mod, cfg, ctx):
    """M distinct points, unit mean energy, M/K attributes and the point
    set of the modulation family (labels not checked)."""
    M = cfg["M"]
    tags = _tags(cfg)
    sym = np.asarray(mod.symbols)
    if sym.ndim != 1 or sym.size != M:
        raise Violation("table_size", "symbols has shape %r, M=%d" %
                        (sym.shape, M), tags)
    if mod.M != M:
        raise Violation("attr_M", "mod.M=%r for %d symbols" % (mod.M, M),
                        tags)
    if mod.K != int(round(math.log2(M))) or 2 ** int(mod.K) != M:
        raise Violation("attr_K", "mod.K=%r, M=%d" % (mod.K, M), tags)
    c = _symbols(mod)
    if not np.all(np.isfinite(c.real) & np.isfinite(c.imag)):
        raise Violation("table_finite", "non-finite constellation point",
                        tags)
    distinct = len(set((float(z.real), float(z.imag)) for z in c))
    if distinct != M:
        raise Violation("distinct_points", "%d distinct points of %d" %
                        (distinct, M), tags)
    energy = math.fsum(float(z.real) ** 2 + float(z.imag) ** 2
                       for z in c) / M
    ctx.close("unit_energy", abs(energy - 1.0), 1e-12,
              "mean |s|^2 = %r" % energy, tags)
    # point set
    if cfg["cls"] in ("PSK", "QPSK", "BPSK"):
        phi = _eff_phi(cfg)
        step = 2 * math.pi / M
        m = np.round((np.angle(c) - phi) / step).astype(np.int64) % M
        exp = np.exp(1j * (step * m + phi))
        err = float(np.max(np.abs(c - exp)))
        slots = len(set(m.tolist()))
    else:
        L = int(round(math.sqrt(M)))
        s = math.sqrt(2.0 * (M - 1) / 3.0)
        a = np.round((c.real * s + (L - 1)) / 2.0).astype(np.int64)
        b = np.round((c.imag * s + (L - 1)) / 2.0).astype(np.int64)
        ok = bool(np.all((a >= 0) & (a < L) & (b >= 0) & (b < L)))
        exp = ((2 * a - (L - 1)) + 1j * (2 * b - (L - 1))) / s
        err = float(np.max(np.abs(c - exp))) if ok else math.inf
        slots = len(set(zip(a.tolist(), b.tolist())))
    if slots != M:
        raise Violation("constellation_set",
                        "points occupy %d of the %d slots of the %s grid" %
                        (slots, M, cfg["cls"]), tags)
    ctx.close("constellation_set", err, 1e-12,
              "distance of an emitted point from its %s slot" % cfg["cls"],
              tags)
    return c


def _nearest(c, z):
    """brute force: index of the nearest point of c, the smallest and the
    second smallest distance for every sample (float64, squared form)."""
    n = z.size
    idx = np.empty(n, dtype=np.int64)
    d1 = np.empty(n)
    d2 = np.empty(n)
    step = max(1, (2 ** 20) // c.size)
    cr, ci = c.real[:, None], c.imag[:, None]
    for lo in range(0, n, step):
        zz = z[lo:lo + step]
        dr = cr - zz.real[None, :]
        di = ci - zz.imag[None, :]
        dd = dr * dr + di * di
        k = dd.argmin(axis=0)
        cols = np.arange(zz.size)
        idx[lo:lo + step] = k
        d1[lo:lo + step] = np.sqrt(dd[k, cols])
        dd[k, cols] = np.inf
        d2[lo:lo + step] = np.sqrt(dd.min(axis=0)) if c.size > 1 else np.inf
    return idx, d1, d2


def _exact_d2(a, z):
    return ((Fraction(float(a.real)) - Fraction(float(z.real))) ** 2 +
            (Fraction(float(a.imag)) - Fraction(float(z.imag))) ** 2)


def _nn_dist(c, idx):
    """distance from c[idx[k]] to its nearest other constellation point."""
    out = np.empty(len(idx))
    step = max(1, (2 ** 20) // c.size)
    for lo in range(0, len(idx), step):
        ii = np.asarray(idx[lo:lo + step])
        d = np.abs(c[ii][:, None] - c[None, :])
        d[np.arange(ii.size), ii] = np.inf
        out[lo:lo + step] = d.min(axis=1)
    return out


def _make_samples(c, sclass, samples):
    M = c.size
    R = float(max(np.max(np.abs(c.real)), np.max(np.abs(c.imag))))
    z = np.empty(len(samples), dtype=complex)
    for n, s in enumerate(samples):
        if sclass == "box":
            z[n] = 1.5 * R * complex(s["u"], s["v"])
            continue
        if sclass in ("far", "origin"):
            r = 0.0 if s["e"] is None else 10.0 ** s["e"]
            z[n] = r * cmath.exp(1j * s["th"])
            continue
        i = s["i"] % M
        dist = np.abs(c - c[i])
        dist[i] = np.inf
        d = float(dist.min())
        if sclass == "on_point":
            z[n] = c[i] + 1e-3 * d * complex(s["a"], s["b"])
            continue
        nb = np.flatnonzero(dist <= d * (1 + 1e-9))
        j = int(nb[s["r"] % nb.size])
        mid = (c[i] + c[j]) / 2
        u = (c[j] - c[i]) / abs(c[j] - c[i])
        delta = s["s"] * 10.0 ** (-s["dexp"]) * d
        if sclass == "boundary":
            z[n] = mid + s["t"] * d * (1j * u) + delta * u
        else:  # corner
            z[n] = (mid + s["side"] * 0.5 * d * (1j * u) + delta * u +
                    s["s2"] * 10.0 ** (-s["dexp2"]) * d * (1j * u))
    return z


def _arrange(z, layout):
    """put the flat sample vector into one of several array layouts"""
    n = z.size
    if layout == 1 and n >= 1:
        return np.array(z[0]), "0d"
    if layout == 2:
        a = max(k for k in range(1, int(math.sqrt(n)) + 1) if n % k == 0)
        return z.reshape(a, n // a), "2d"
    if layout == 3:
        a = max(k for k in range(1, int(round(n ** (1 / 3.0))) + 2)
                if n % k == 0)
        r = n // a
        b = max(k for k in range(1, int(math.sqrt(r)) + 1) if r % k == 0)
        return z.reshape(a, b, r // b), "3d"
    if layout == 4:
        a = max(k for k in range(1, int(math.sqrt(n)) + 1) if n % k == 0)
        return z.reshape(n // a, a).T, "2d_transposed_view"
    if layout == 5:
        buf = np.zeros(2 * n, dtype=complex)
        buf[::2] = z
        return buf[::2], "1d_strided_view"
    return z.copy(), "1d"


# ----------------------------------------------------------------------------
# sub-checks
# ----------------------------------------------------------------------------
def _check_roundtrip_array(mod, cfg, idx, ctx, what):
    """modulate -> table lookup; demodulate(modulate(idx)) == idx exactly"""
    tags = _tags(cfg, form=what)
    out = mod.modulate(idx)
    ref = np.asarray(mod.symbols)[np.asarray(idx)]
    if np.shape(out) != np.shape(ref):
        raise Violation("modulate_shape", "modulate output shape %r for "
                        "input shape %r" % (np.shape(out), np.shape(ref)),
                        tags)
    if not np.array_equal(np.asarray(out), ref):
        raise Violation("modulate_vs_table", "modulate(i) differs from "
                        "symbols[i] (%s)" % what, tags)
    back = mod.demodulate(out)
    if np.shape(back) != np.shape(idx):
        raise Violation("demodulate_shape", "demodulate output shape %r for "
                        "input shape %r" % (np.shape(back), np.shape(idx)),
                        tags)
    if np.asarray(back).dtype.kind not in "iu":
        raise Violation("demodulate_dtype", "demodulate returns dtype %s" %
                        np.asarray(back).dtype, tags)
    if not np.array_equal(np.asarray(back), np.asarray(idx)):
        bad = np.flatnonzero(np.asarray(back).ravel() !=
                             np.asarray(idx).ravel())
        k = int(bad[0])
        raise Violation(
            "roundtrip", "demodulate(modulate(i)) != i at flat position %d: "
            "i=%d got %d (%d of %d wrong)" %
            (k, int(np.asarray(idx).ravel()[k]),
             int(np.asarray(back).ravel()[k]), bad.size, np.size(idx)), tags)


def _part_table(case, ctx):
    cfg = case["cfg"]
    mod = _build(cfg)
    _check_constellation(mod, cfg, ctx)
    M = cfg["M"]
    ctx.label("table:%s" % cfg["cls"], "M=%d" % M)
    step = max(1, MEM_CAP // M)
    for lo in range(0, M, step):
        _check_roundtrip_array(mod, cfg, np.arange(lo, min(M, lo + step)),
                               ctx, "all_indexes")
    ctx.nontrivial(M > 64 or _eff_phi(cfg) != 0.0)


def _part_constellation(case, ctx):
    cfg = case["cfg"]
    mod = _build(cfg)
    _check_constellation(mod, cfg, ctx)
    ctx.label("constellation:%s" % cfg["cls"],
              "via_setPhaseOffset" if cfg.get("set_phi") is not None
              else "at_construction")
    ctx.nontrivial(_eff_phi(cfg) != 0.0)


def _index_input(case, M):
    dims = case["dims"]
    rs = np.random.RandomState(case["seed"])
    if case["kind"] == "pyint":
        return int(rs.randint(0, M)), "pyint"
    dt = np.int32 if case["kind"] == "int32" else np.int64
    a = rs.randint(0, M, size=tuple(dims)).astype(dt)
    if a.size >= 2:
        flat = a.reshape(-1)
        flat[rs.randint(0, a.size)] = M - 1
        flat[rs.randint(0, a.size)] = 0
    form = "%dd" % len(dims)
    if case.get("transposed") and a.ndim >= 2:
        a = a.T
        form += "_transposed_view"
    return a, form


def _part_roundtrip(case, ctx):
    cfg = case["cfg"]
    mod = _build(cfg)
    M = cfg["M"]
    idx, form = _index_input(case, M)
    ctx.label("rt:%s" % cfg["cls"], "rt:" + form, "rt:" + case["kind"],
              "M<=16" if M <= 16 else ("M<=256" if M <= 256 else "M>256"))
    if np.size(idx) == 0:
        ctx.label("rt:empty")
    if cfg.get("set_phi") is not None:
        ctx.label("rt:via_setPhaseOffset")
    _check_roundtrip_array(mod, cfg, idx, ctx, form)
    ctx.nontrivial(np.size(idx) > 0 and
                   (M > 64 or _eff_phi(cfg) != 0.0 or np.ndim(idx) != 1))


def _part_history(case, ctx):
    """after ANY sequence of uses and phase-offset changes on one object -
    with a second live modulator built and used in between - the
    constellation, the round trip and nearest-point detection are those of
    the object's own current offset"""
    cfgs = [dict(c) for c in case.get("cfgs", [case["cfg"]])]
    mods = [_build(cfgs[0])] + [None] * (len(cfgs) - 1)
    built = [_eff_phi(c) for c in cfgs]
    n_use = n_set = 0
    last_n = {}
    cfg = cfgs[0]
    ctx.label("hist:%s" % cfg["cls"], "hist:objects=%d" % len(cfgs),
              "M<=16" if cfg["M"] <= 16 else
              ("M<=256" if cfg["M"] <= 256 else "M>256"))
    if len(cfgs) == 2:
        if (cfgs[0]["cls"], cfgs[0]["M"]) == (cfgs[1]["cls"], cfgs[1]["M"]):
            ctx.label("hist:two_same_class_and_order")
        elif cfgs[0]["M"] == cfgs[1]["M"]:
            ctx.label("hist:two_same_order")
    touched_other = False
    for step in case["steps"]:
        kind, arg = step[0], step[1]
        n = int(step[2]) if len(step) > 2 else int(case["n"])
        t = int(step[3]) if len(step) > 3 else 0
        cfg = cfgs[t]
        if mods[t] is None:
            mods[t] = _build(cfg)
        mod = mods[t]
        M = cfg["M"]
        if t == 1:
            touched_other = True
        if kind == "set":
            phi = built[t] if arg is None else float(arg)
            mod.setPhaseOffset(phi)
            cfg["set_phi"] = phi
            n_set += 1
            if n_use:
                ctx.label("hist:set_after_use")
            continue
        n_use += 1
        if t == 0 and touched_other:
            ctx.label("hist:use_after_other_object")
        if t in last_n and last_n[t] > n:
            ctx.label("hist:fewer_samples_than_before")
        elif t in last_n and last_n[t] < n:
            ctx.label("hist:more_samples_than_before")
        last_n[t] = n
        rs = np.random.RandomState(int(arg))
        c = _check_constellation(mod, cfg, ctx)
        idx = rs.randint(0, M, size=n)
        _check_roundtrip_array(mod, cfg, idx, ctx, "history")
        # noisy samples well inside the decision regions
        dmin = _nn_dist(c, idx)
        z = c[idx] + 0.3 * dmin * rs.uniform(0.0, 1.0, n) * \
            np.exp(2j * math.pi * rs.uniform(0.0, 1.0, n))
        if n == 1 and int(arg) % 2:
            z = z.reshape(())
        elif n >= 4 and n % 2 == 0 and int(arg) % 3 == 0:
            z = z.reshape(2, n // 2)
        got = np.asarray(mod.demodulate(z))
        if got.shape != np.shape(z):
            raise Violation("demodulate_shape", "use %d: output shape %r for "
                            "input shape %r" % (n_use, got.shape, np.shape(z)),
                            _tags(cfg))
        got = got.reshape(-1)
        if not np.array_equal(got, idx):
            bad = int(np.flatnonzero(got != idx)[0])
            raise Violation("history_detection", "use %d (object %d) after "
                            "%d offset changes: sample %d within 0.3 d_min "
                            "of point %d detected as %r" %
                            (n_use, t, n_set, bad, int(idx[bad]), got[bad]),
                            _tags(cfg, n_set=min(n_set, 3)))
    ctx.label("hist:uses=%d" % min(n_use, 4), "hist:sets=%d" % min(n_set, 4))
    ctx.nontrivial(n_use >= 2 and (n_set >= 1 or len(cfgs) == 2 or
                                   len(set(last_n.values())) >= 1))


def _part_bignoisy(case, ctx):
    cfg = case["cfg"]
    mod = _build(cfg)
    c = _symbols(mod)
    M, n = c.size, int(case["n"])
    rs = np.random.RandomState(int(case["seed"]))
    idx = rs.randint(0, M, size=n)
    nn = _nn_dist(c, idx)
    kind = rs.randint(0, 4, size=n)
    # 0: inside the decision region, 1: around the decision boundary,
    # 2: anywhere in a box around the constellation, 3: far outside
    amp = np.where(kind == 0, 0.45 * rs.uniform(0, 1, n),
                   np.where(kind == 1, 0.5 + 0.2 * rs.uniform(-1, 1, n),
                            0.0)) * nn
    z = c[idx] + amp * np.exp(2j * math.pi * rs.uniform(0, 1, n))
    r = float(np.abs(c).max())
    box = (rs.uniform(-1.3, 1.3, n) + 1j * rs.uniform(-1.3, 1.3, n)) * r
    far = c[idx] * (1.0 + 10.0 ** rs.uniform(-1.0, 3.0, n))
    z = np.where(kind == 2, box, np.where(kind == 3, far, z))
    arr = z.reshape(2, -1) if case.get("two_d") and n % 2 == 0 else z
    tags = _tags(cfg, n=n)
    got = np.asarray(mod.demodulate(arr))
    if got.shape != arr.shape:
        raise Violation("demodulate_shape", "demodulate output shape %r for "
                        "input shape %r" % (got.shape, arr.shape), tags)
    got = got.reshape(-1).astype(np.int64)
    if got.min() < 0 or got.max() >= M:
        raise Violation("demodulate_range", "index outside [0,%d)" % M, tags)
    ref, d1, d2 = _nearest(c, z)
    rel = (d2 - d1) / (d1 + d2)
    tie = ~(rel > TIE_REL)
    ctx.label("bignoisy:%s" % cfg["cls"])
    ctx.count("detections", n)
    ctx.count("detections_tie_excluded", int(tie.sum()))
    ctx.count("detections_long_block_off_point", int((~tie).sum()))
    ctx.nontrivial(True)
    wrong = np.flatnonzero((got != ref) & ~tie)
    for k in wrong.tolist()[:50]:
        zk = complex(z[k])
        e_got = _exact_d2(c[got[k]], zk)
        e_ref = _exact_d2(c[ref[k]], zk)
        if e_got > e_ref * (Fraction(1) + Fraction(4 * TIE_REL)):
            raise Violation(
                "nearest_symbol",
                "block of %d samples, sample %r: demodulate -> %d (distance "
                "%.17g) but point %d is nearer (distance %.17g)" %
                (n, zk, int(got[k]), math.sqrt(float(e_got)), int(ref[k]),
                 math.sqrt(float(e_ref))), tags)
        ctx.count("detections_tie_excluded_exact", 1)


def _expect_value_error(fn, name, detail, tags):
    try:
        out = fn()
    except ValueError:
        return
    except Exception as exc:  # noqa  (contract: ValueError exactly)
        raise Violation(name + "_wrong_exception", "%s raised %s: %s" %
                        (detail, type(exc).__name__, str(exc)[:120]), tags)
    raise Violation(name + "_accepted", "%s returned %s" %
                    (detail, repr(out)[:120]), tags)


def _part_badindex(case, ctx):
    cfg = case["cfg"]
    mod = _build(cfg)
    M = cfg["M"]
    idx, form = _index_input(case, M)
    bad = M + int(case["excess"])
    if isinstance(idx, int):
        idx = bad
    else:
        if idx.size == 0:
            ctx.label("bad:empty_skipped")
            return
        if idx.ndim == 0:
            idx = np.array(bad, dtype=idx.dtype)
        else:
            pos = np.unravel_index(case["bad_pos"] % idx.size, idx.shape)
            idx[pos] = bad
    ctx.label("bad:%s" % cfg["cls"], "bad:" + form,
              "bad:excess=0" if case["excess"] == 0 else "bad:excess>0")
    _expect_value_error(lambda: mod.modulate(idx), "index_ge_M",
                        "modulate(%s input with an index %d >= M=%d)" %
                        (form, bad, M), _tags(cfg, form=form))


def _part_reject(case, ctx):
    from pyphysim.modulators import fundamental as f
    if case["what"] == "ctor":
        cls, M = case["cls"], case["M"]
        ctx.label("reject:ctor:%s" % cls)
        if cls == "PSK" and M == 1:
            # degenerate but consistent one-point constellation: neither
            # required to work nor to be rejected (see ASSUMPTIONS)
            ctx.label("reject:psk1_skipped")
            return
        ctor = getattr(f, cls)
        try:
            with warnings.catch_warnings():
                warnings.simplefilter("ignore")
                obj = ctor(M)
        except Exception as exc:  # noqa  (contract: any exception)
            ctx.label("reject:raises:%s" % type(exc).__name__)
            return
        raise Violation("unsupported_M_accepted",
                        "%s(%d) was constructed; symbols[:4]=%r" %
                        (cls, M, np.asarray(obj.symbols)[:4].tolist()),
                        dict(cls=cls, M=M))
    cfg = case["cfg"]
    mod = _build(cfg)
    M = cfg["M"]
    form = case["form"]
    ctx.label("reject:index:%s" % form)
    if form == "scalar_M":
        idx = M
    elif form == "scalar_M+5":
        idx = M + 5
    elif form == "array_last":
        idx = np.array([0, M - 1, M])
    elif form == "array_2d":
        idx = np.zeros((3, 4), dtype=int)
        idx[1, 2] = M
    elif form == "array_big":
        idx = np.array([0, 2 ** 31])
    else:
        idx = np.full(5, M)
    _expect_value_error(lambda: mod.modulate(idx), "index_ge_M",
                        "modulate(%s) with M=%d" % (form, M),
                        _tags(cfg, form=form))


def _part_detect(case, ctx):
    cfg = case["cfg"]
    sclass = case["sclass"]
    mod = _build(cfg)
    c = _symbols(mod)
    M = c.size
    specs = list(case["samples"])
    if case.get("extra"):
        rs = np.random.RandomState(case["seed"])
        specs += [_rand_sample(sclass, rs) for _ in range(case["extra"])]
    z = _make_samples(c, sclass, specs)
    real_in = int(case.get("seed", 1)) % 4 == 0
    if real_in:
        # samples on the real axis handed over as a REAL-dtype array (the
        # in-phase branch of a receiver, a float recording)
        z = z.real + 0j
    arr, layout = _arrange(z, case["layout"])
    if real_in:
        arr = np.array(np.asarray(arr).real, dtype=float)
        layout += "+real_dtype"
    flat = np.asarray(arr).reshape(-1).astype(complex)
    tags = _tags(cfg, sclass=sclass, layout=layout)

    got = mod.demodulate(arr)
    if np.shape(got) != np.shape(arr):
        raise Violation("demodulate_shape", "demodulate output shape %r for "
                        "input shape %r" % (np.shape(got), np.shape(arr)),
                        tags)
    got = np.asarray(got)
    if got.dtype.kind not in "iu":
        raise Violation("demodulate_dtype", "demodulate returns dtype %s" %
                        got.dtype, tags)
    got = got.reshape(-1).astype(np.int64)
    if got.size and (got.min() < 0 or got.max() >= M):
        raise Violation("demodulate_range", "index outside [0,%d)" % M, tags)

    ref, d1, d2 = _nearest(c, flat)
    rel = (d2 - d1) / (d1 + d2)
    tie = ~(rel > TIE_REL)
    nn = _nn_dist(c, ref)
    mid = d1 > 0.25 * nn
    ctx.label("det:%s" % cfg["cls"], "det:" + sclass, "det:" + layout,
              "M<=16" if M <= 16 else ("M<=256" if M <= 256 else "M>256"))
    if cfg.get("set_phi") is not None:
        ctx.label("det:via_setPhaseOffset")
    ctx.count("detections", int(flat.size))
    ctx.count("detections_tie_excluded", int(tie.sum()))
    ctx.count("detections_beyond_quarter_dmin", int((mid & ~tie).sum()))
    if tie.any():
        ctx.label("tie_excluded", "tie_excluded:" + sclass)
    close = (~tie) & (rel < 1e-6)
    if close.any():
        ctx.label("det:margin<1e-6")
        ctx.count("detections_margin_below_1e-6", int(close.sum()))
    ctx.nontrivial(bool(((mid | (sclass in ("boundary", "corner"))) &
                         ~tie).any()))

    wrong = np.flatnonzero((got != ref) & ~tie)
    for k in wrong.tolist():
        zk = complex(flat[k])
        e_got = _exact_d2(c[got[k]], zk)
        e_ref = _exact_d2(c[ref[k]], zk)
        # exact rational confirmation: the library's pick is strictly
        # farther than the reference pick by more than the tie margin
        if e_got > e_ref * (Fraction(1) + Fraction(4 * TIE_REL)):
            raise Violation(
                "nearest_symbol",
                "sample %r: demodulate -> %d (distance %.17g) but point %d "
                "is nearer (distance %.17g); relative margin %.3e" %
                (zk, int(got[k]), math.sqrt(float(e_got)), int(ref[k]),
                 math.sqrt(float(e_ref)), float(rel[k])), tags)
        ctx.count("detections_tie_excluded_exact", 1)
        ctx.label("tie_excluded")


def check(case, ctx):
    part = case["part"]
    if part == "table":
        return _part_table(case, ctx)
    if part == "constellation":
        return _part_constellation(case, ctx)
    if part == "roundtrip":
        return _part_roundtrip(case, ctx)
    if part == "badindex":
        return _part_badindex(case, ctx)
    if part == "reject":
        return _part_reject(case, ctx)
    if part == "detect":
        return _part_detect(case, ctx)
    if part == "history":
        return _part_history(case, ctx)
    if part == "bignoisy":
        return _part_bignoisy(case, ctx)
    raise AssertionError("unknown part %r" % part)


# ----------------------------------------------------------------------------
# every direct library call made by this check must leave the arrays handed
# to it unchanged (core.GuardedCalls)
# ----------------------------------------------------------------------------
def _guard_targets():
    from pyphysim.modulators import fundamental as f
    t = []
    for cls in (f.Modulator, f.BPSK, f.PSK, f.QPSK, f.QAM):
        t += [(cls, n) for n in ("modulate", "demodulate")]
    return t


_unguarded_check = check


def check(case, ctx):  # noqa: F811
    from ..core import GuardedCalls
    with GuardedCalls(_guard_targets(), dict(part=case.get("part"))):
        return _unguarded_check(case, ctx)
