"""C11 - reported SINRs equal first-principles signal over
interference-plus-noise.

Oracle: scalar sums only (no covariance matrices).  For stream l of user k with
receive vector u (column l of U_k):

  SINR_kl = |u^H G_k f_kl|^2 /
            ( sum_{(j,m)!=(k,l)} |u^H G_kj f_jm|^2 + pe*||u^H H_k,ext||^2
              + sigma^2 ||u||^2 )

(G_kj = H_kj for the interference channel, G_kj = H_k = [H_k1 .. H_kK] for the
joint-processing variant, where every precoder has sum(Nt) rows).  The channel
blocks of the oracle come from the harness' own model: the raw matrix given to
init_from_channel_matrix (or observed once after randomize) times the square
root of the path loss given to set_pathloss.
"""
import math

import numpy as np
from hypothesis import strategies as st

from ..core import Part, Violation
from ..gens import fixed, loguniform, seeds

PROPERTY = "C11"
LEVEL = "exploration"
LEVEL_TEXT = ("Generated-input search (Hypothesis, seeded, sharded) over user "
              "counts, unequal antenna/stream configurations, arbitrary "
              "complex precoders and receive filters, path loss, noise and "
              "external interference, against a first-principles scalar-sum "
              "SINR oracle, a cross-implementation oracle (channel object vs "
              "IA solver), a metamorphic oracle (receive-filter rescaling) "
              "and explicit-sum covariance references.  Absence of violations "
              "is not proven.")
LEVEL_NOTE = ("K 2..4 (5), antennas 1..4 (6), streams 1..3; float64; SINR "
              "compared with relative tolerance 1e-9*(1+total/denominator) "
              "(the library forms the denominator by subtracting the own "
              "stream from the total covariance)")
TECHNIQUE = ("property-based testing (Hypothesis): independent reference "
             "formula + differential (two implementations) + metamorphic "
             "(filter rescaling) oracles")
RULE = ("a case is a configuration: class (plain | external interference), "
        "K 2..4, per-user Nr/Nt 1..4 and Ns 1..3 (Ns <= min(Nr,Nt) except in "
        "the labelled 'overloaded' minority), seeds for the raw channel, the "
        "precoders (interference-channel and joint-processing shapes) and the "
        "receive filters, per-user powers 1e-2..1e2, path loss (none | "
        "10**U(-3,1) matrix), noise_var (None | 0 | 1e-4..10), external "
        "sources (1..2, 1..2 antennas) with power pe (default | 0 | "
        "1e-3..1e2), optionally a second channel object of the same layout "
        "built and queried first.  Non-trivial = some user has >= 2 streams, or a path "
        "loss is set, or there is external interference with pe > 0; "
        "distinct = SHA-1 of the case description")
RULE += (" Added after the white-box review: "
         "optionally path loss and noise x 1e-14..1e-6, receive "
         "filters x 1e-8..1e-5, and everything asked again after a "
         "later set_pathloss ")
RULE += (" Added after the second white-box review: the joint-"
         "processing SINR and covariance are asked again after the later "
         "set_pathloss; the solver's reverse-network interference "
         "covariance (calc_Q_rev) is compared with the explicit sum. ")

ASSUMPTIONS = [
    "K >= 2 and generic (seeded complex Gaussian) precoders/filters: the "
    "interference-plus-noise power of every stream is > 0, so no SINR is "
    "infinite; an exactly zero denominator (noise None/0 and no interference) "
    "is outside the generated domain",
    "SINR tolerance is relative 1e-9*(1+total/denominator): the library "
    "obtains the denominator as (total covariance - own stream covariance), "
    "which loses total/denominator digits by cancellation",
    "the IA-solver comparison uses a minimal concrete subclass of "
    "IASolverBaseClass (solve() is abstract) loaded through set_precoders / "
    "set_receive_filters, only when Ns_k <= min(Nr_k, Nt_k) (full_W_H "
    "inverts the Ns x Ns equivalent channel); the solver ignores external "
    "interference, so with an ExtInt channel it is compared at pe = 0",
    "one set_pathloss per channel object (histories are C08's subject)",
]

RTOL = 1e-9
QTOL = 1e-11


def _randc(rs, r, c):
    return (rs.standard_normal((r, c)) + 1j * rs.standard_normal((r, c))) \
        / math.sqrt(2.0)


def _obj(mats):
    out = np.empty(len(mats), dtype=object)
    for i, m in enumerate(mats):
        out[i] = m
    return out


# ----------------------------------------------------------------------------
# model of the channel and first-principles oracle
# ----------------------------------------------------------------------------
class Model(object):
    def __init__(self, Nr, Nt, NtE, big):
        self.Nr, self.Nt, self.NtE = list(Nr), list(Nt), list(NtE)
        self.K = len(Nr)
        self.big = big
        self.cr = np.concatenate([[0], np.cumsum(Nr)]).astype(int)
        self.ct = np.concatenate([[0], np.cumsum(list(Nt) + list(NtE))]) \
            .astype(int)
        self.sNt = int(sum(Nt))

    def rows(self, k):
        return slice(self.cr[k], self.cr[k + 1])

    def Hkl(self, k, l):
        return self.big[self.rows(k), self.ct[l]:self.ct[l + 1]]

    def Hk(self, k):
        return self.big[self.rows(k), :self.sNt]

    def Hext(self, k):
        return self.big[self.rows(k), self.sNt:]


def _oracle_sinr(model, F, U, noise, pe, jp):
    """-> list over users of list over streams of (sinr, total/den)"""
    out = []
    for k in range(model.K):
        res = []
        for l in range(F[k].shape[1]):
            u = U[k][:, l]
            sig = 0.0
            intf = 0.0
            for j in range(model.K):
                G = model.Hk(k) if jp else model.Hkl(k, j)
                for m in range(F[j].shape[1]):
                    p = abs(np.vdot(u, G.dot(F[j][:, m]))) ** 2
                    if j == k and m == l:
                        sig = p
                    else:
                        intf += p
            ext = 0.0
            if pe and model.NtE:
                He = model.Hext(k)
                for c in range(He.shape[1]):
                    ext += pe * abs(np.vdot(u, He[:, c])) ** 2
            nz = (noise or 0.0) * float(np.vdot(u, u).real)
            den = intf + ext + nz
            res.append((sig / den, (sig + den) / den))
        out.append(res)
    return out


def _oracle_Q(model, k, F, noise, pe, jp):
    """explicit sum of the interfering links' covariances (+ noise, + ext);
    also returns a bound of the summed absolute values (tolerance scale)"""
    n = model.Nr[k]
    Q = np.zeros((n, n), dtype=complex)
    for j in range(model.K):
        if j == k:
            continue
        G = model.Hk(k) if jp else model.Hkl(k, j)
        for m in range(F[j].shape[1]):
            v = G.dot(F[j][:, m])
            Q += np.outer(v, v.conj())
    if noise:
        Q += noise * np.eye(n)
    if pe and model.NtE:
        He = model.Hext(k)
        for c in range(He.shape[1]):
            Q += pe * np.outer(He[:, c], He[:, c].conj())
    return Q


def _cmp_sinr(ctx, name, got, ref, tags, what):
    """got: library result (1-D object array of 1-D float arrays)"""
    K = len(ref)
    if not isinstance(got, np.ndarray) or got.shape != (K,):
        raise Violation(name + "_shape", "%s returned %r" % (
            what, getattr(got, "shape", type(got))), tags)
    for k in range(K):
        g = np.asarray(got[k], dtype=float)
        if g.shape != (len(ref[k]),):
            raise Violation(name + "_shape", "%s user %d: shape %r for %d "
                            "streams" % (what, k, g.shape, len(ref[k])), tags)
        for l, (s, amp) in enumerate(ref[k]):
            if not (g[l] >= 0.0 and math.isfinite(g[l])):
                raise Violation("sinr_nonneg_finite", "%s user %d stream %d "
                                "= %r" % (what, k, l, g[l]), tags)
            ctx.close(name, abs(g[l] - s) / s, RTOL * amp,
                      "%s user %d stream %d: reported %r, first principles "
                      "%r" % (what, k, l, float(g[l]), s), tags)


def _check_Q(ctx, name, Q, ref, tags, what):
    Q = np.asarray(Q)
    if Q.shape != ref.shape:
        raise Violation(name + "_shape", "%s shape %r expected %r" % (
            what, Q.shape, ref.shape), tags)
    scale = max(float(np.trace(ref).real), 1e-300)
    ctx.close(name + "_hermitian", float(np.max(np.abs(Q - Q.conj().T))),
              1e-12 * scale, what, tags)
    ctx.close(name + "_vs_sum", float(np.max(np.abs(Q - ref))), QTOL * scale,
              what + " != explicit sum of the interfering links", tags)
    ev = np.linalg.eigvalsh((Q + Q.conj().T) / 2.0)
    ctx.close(name + "_psd", max(0.0, -float(ev.min())), 1e-10 * scale,
              what + " min eigenvalue %r" % float(ev.min()), tags)


# ----------------------------------------------------------------------------
# check
# ----------------------------------------------------------------------------
def check(case, ctx):
    from pyphysim.channels import multiuser
    from pyphysim.ia.iabase import IASolverBaseClass

    class _Solver(IASolverBaseClass):
        def solve(self, Ns, P=None):  # abstract in the base class
            raise NotImplementedError

    ext = case["cls"] == "extint"
    Nr, Nt, Ns = case["Nr"], case["Nt"], case["Ns"]
    K = len(Nr)
    NtE = list(case["NtE"]) if ext else []
    E = len(NtE)
    noise = case["noise_var"]
    pe_arg = case["pe"] if ext else None       # None: default (1.0)
    pe = (1.0 if pe_arg is None else float(pe_arg)) if ext else 0.0
    tags = dict(cls=case["cls"], K=K, noise=("none" if noise is None else (
        "zero" if noise == 0 else "pos")), pl=case["pl"] is not None,
        init=case["init"])

    # ---- channel object and model ----------------------------------------
    rs = np.random.RandomState(int(case["chan_seed"]))
    ch = (multiuser.MultiUserChannelMatrixExtInt() if ext
          else multiuser.MultiUserChannelMatrix())
    ch.set_channel_seed(int(case["chan_seed"]))
    ch.set_noise_seed(0)
    aNr, aNt = np.array(Nr, dtype=int), np.array(Nt, dtype=int)
    args = [aNr, aNt, K] + ([np.array(NtE, dtype=int)] if ext else [])
    if case["pl"] is not None and case.get("reused_object"):
        # the channel OBJECT served another antenna split (same users) with
        # the same path loss before; it is then re-initialised and the path
        # loss is set again (what the apps do for every drop)
        ctx.label("channel_object_reused_with_other_split")
        prs0 = np.random.RandomState(int(case["pl"]))
        PL0 = 10.0 ** prs0.uniform(-3.0, 1.0, size=(K, K + E))
        Nr0, Nt0 = list(reversed(Nr)), list(reversed(Nt))
        args0 = [np.array(Nr0, dtype=int), np.array(Nt0, dtype=int), K] + \
            ([np.array(NtE, dtype=int)] if ext else [])
        ch.randomize(*args0)
        if ext:
            ch.set_pathloss(PL0[:, :K].copy(), PL0[:, K:].copy())
        else:
            ch.set_pathloss(PL0.copy())
        ch.big_H        # fill the lazily cached views
    if case["init"] == "matrix":
        raw = _randc(rs, sum(Nr), sum(Nt) + sum(NtE))
        ch.init_from_channel_matrix(raw.copy(), *args)
    else:
        ch.randomize(*args)
        raw = np.array(ch._big_H_no_pathloss, copy=True)
    big = raw
    ae = int(case.get("abs_exp", 0))
    if ae:
        # link budgets in Watt: every path loss and the noise carry one
        # common factor (the SINRs do not depend on it)
        ctx.label("absolute_scale_1e%d" % ae)
        if noise is not None:
            noise = noise * 10.0 ** ae
    if case["pl"] is not None or ae:
        prs = np.random.RandomState(int(case["pl"] or 0))
        PL = 10.0 ** prs.uniform(-3.0, 1.0, size=(K, K + E))
        if case["pl"] is None:
            PL = np.ones((K, K + E))
        PL = PL * 10.0 ** ae
        if ext:
            ch.set_pathloss(PL[:, :K].copy(), PL[:, K:].copy())
        else:
            ch.set_pathloss(PL.copy())
        big = raw * np.sqrt(np.repeat(np.repeat(PL, Nr, axis=0),
                                      list(Nt) + NtE, axis=1))
    if noise is not None:
        # the noise variance as the caller's number type (a Python float, an
        # int such as ``noise_var = 1``, or a numpy scalar)
        ntype = case.get("noise_type", "float")
        if ae and ntype in ("int", "np.int64"):
            ntype = "float"
        if ntype == "int":
            noise = float(max(1, int(round(noise))) if noise else 0)
            ch.noise_var = int(noise)
        elif ntype == "np.int64":
            noise = float(max(1, int(round(noise))) if noise else 0)
            ch.noise_var = np.int64(noise)
        elif ntype == "np.float32":
            noise = float(np.float32(noise))
            ch.noise_var = np.float32(noise)
        elif ntype == "np.float64":
            ch.noise_var = np.float64(noise)
        else:
            ch.noise_var = float(noise)
        ctx.label("noise_type=" + ntype)
    model = Model(Nr, Nt, NtE, big)
    if ext and case.get("second_object"):
        # another channel object of the same layout lives in the same
        # program (a second cluster / drop) and is evaluated first: what is
        # reported for ``ch`` is about the channel of ``ch``
        ctx.label("second_channel_object_alive")
        other = multiuser.MultiUserChannelMatrixExtInt()
        other.set_channel_seed(int(case["chan_seed"]) + 17)
        other.randomize(*args)
        other.noise_var = 0.5
        other.calc_cov_matrix_extint_plus_noise(*(
            [] if pe_arg is None else [float(pe_arg)]))
        other.calc_Q(0, _obj([np.ones((Nt[j], 1), dtype=complex)
                              for j in range(K)]),
                     *([] if pe_arg is None else [float(pe_arg)]))

    # ---- precoders / filters ---------------------------------------------
    frs = np.random.RandomState(int(case["f_seed"]))
    urs = np.random.RandomState(int(case["u_seed"]))
    pw = [float(p) for p in case["powers"]]
    F, Fjp, U = [], [], []
    for k in range(K):
        f = _randc(frs, Nt[k], Ns[k])
        F.append(f / np.linalg.norm(f) * math.sqrt(pw[k]))
        f = _randc(frs, sum(Nt), Ns[k])
        Fjp.append(f / np.linalg.norm(f) * math.sqrt(pw[k]))
        u = _randc(urs, Nr[k], Ns[k])
        U.append(u * 10.0 ** urs.uniform(-1.0, 1.0, size=(1, Ns[k])) *
                 10.0 ** int(case.get("u_exp", 0)))
    # non-zero complex rescaling of every receive vector
    U2 = [u * (10.0 ** urs.uniform(-2.0, 2.0, size=(1, u.shape[1])) *
               np.exp(2j * np.pi * urs.uniform(size=(1, u.shape[1]))))
          for u in U]

    overloaded = any(Ns[k] > min(Nr[k], Nt[k]) for k in range(K))
    ctx.label("cls=" + case["cls"], "K=%d" % K, "noise=" + tags["noise"],
              "pathloss" if tags["pl"] else "no_pathloss",
              "init=" + case["init"])
    ctx.label("maxNs=%d" % max(Ns))
    if len(set(Nr)) > 1 or len(set(Nt)) > 1:
        ctx.label("unequal_antennas")
    if len(set(Ns)) > 1:
        ctx.label("unequal_streams")
    if overloaded:
        ctx.label("overloaded(Ns>min(Nr,Nt))")
    if ext:
        ctx.label("pe=" + ("default" if pe_arg is None else (
            "zero" if pe == 0 else "pos")), "ext_sources=%d" % E)
    ctx.nontrivial(max(Ns) >= 2 or tags["pl"] or (ext and pe > 0))

    def pe_args():
        return [] if (not ext or pe_arg is None) else [float(pe_arg)]

    # ---- 1. channel object vs first principles (IC and JP) ---------------
    for jp, FF, fn, nm in ((False, F, ch.calc_SINR, "calc_SINR"),
                           (True, Fjp, ch.calc_JP_SINR, "calc_JP_SINR")):
        t = dict(tags, jp=jp)
        ref = _oracle_sinr(model, FF, U, noise, pe, jp)
        got = fn(_obj(FF), _obj(U), *pe_args())
        _cmp_sinr(ctx, "sinr_channel_vs_oracle", got, ref, t, nm)
        # rescaling the receive vectors changes nothing
        got2 = fn(_obj(FF), _obj(U2), *pe_args())
        _cmp_sinr(ctx, "sinr_rescale_invariance", got2, ref, t,
                  nm + " with rescaled receive filters")
        for k in range(K):
            for l in range(Ns[k]):
                a, b = float(got[k][l]), float(got2[k][l])
                ctx.close("sinr_rescale_lib_vs_lib", abs(a - b) / a,
                          2 * RTOL * ref[k][l][1], "%s user %d stream %d: "
                          "%r before, %r after rescaling U" % (nm, k, l, a,
                                                               b), t)
        # interference covariance matrices
        for k in range(K):
            qfn = ch.calc_JP_Q if jp else ch.calc_Q
            Q = qfn(k, _obj(FF), *pe_args())
            _check_Q(ctx, "Q", Q, _oracle_Q(model, k, FF, noise, pe, jp), t,
                     "%s(%d)" % ("calc_JP_Q" if jp else "calc_Q", k))
    if ext:
        R = ch.calc_cov_matrix_extint_plus_noise(*(
            [] if pe_arg is None else [float(pe_arg)]))
        if not isinstance(R, np.ndarray) or R.shape != (K,):
            raise Violation("Rext_shape", "calc_cov_matrix_extint_plus_noise "
                            "returned %r" % getattr(R, "shape", type(R)),
                            tags)
        empty = [np.zeros((Nt[j], 0)) for j in range(K)]
        for k in range(K):
            _check_Q(ctx, "Rext", R[k],
                     _oracle_Q(model, k, empty, noise, pe, False), tags,
                     "calc_cov_matrix_extint_plus_noise[%d]" % k)

    # ---- 3. (defined here, run last) the channel object changes AFTER
    # everything above was asked once: the answers follow the new channel
    def requery(sol=None):
        if not case.get("requery"):
            return
        ctx.label("requery_after_set_pathloss")
        prs2 = np.random.RandomState(int(case["chan_seed"]) + 4242)
        PL2 = 10.0 ** prs2.uniform(-3.0, 1.0, size=(K, K + E)) * 10.0 ** ae
        if ext:
            ch.set_pathloss(PL2[:, :K].copy(), PL2[:, K:].copy())
        else:
            ch.set_pathloss(PL2.copy())
        big2 = raw * np.sqrt(np.repeat(np.repeat(PL2, Nr, axis=0),
                                       list(Nt) + NtE, axis=1))
        model2 = Model(Nr, Nt, NtE, big2)
        t3 = dict(tags, jp=False, step="requery_after_set_pathloss")
        got = ch.calc_SINR(_obj(F), _obj(U), *pe_args())
        _cmp_sinr(ctx, "sinr_channel_vs_oracle", got,
                  _oracle_sinr(model2, F, U, noise, pe, False), t3,
                  "calc_SINR after set_pathloss")
        for k in range(K):
            _check_Q(ctx, "Q", ch.calc_Q(k, _obj(F), *pe_args()),
                     _oracle_Q(model2, k, F, noise, pe, False), t3,
                     "calc_Q(%d) after set_pathloss" % k)
        # the joint-processing pair answers for the new path loss too
        t4 = dict(t3, jp=True)
        _cmp_sinr(ctx, "sinr_channel_vs_oracle",
                  ch.calc_JP_SINR(_obj(Fjp), _obj(U), *pe_args()),
                  _oracle_sinr(model2, Fjp, U, noise, pe, True), t4,
                  "calc_JP_SINR after set_pathloss")
        for k in range(K):
            _check_Q(ctx, "Q", ch.calc_JP_Q(k, _obj(Fjp), *pe_args()),
                     _oracle_Q(model2, k, Fjp, noise, pe, True), t4,
                     "calc_JP_Q(%d) after set_pathloss" % k)
        if ext:
            R2 = ch.calc_cov_matrix_extint_plus_noise(*(
                [] if pe_arg is None else [float(pe_arg)]))
            empty2 = [np.zeros((Nt[j], 0)) for j in range(K)]
            for k in range(K):
                _check_Q(ctx, "Rext", R2[k],
                         _oracle_Q(model2, k, empty2, noise, pe, False), t3,
                         "calc_cov_matrix_extint_plus_noise[%d] after "
                         "set_pathloss" % k)
        if sol is not None:
            # the solver reads the channel object it was given: what it
            # reports for its current filters is about the current channel
            fFs = [np.array(x) for x in sol.full_F]
            fWs = [np.array(x) for x in sol.full_W]
            _cmp_sinr(ctx, "sinr_solver_vs_oracle", sol.calc_SINR(),
                      _oracle_sinr(model2, fFs, fWs, noise, 0.0, False), t3,
                      "solver.calc_SINR after the channel's set_pathloss")
            for k in range(K):
                _check_Q(ctx, "Q", sol.calc_Q(k),
                         _oracle_Q(model2, k, fFs, noise,
                                   1.0 if ext else 0.0, False), t3,
                         "solver.calc_Q(%d) after set_pathloss" % k)

    # ---- 2. IA solver vs channel object vs first principles --------------
    if overloaded:
        requery()
        return
    ctx.label("solver_checked", "load=" + case["load"])
    sol = _Solver(ch)
    P = np.array(pw, dtype=float) * float(case["p_margin"])
    if case["load"] == "full_F":
        sol.set_precoders(full_F=_obj([f.copy() for f in F]), P=P)
    else:
        P = np.array(pw, dtype=float)
        sol.set_precoders(F=_obj([f / np.linalg.norm(f) for f in F]), P=P)
    if case["w_as"] == "W":
        sol.set_receive_filters(W=_obj([u.copy() for u in U]))
    else:
        sol.set_receive_filters(W_H=_obj([u.conj().T.copy() for u in U]))
    t = dict(tags, jp=False, load=case["load"])
    s_sol = sol.calc_SINR()
    fF = [np.array(x) for x in sol.full_F]
    fW = [np.array(x) for x in sol.full_W]
    for k in range(K):
        if fF[k].shape != F[k].shape or fW[k].shape != U[k].shape:
            raise Violation("solver_filter_shape", "full_F/full_W shapes %r "
                            "%r" % (fF[k].shape, fW[k].shape), t)
        # the loaded precoder must be the one handed in (power included)
        ctx.close("solver_full_F", float(np.max(np.abs(fF[k] - F[k]))),
                  1e-12 * math.sqrt(pw[k]), "user %d" % k, t)
    ref_s = _oracle_sinr(model, fF, fW, noise, 0.0, False)
    _cmp_sinr(ctx, "sinr_solver_vs_oracle", s_sol, ref_s, t,
              "solver.calc_SINR")
    s_ch = ch.calc_SINR(_obj(fF), _obj(fW), *([0.0] if ext else []))
    _cmp_sinr(ctx, "sinr_channel_vs_oracle", s_ch, ref_s, t,
              "channel.calc_SINR(full_F, full_W)")
    for k in range(K):
        for l in range(Ns[k]):
            a, b = float(s_sol[k][l]), float(s_ch[k][l])
            ctx.close("sinr_solver_vs_channel", abs(a - b) / b,
                      2 * RTOL * ref_s[k][l][1], "user %d stream %d: solver "
                      "%r channel %r" % (k, l, a, b), t)
    # rescaled receive filters loaded into a second solver: same SINRs
    sol2 = _Solver(ch)
    sol2.set_precoders(full_F=_obj([f.copy() for f in F]), P=P)
    sol2.set_receive_filters(W=_obj([u.copy() for u in U2]))
    s_sol2 = sol2.calc_SINR()
    _cmp_sinr(ctx, "sinr_rescale_invariance", s_sol2, ref_s, t,
              "solver.calc_SINR with rescaled receive filters")
    # dB and sum capacity
    s_db = sol.calc_SINR_in_dB()
    flat = np.hstack([np.asarray(x, dtype=float) for x in s_sol])
    flat_db = np.hstack([np.asarray(x, dtype=float) for x in s_db])
    ctx.close("sinr_dB", float(np.max(np.abs(flat_db - 10 * np.log10(flat)))),
              1e-9, "calc_SINR_in_dB != 10 log10(calc_SINR)", t)
    cap = float(sol.calc_sum_capacity())
    capref = math.fsum(math.log2(1.0 + x) for x in flat)
    ctx.close("sum_capacity", abs(cap - capref), 1e-11 * (1.0 + capref),
              "calc_sum_capacity %r, sum log2(1+SINR) %r" % (cap, capref), t)
    # the library's stand-alone helper on the same SINRs, and on the SINRs
    # of a whole frame (sub-carriers x streams, 20..40 dB: more than 1024
    # bit/s/Hz in total)
    from pyphysim.util.misc import calc_shannon_sum_capacity
    c1 = float(calc_shannon_sum_capacity(flat.copy()))
    ctx.close("sum_capacity", abs(c1 - capref), 1e-11 * (1.0 + capref),
              "calc_shannon_sum_capacity %r, sum log2(1+SINR) %r" %
              (c1, capref), t)
    rsf = np.random.RandomState(int(case["chan_seed"]) % (2 ** 31) + 99)
    frame = 10.0 ** rsf.uniform(2.0, 4.0, size=(8 + K * 6, 8))
    c2 = float(calc_shannon_sum_capacity(frame.copy()))
    ref2 = math.fsum(math.log2(1.0 + x) for x in frame.reshape(-1))
    ctx.close("sum_capacity", abs(c2 - ref2), 1e-11 * (1.0 + ref2),
              "calc_shannon_sum_capacity of a %dx8 frame: %r, sum "
              "log2(1+SINR) %r" % (frame.shape[0], c2, ref2), t)
    ctx.label("sum_capacity_helper_and_frame")
    # solver.calc_Q: interference (+ noise, + external interference at the
    # default power 1) covariance of the loaded precoders
    for k in range(K):
        _check_Q(ctx, "Q", sol.calc_Q(k),
                 _oracle_Q(model, k, fF, noise, 1.0 if ext else 0.0, False),
                 t, "solver.calc_Q(%d)" % k)
    # reverse network (receivers transmit with their unit-norm filters and
    # the same powers): interference covariance at "receiver" k = sum over
    # the other users l of P[l] * H_lk^H W_l W_l^H H_lk
    sol3 = _Solver(ch)
    sol3.set_precoders(full_F=_obj([f.copy() for f in F]), P=P)
    Wn = [u / np.linalg.norm(u) for u in U]
    sol3.set_receive_filters(W=_obj([w.copy() for w in Wn]))
    Pv = np.asarray(sol3.P, dtype=float)
    for k in range(K):
        ref = np.zeros((Nt[k], Nt[k]), dtype=complex)
        for j in range(K):
            if j != k:
                G = model.Hkl(j, k).conj().T.dot(Wn[j])
                ref += Pv[j] * G.dot(G.conj().T)
        if float(np.trace(ref).real) > 0.0:
            _check_Q(ctx, "Q_rev", sol3.calc_Q_rev(k), ref, t,
                     "solver.calc_Q_rev(%d)" % k)
    ctx.label("reverse_network_Q")
    # power sweep as a user writes it: the caller updates ITS OWN power array
    # in place and assigns it again; the reported SINRs must be those of the
    # new powers (precoders scale with sqrt(P), everything was cached above)
    c = 4.0
    P_old = np.array(P, dtype=float, copy=True)
    P *= c
    sol.P = P
    t2 = dict(t, step="power_array_updated_in_place")
    ctx.label("repower_in_place")
    fF2 = [np.array(x) for x in sol.full_F]
    # documented relation: full_F[k] = F[k] * sqrt(P[k]), F[k] of unit norm
    want = [f / np.linalg.norm(f) * math.sqrt(c * P_old[k])
            for k, f in enumerate(fF)]
    for k in range(K):
        ctx.close("solver_full_F_after_power_change",
                  float(np.max(np.abs(fF2[k] - want[k]))),
                  1e-12 * math.sqrt(c * P_old[k]) + 1e-300, "user %d: full_F "
                  "does not follow the new power" % k, t2)
    fW2 = [np.array(x) for x in sol.full_W]
    ref2 = _oracle_sinr(model, want, fW2, noise, 0.0, False)
    _cmp_sinr(ctx, "sinr_solver_vs_oracle", sol.calc_SINR(), ref2, t2,
              "solver.calc_SINR after the power array was scaled in place "
              "and assigned again")
    requery(sol)


# ----------------------------------------------------------------------------
# generator
# ----------------------------------------------------------------------------
def _strategy(tier):
    kmax, amax = (4, 4) if tier == "quick" else (5, 6)
    ks = [2, 2, 3, 3, 4] + ([] if tier == "quick" else [5])

    @st.composite
    def cfg(draw):
        K = draw(st.sampled_from(ks))
        eq = draw(st.sampled_from([False, False, True]))
        ant = st.sampled_from([1, 2, 2, 3, 3, 4, 4] + list(range(5, amax + 1)))
        Nr = draw(st.lists(ant, min_size=K, max_size=K))
        Nt = draw(st.lists(ant, min_size=K, max_size=K))
        if eq:
            Nr, Nt = [Nr[0]] * K, [Nt[0]] * K
        over = draw(st.sampled_from([False] * 7 + [True]))
        Ns = []
        for k in range(K):
            top = 3 if over else min(3, Nr[k], Nt[k])
            Ns.append(draw(st.sampled_from(list(range(1, top + 1)))))
        cls = draw(st.sampled_from(["plain", "extint"]))
        return dict(
            part="sinr", cls=cls, Nr=Nr, Nt=Nt, Ns=Ns,
            NtE=draw(st.lists(st.integers(1, 2), min_size=1, max_size=2)),
            init=draw(st.sampled_from(["matrix", "matrix", "randomize"])),
            chan_seed=draw(seeds), f_seed=draw(seeds), u_seed=draw(seeds),
            pl=draw(st.one_of(st.none(), seeds)),
            noise_var=draw(st.one_of(st.none(), st.just(0.0),
                                     loguniform(-4, 1), loguniform(-4, 1))),
            reused_object=draw(st.sampled_from([False, False, True])),
            second_object=draw(st.sampled_from([False, False, True])),
            abs_exp=draw(st.sampled_from([0, 0, 0, -14, -10, -6])),
            u_exp=draw(st.sampled_from([0, 0, 0, -5, -8])),
            requery=draw(st.booleans()),
            noise_type=draw(st.sampled_from(["float", "float", "float", "int",
                                             "np.int64", "np.float32",
                                             "np.float64"])),
            pe=draw(st.one_of(st.none(), st.just(0.0), loguniform(-3, 2),
                              loguniform(-3, 2))),
            powers=[draw(st.one_of(st.just(1.0), loguniform(-2, 2)))
                    for _ in range(K)],
            p_margin=draw(st.sampled_from([1.0, 1.0, 1.5])),
            load=draw(st.sampled_from(["full_F", "F"])),
            w_as=draw(st.sampled_from(["W", "W_H"])))
    return cfg()


PARTS = [Part("sinr", _strategy, quick=3000, thorough=60000,
              quick_shards=8)]


# ----------------------------------------------------------------------------
# every direct library call made by this check must leave the arrays handed
# to it unchanged (core.GuardedCalls)
# ----------------------------------------------------------------------------
def _guard_targets():
    from pyphysim.channels import multiuser
    from pyphysim.ia import iabase
    t = []
    for cls in (multiuser.MultiUserChannelMatrix,
                multiuser.MultiUserChannelMatrixExtInt):
        t += [(cls, n) for n in ("calc_SINR", "calc_JP_SINR", "calc_Q",
                                 "calc_JP_Q",
                                 "calc_cov_matrix_extint_plus_noise",
                                 "set_pathloss", "init_from_channel_matrix")]
    t += [(iabase.IASolverBaseClass, n) for n in ("set_precoders",
                                                   "set_receive_filters")]
    return t


_unguarded_check = check


def check(case, ctx):  # noqa: F811
    from ..core import GuardedCalls
    with GuardedCalls(_guard_targets(), dict(part=case.get("part"))):
        return _unguarded_check(case, ctx)
