"""C15 - constellations are Gray labelled and Gray conversion is a bijection.

Parts
-----
tables       every PSK order 2..2^12 (+ BPSK, QPSK) and every square QAM order
             4..4^6 at construction, enumerated completely in every run
psk_offset   PSK(M, phaseOffset) for generated phase offsets
psk_history  PSK / QPSK object followed by 1..4 setPhaseOffset calls, adjacency
             checked after construction and after every call
gray         binary2gray / gray2binary relations on Python ints, numpy scalars
             and integer arrays (one relation per case, so that a known defect
             of one relation does not hide the others)
biterr       count_bit_errors(a, b[, axis]) against a Hamming-distance loop
"""
import math

import numpy as np
from hypothesis import strategies as st

from ..core import Part, Violation
from ..gens import fixed, fl

PROPERTY = "C15"
LEVEL = "exploration"
RULE = ("tables: every PSK order 2..4096 (plus BPSK/QPSK) and every square "
        "QAM order 4..4096 enumerated in every run; generated: PSK orders "
        "2^1..2^12 with phase offsets in [-2pi,2pi], multiples of pi/M and "
        "+-1e3, histories of 1..4 setPhaseOffset calls; integers in [0,2^62) "
        "biased to 2^k-1/2^k/2^k+1 and to the 16/32-bit limits as Python "
        "ints, numpy scalars and arrays (8 dtypes, 0..3 dims); pairs of "
        "equal-shape non-negative integer arrays with axis None or valid. "
        "non-trivial = constellation with M >= 16, or a case containing an "
        "integer >= 2^16; distinct = SHA-1 of the case description")
RULE += (" Added after the white-box review: "
         "every index array in C / Fortran / transposed / strided / "
         "read-only layout, negative axes, 64-bit values up to the "
         "dtype limit for bit-error counting ")
RULE += (" Added after the second white-box review: a 'long' part with "
         "arrays of 1e3..2e5 [2e6 thorough] elements of 8 integer types "
         "(round trips, n^(n>>1), bit-error totals and per-axis sums "
         "against vectorised references). ")

LEVEL_TEXT = ("All 20 (class, order) symbol tables the library can build in "
              "the quantified range are enumerated in every run and examined "
              "with a brute-force O(M^2) minimum-distance neighbour oracle; "
              "phase offsets, setPhaseOffset histories, integers for the code "
              "conversions and array pairs for bit-error counting are searched "
              "with seeded, sharded Hypothesis generation. Absence of "
              "violations outside the enumerated tables is not proven.")
LEVEL_NOTE = ("neighbour = pair whose distance is within 1e-9 relative of the "
              "global minimum distance; conversions and bit counts compared "
              "exactly; integers limited to [0, 2^62)")
TECHNIQUE = ("property-based testing (Hypothesis) + exhaustive enumeration of "
             "the finite table domain: brute-force neighbour oracle, "
             "round-trip (inverse) oracle, Hamming-distance loop")
ASSUMPTIONS = [
    "two symbols are 'at minimum distance' when their distance is <= "
    "d_min*(1+1e-9), d_min = smallest pairwise distance of the emitted table",
    "label of a symbol = its index in Modulator.symbols (what modulate() uses)",
    "integer arrays are given one numpy integer dtype per case with values "
    "that fit the dtype; signed/unsigned mixtures are not generated",
    "count_bit_errors is called with equal-shape operands (arrays) or two "
    "scalars of the same kind, as every caller in apps/ does",
]

TWO_PI = 2.0 * math.pi
MAXV = 2 ** 62 - 1
DTYPE_BITS = {"int64": 62, "uint64": 62, "int32": 31, "uint32": 32,
              "int16": 15, "uint16": 16, "int8": 7, "uint8": 8}


# ----------------------------------------------------------------------------
# generators
# ----------------------------------------------------------------------------
def _ints(bits):
    """integers in [0, 2^bits) biased to powers of two +-1 and 16/32-bit
    limits"""
    top = 2 ** bits - 1
    pow2 = st.tuples(st.integers(0, bits), st.sampled_from([-1, 0, 1])).map(
        lambda t: min(max(2 ** t[0] + t[1], 0), top))
    limits = st.sampled_from([0, 1, 255, 256, 2 ** 15, 2 ** 16 - 1, 2 ** 16,
                              2 ** 16 + 1, 2 ** 31 - 1, 2 ** 31, 2 ** 32 - 1,
                              2 ** 32, 2 ** 32 + 1, 2 ** 48 + 2 ** 16,
                              MAXV]).map(lambda v: min(v, top))
    return st.one_of(st.integers(0, top), pow2, limits,
                     st.integers(0, min(top, 2 ** 16 - 1)))


def _shape(tier):
    mx = 5 if tier == "quick" else 9
    return st.one_of(
        st.lists(st.integers(1, mx), min_size=1, max_size=3),
        st.lists(st.integers(0, 3), min_size=1, max_size=2),
        st.just([1]))


def _holder():
    """(kind, dtype, bit budget) - how the integers are handed to the library"""
    arr = st.sampled_from(sorted(DTYPE_BITS)).map(lambda d: ("array", d))
    arr64 = st.just(("array", "int64"))
    sca = st.sampled_from(["int64", "int64", "uint64", "int32", "uint8"]).map(
        lambda d: ("npscalar", d))
    py = st.just(("pyint", "pyint"))
    return st.one_of(py, arr64, arr, sca)


def _gray_strategy(tier):
    # strategies are built once, not per draw
    rels = st.sampled_from(["g2b_b2g", "b2g_g2b", "consecutive"])
    holder, shapes = _holder(), _shape(tier)
    bitcls = st.sampled_from([16, 32, 62, 62])
    ints = {b: _ints(b) for b in set(DTYPE_BITS.values()) | {16, 32, 62}}

    @st.composite
    def build(draw):
        rel = draw(rels)
        kind, dtype = draw(holder)
        cap = 62 if dtype == "pyint" else DTYPE_BITS[dtype]
        # a class of at most 16 / 32 / cap bits, so that small-value cases
        # exist on their own (not hidden behind a large element)
        bits = min(cap, draw(bitcls))
        shape = draw(shapes) if kind == "array" else []
        n = 1
        for s in shape:
            n *= s
        vals = [draw(ints[bits]) for _ in range(n)]
        if rel == "consecutive":        # n+1 must be representable as well
            top = 2 ** bits - 2
            vals = [min(v, top) for v in vals]
        return dict(part="gray", rel=rel, kind=kind, dtype=dtype,
                    shape=shape, values=vals,
                    layout=draw(st.sampled_from(_LAYOUTS)))
    return build()


def _mask(bits):
    return st.one_of(
        st.just(0),
        st.integers(0, bits - 1).map(lambda k: 1 << k),
        st.integers(0, 2 ** bits - 1),
        st.just(2 ** bits - 1))


def _biterr_strategy(tier):
    holder, shapes = _holder(), _shape(tier)
    bitcls = st.sampled_from([4, 12, 32, 62, 64])
    allbits = set(DTYPE_BITS.values()) | {4, 12, 32, 62, 63, 64}
    ints = {b: _ints(b) for b in allbits}
    # second operand: a xor mask (few bits / any), stays in [0, 2^bits)
    masks = {b: _mask(b) for b in allbits}
    bools = st.booleans()
    mixed = st.integers(0, 3).map(lambda v: v == 0)
    dtypes_b = st.sampled_from(sorted(DTYPE_BITS))
    axes = {k: st.integers(0, k - 1) for k in (1, 2, 3)}

    @st.composite
    def build(draw):
        kind, dtype = draw(holder)
        cap = 62 if dtype == "pyint" else DTYPE_BITS[dtype]
        # ("all pairs of non-negative integer arrays": the 64-bit types up
        # to their own limits)
        cap = {"uint64": 64, "int64": 63}.get(dtype, cap)
        bits = min(cap, draw(bitcls))
        shape = draw(shapes) if kind == "array" else []
        n = 1
        for s in shape:
            n *= s
        a = [draw(ints[bits]) for _ in range(n)]
        # the two index arrays need not have the same integer dtype: in a
        # quarter of the array cases the second operand gets another dtype
        # (only pairs numpy can xor as integers; values fit their own dtype)
        dtype_b = dtype
        bits_b = bits
        if kind == "array" and draw(mixed):
            dtype_b = draw(dtypes_b)
            if np.result_type(getattr(np, dtype),
                              getattr(np, dtype_b)).kind not in "iu":
                dtype_b = dtype
            bits_b = min(DTYPE_BITS[dtype_b], draw(bitcls))
        d = [draw(masks[bits_b]) for _ in range(n)]
        b = [(x & (2 ** bits_b - 1)) ^ y for x, y in zip(a, d)]
        axis = None
        if kind == "array" and draw(bools):
            axis = draw(axes[len(shape)])
        # memory layout of the second array (same logical values)
        layout_b = "C"
        if kind == "array" and len(shape) >= 2 and draw(mixed):
            layout_b = "F"
        if axis is not None and draw(mixed):
            axis = axis - len(shape)        # the same axis counted from the end
        return dict(part="biterr", kind=kind, dtype=dtype, dtype_b=dtype_b,
                    shape=shape, a=a, b=b, axis=axis, layout_b=layout_b,
                    layout_a=draw(st.sampled_from(_LAYOUTS)),
                    layout_b2=draw(st.sampled_from(_LAYOUTS)))
    return build()


def _phase():
    """phase offset = x + m*pi/M (m integer); resolved in check()"""
    x = st.one_of(st.just(0.0), fl(-TWO_PI, TWO_PI), fl(-TWO_PI, TWO_PI),
                  st.sampled_from([math.pi / 4, -math.pi / 2, math.pi,
                                   TWO_PI, -TWO_PI, 1e-15, -1e-15, 1e-9]),
                  fl(-1e3, 1e3))
    m = st.one_of(st.just(0), st.just(0), st.integers(-4, 4),
                  st.integers(-10000, 10000))
    return st.tuples(x, m).map(list)


def _k(tier):
    if tier == "quick":
        return st.sampled_from([1, 2, 2, 3, 3, 4, 4, 5, 5, 6, 6, 7, 7, 8, 8,
                                9, 10, 11, 12])
    return st.integers(1, 12)


def _psk_offset_strategy(tier):
    return fixed(part=st.just("psk_offset"), k=_k(tier), phase=_phase())


def _psk_history_strategy(tier):
    return fixed(part=st.just("psk_history"),
                 cls=st.sampled_from(["PSK", "PSK", "PSK", "QPSK"]),
                 k=_k(tier), phase=_phase(),
                 offsets=st.lists(_phase(), min_size=1, max_size=4))


def _tables(tier):
    cases = [dict(part="tables", cls="BPSK", M=2),
             dict(part="tables", cls="QPSK", M=4)]
    cases += [dict(part="tables", cls="PSK", M=2 ** k) for k in range(1, 13)]
    cases += [dict(part="tables", cls="QAM", M=4 ** k) for k in range(1, 7)]
    return cases


PARTS = [
    Part("long", enumerate=lambda tier: _long_cases(tier), quick_shards=4),
    Part("tables", enumerate=_tables, exhaustive=True, quick_shards=8),
    Part("psk_offset", _psk_offset_strategy, quick=400, thorough=20000,
         quick_shards=8),
    Part("psk_history", _psk_history_strategy, quick=240, thorough=12000,
         quick_shards=8),
    Part("gray", _gray_strategy, quick=6000, thorough=400000),
    Part("biterr", _biterr_strategy, quick=3000, thorough=200000),
]


# ----------------------------------------------------------------------------
# oracles (independent of pyphysim)
# ----------------------------------------------------------------------------
def _popcount(v):
    return bin(v).count("1")


def _ref_b2g(n):
    return n ^ (n >> 1)


def _chain_8421(n):
    """what a shift chain 8,4,2,1 computes (prefix xor over 16-bit windows):
    the fingerprint of suspected defect #15, NOT a reference"""
    t = n ^ (n >> 8)
    t ^= t >> 4
    t ^= t >> 2
    t ^= t >> 1
    return t


def _neighbour_pairs(sym):
    """All ordered pairs (i, j), i != j, whose distance is within 1e-9
    relative of the smallest pairwise distance.  Brute force over all M^2
    pairs, in row blocks to bound memory.  -> (d_min, I, J)"""
    x = np.ascontiguousarray(sym.real, dtype=float)
    y = np.ascontiguousarray(sym.imag, dtype=float)
    M = x.size
    blk = 256
    best = math.inf
    for r0 in range(0, M, blk):
        r1 = min(M, r0 + blk)
        d2 = (x[r0:r1, None] - x[None, :]) ** 2 + \
            (y[r0:r1, None] - y[None, :]) ** 2
        d2[np.arange(r1 - r0), np.arange(r0, r1)] = np.inf
        best = min(best, float(d2.min()))
    thr = best * (1.0 + 1e-9) ** 2
    Is, Js = [], []
    for r0 in range(0, M, blk):
        r1 = min(M, r0 + blk)
        d2 = (x[r0:r1, None] - x[None, :]) ** 2 + \
            (y[r0:r1, None] - y[None, :]) ** 2
        d2[np.arange(r1 - r0), np.arange(r0, r1)] = np.inf
        i, j = np.nonzero(d2 <= thr)
        Is.append(i + r0)
        Js.append(j)
    return math.sqrt(best), np.concatenate(Is), np.concatenate(Js)


def _psk_labelling(sym, phase):
    """'natural' when label i sits at angle phase + 2*pi*i/M, 'reflected_gray'
    when it sits at position gray2binary(i); else 'other'"""
    M = sym.size
    step = TWO_PI / M
    pos = np.rint(np.mod(np.angle(sym) - phase, TWO_PI) / step).astype(
        np.int64) % M
    lab = np.arange(M, dtype=np.int64)
    if np.array_equal(pos, lab):
        return "natural"
    if np.array_equal(_ref_b2g(pos), lab):
        return "reflected_gray"
    return "other"


def _qam_labelling(sym):
    """grid coordinates of every label from the ranks of the real / imaginary
    parts; 'b2g_of_label_halves' is today's table (row = binary2gray(high half
    of the label), col = binary2gray(low half))"""
    M = sym.size
    L = int(round(math.sqrt(M)))
    k = L.bit_length() - 1
    re = np.round(sym.real / (np.abs(sym.real).min() or 1.0)).astype(np.int64)
    im = np.round(sym.imag / (np.abs(sym.imag).min() or 1.0)).astype(np.int64)
    ure, uim = np.unique(re), np.unique(-im)
    if ure.size != L or uim.size != L:
        return "not_a_grid"
    col = np.searchsorted(ure, re)
    row = np.searchsorted(uim, -im)
    lab = np.arange(M, dtype=np.int64)
    hi, lo = lab >> k, lab & (L - 1)
    if np.array_equal(row, _ref_b2g(hi)) and np.array_equal(col, _ref_b2g(lo)):
        return "b2g_of_label_halves" if L > 4 else "reflected_gray"
    if np.array_equal(_ref_b2g(row), hi) and np.array_equal(_ref_b2g(col), lo):
        return "reflected_gray"
    if np.array_equal(row, hi) and np.array_equal(col, lo):
        return "natural"
    return "other"


def _check_gray_table(ctx, sym, cls, M, stage, phase=None):
    sym = np.asarray(sym)
    tags = dict(cls=cls, M=M, stage=stage)
    if sym.shape != (M,):
        raise Violation("table_size", "symbols has shape %r, expected (%d,)" %
                        (sym.shape, M), tags)
    dmin, I, J = _neighbour_pairs(sym.astype(complex))
    if not dmin > 0:
        raise Violation("distinct_points",
                        "two labels share one constellation point", tags)
    x = I ^ J
    ham = np.zeros(x.shape, dtype=np.int64)
    for b in range(int(M).bit_length()):
        ham += (x >> b) & 1
    bad = np.nonzero(ham != 1)[0]
    ctx.count("neighbour_pairs_examined", int(I.size))
    if bad.size:
        if cls == "QAM":
            tags["labelling"] = _qam_labelling(sym)
        else:
            tags["labelling"] = _psk_labelling(sym, phase)
        i, j = int(I[bad[0]]), int(J[bad[0]])
        # the labelling fingerprint is part of the bucket: a table that is
        # wrong in a different way is a different root cause
        raise Violation(
            "gray_adjacency:%s:%s:%s" % (cls, stage, tags["labelling"]),
            "%s M=%d %s: %d of %d nearest-neighbour pairs differ in != 1 bit, "
            "e.g. labels %d (%s) and %d (%s) at distance %.6g = d_min" %
            (cls, M, stage, bad.size, I.size, i, bin(i), j, bin(j), dmin),
            tags)


# ----------------------------------------------------------------------------
# check
# ----------------------------------------------------------------------------
def _resolve_phase(p, M):
    return float(p[0]) + int(p[1]) * math.pi / M


def _check_tables(case, ctx):
    from pyphysim.modulators import fundamental as f
    cls, M = case["cls"], int(case["M"])
    if cls == "BPSK":
        mod = f.BPSK()
    elif cls == "QPSK":
        mod = f.QPSK()
    elif cls == "PSK":
        mod = f.PSK(M)
    else:
        mod = f.QAM(M)
    ctx.label("table:%s" % cls, "table:%s-%d" % (cls, M))
    ctx.nontrivial(M >= 16)
    phase = {"QPSK": math.pi / 4}.get(cls, 0.0)
    _check_gray_table(ctx, mod.symbols, "PSK" if cls in ("BPSK", "QPSK")
                      else cls, M, "construction", phase)


def _mlabel(M):
    return "M=2" if M == 2 else ("M=4..8" if M <= 8 else (
        "M=16..256" if M <= 256 else "M>=512"))


def _check_psk_offset(case, ctx):
    from pyphysim.modulators import fundamental as f
    M = 2 ** int(case["k"])
    phase = _resolve_phase(case["phase"], M)
    ctx.label("psk_offset:" + _mlabel(M))
    ctx.label("offset:zero" if phase == 0 else (
        "offset:pi/M_multiple" if case["phase"][1] else (
            "offset:wide" if abs(phase) > TWO_PI else "offset:generic")))
    ctx.nontrivial(M >= 16)
    mod = f.PSK(M, phase)
    _check_gray_table(ctx, mod.symbols, "PSK", M, "construction", phase)


def _check_psk_history(case, ctx):
    from pyphysim.modulators import fundamental as f
    if case["cls"] == "QPSK":
        M = 4
        mod = f.QPSK()
        phase = math.pi / 4
    else:
        M = 2 ** int(case["k"])
        phase = _resolve_phase(case["phase"], M)
        mod = f.PSK(M, phase)
    ctx.label("history:" + _mlabel(M), "history:len=%d" % len(case["offsets"]))
    ctx.nontrivial(M >= 16)
    _check_gray_table(ctx, mod.symbols, "PSK", M, "construction", phase)
    for p in case["offsets"]:
        phase = _resolve_phase(p, M)
        mod.setPhaseOffset(phase)
        if mod.M != M:
            raise Violation("order_changed", "M %r after setPhaseOffset of a "
                            "PSK-%d" % (mod.M, M), dict(cls="PSK", M=M))
        _check_gray_table(ctx, mod.symbols, "PSK", M, "after_setPhaseOffset",
                          phase)


def _hold(values, kind, dtype, shape):
    if kind == "pyint":
        return int(values[0])
    if kind == "npscalar":
        return getattr(np, dtype)(values[0])
    return np.array(values, dtype=getattr(np, dtype)).reshape(shape)


def _relayout(arr, layout):
    """the same logical array in another memory layout"""
    if not isinstance(arr, np.ndarray) or arr.ndim == 0 or layout == "C":
        return arr
    if layout == "F":
        return np.asfortranarray(arr)
    if layout == "T":
        # a transposed view of a C-ordered array (what ``x.T`` gives)
        return np.ascontiguousarray(arr.T).T
    if layout == "strided":
        big = np.zeros(arr.shape[:-1] + (2 * arr.shape[-1] + 1,),
                       dtype=arr.dtype)
        big[..., 1::2] = arr
        return big[..., 1::2]
    if layout == "readonly":
        out = arr.copy()
        out.flags.writeable = False
        return out
    raise AssertionError(layout)


_LAYOUTS = ["C", "C", "C", "F", "T", "strided", "readonly"]


def _unhold(out, kind, shape, what, tags):
    """library output -> flat list of Python ints (shape checked)"""
    if kind == "array":
        if not isinstance(out, np.ndarray) or list(out.shape) != list(shape):
            raise Violation("result_shape", "%s returned %s of shape %r for "
                            "an array of shape %r" %
                            (what, type(out).__name__,
                             getattr(out, "shape", None), shape), tags)
        if out.dtype.kind not in "iu":
            raise Violation("result_dtype", "%s returned dtype %s" %
                            (what, out.dtype), tags)
        return [int(v) for v in out.reshape(-1).tolist()]
    if np.ndim(out) != 0 or not isinstance(out, (int, np.integer)):
        raise Violation("result_shape", "%s returned %r for a scalar" %
                        (what, out), tags)
    return [int(out)]


def _bits_label(vals):
    mb = max([v.bit_length() for v in vals] + [0])
    return "bits<=16" if mb <= 16 else ("bits17..32" if mb <= 32
                                        else "bits33..62")


def _check_gray(case, ctx):
    from pyphysim.util.conversion import binary2gray, gray2binary
    rel, kind, dtype = case["rel"], case["kind"], case["dtype"]
    shape = case["shape"]
    vals = [int(v) for v in case["values"]]
    tags = dict(rel=rel, kind=kind, dtype=dtype)
    ctx.label("gray:" + rel, "gray:" + kind, "gray:" + _bits_label(vals))
    if kind == "array":
        ctx.label("gray:dtype=" + dtype, "gray:ndim=%d" % len(shape))
        if not vals:
            ctx.label("gray:empty_array")
    ctx.nontrivial(any(v >= 2 ** 16 for v in vals))
    lay = case.get("layout", "C") if kind == "array" and vals else "C"
    if lay != "C":
        ctx.label("gray:layout=" + lay)
    x = _relayout(_hold(vals, kind, dtype, shape), lay)

    if rel == "consecutive":
        x1 = _relayout(_hold([v + 1 for v in vals], kind, dtype, shape), lay)
        g0 = _unhold(binary2gray(x), kind, shape, "binary2gray", tags)
        g1 = _unhold(binary2gray(x1), kind, shape, "binary2gray", tags)
        for v, a, b in zip(vals, g0, g1):
            if a < 0 or b < 0 or _popcount(a ^ b) != 1:
                tags["fail_bits"] = (v + 1).bit_length()
                raise Violation(
                    "consecutive_one_bit",
                    "binary2gray(%d)=%d and binary2gray(%d)=%d differ in %d "
                    "bits (%s, %s)" % (v, a, v + 1, b, _popcount(a ^ b),
                                       kind, dtype), tags)
        return

    if rel == "g2b_b2g":
        out = gray2binary(binary2gray(x))
        what = "gray2binary(binary2gray(n))"
        model = [_chain_8421(_ref_b2g(v)) for v in vals]
    else:
        out = binary2gray(gray2binary(x))
        what = "binary2gray(gray2binary(n))"
        model = [_ref_b2g(_chain_8421(v)) for v in vals]
    got = _unhold(out, kind, shape, what, tags)
    if kind == "array":
        # the user compares the result with the array he passed in: that
        # array must still hold his integers
        x_after = [int(v) for v in np.asarray(x).reshape(-1).tolist()]
        if x_after != vals:
            raise Violation("conversion_modified_its_argument", "%s changed "
                            "the array handed to it (%d of %d elements)" %
                            (what, sum(a != b for a, b in zip(x_after, vals)),
                             len(vals)), tags)
    wrong = [(v, g) for v, g in zip(vals, got) if v != g]
    if wrong:
        tags["fail_min_bits"] = min(v.bit_length() for v, _ in wrong)
        tags["defect_model"] = ("shift_chain_8_4_2_1" if got == model
                                else "other")
        v, g = min(wrong)
        raise Violation(
            "%s_roundtrip:%s" % (rel, tags["defect_model"]),
            "%s = %d for n = %d (%d bits; %s, %s); %d of %d elements wrong" %
            (what, g, v, v.bit_length(), kind, dtype, len(wrong), len(vals)),
            tags)


def _check_biterr(case, ctx):
    from pyphysim.util.misc import count_bit_errors
    kind, dtype, shape = case["kind"], case["dtype"], case["shape"]
    a = [int(v) for v in case["a"]]
    b = [int(v) for v in case["b"]]
    axis = case["axis"]
    tags = dict(kind=kind, dtype=dtype, axis=("none" if axis is None
                                              else "given"))
    ctx.label("biterr:" + kind, "biterr:" + _bits_label(a + b),
              "biterr:axis=%s" % ("None" if axis is None else "int"))
    if kind == "array":
        ctx.label("biterr:dtype=" + dtype, "biterr:ndim=%d" % len(shape))
        if not a:
            ctx.label("biterr:empty_array")
    if a == b:
        ctx.label("biterr:identical")
    ctx.nontrivial(any(v >= 2 ** 16 for v in a + b))

    ham = [_popcount(x ^ y) for x, y in zip(a, b)]
    dtype_b = case.get("dtype_b", dtype)
    if dtype_b != dtype:
        ctx.label("biterr:mixed_dtypes")
        tags["dtype_b"] = dtype_b
    hb = _hold(b, kind, dtype_b, shape)
    if case.get("layout_b", "C") == "F" and kind == "array":
        hb = np.asfortranarray(hb)
        ctx.label("biterr:second_fortran_order")
    ha = _hold(a, kind, dtype, shape)
    if kind == "array" and a and "layout_a" in case:
        la, lb = case["layout_a"], case["layout_b2"]
        ha = _relayout(ha, la)
        if case.get("layout_b", "C") != "F":
            hb = _relayout(hb, lb)
        if la != "C" or lb != "C":
            ctx.label("biterr:layouts=%s/%s" % (la, lb))
    if axis is not None and axis < 0:
        ctx.label("biterr:negative_axis")
        axis_lib = axis
        axis = axis + len(shape)
    else:
        axis_lib = axis
    res = count_bit_errors(ha, hb) if axis is None \
        else count_bit_errors(ha, hb, axis_lib)
    if axis is None:
        if np.ndim(res) != 0:
            raise Violation("biterr_shape", "result of shape %r without axis"
                            % (np.shape(res),), tags)
        if int(res) != sum(ham) or res != sum(ham):
            raise Violation(
                "biterr_total", "count_bit_errors = %r, Hamming distance = %d"
                " (a=%r b=%r %s %s)" % (res, sum(ham), a[:6], b[:6], kind,
                                        dtype), tags)
        return
    # own reduction along `axis` (row-major flat index arithmetic)
    oshape = [s for d, s in enumerate(shape) if d != axis]
    expect = {}
    for flat, idx in enumerate(np.ndindex(*shape)):
        key = tuple(v for d, v in enumerate(idx) if d != axis)
        expect[key] = expect.get(key, 0) + ham[flat]
    res = np.asarray(res)
    if list(res.shape) != oshape:
        raise Violation("biterr_shape", "result shape %r, expected %r (input "
                        "%r, axis %d)" % (res.shape, oshape, shape, axis),
                        tags)
    for key in np.ndindex(*oshape):
        if int(res[key]) != expect.get(key, 0):
            raise Violation(
                "biterr_axis", "count_bit_errors(..., axis=%d)[%r] = %r, "
                "Hamming sum = %d (shape %r)" %
                (axis, key, res[key], expect.get(key, 0), shape), tags)


def _popcount_vec(x):
    """number of set bits per element of a uint64 array (byte table of
    np.unpackbits; independent of the library's count_bits)"""
    b = x.astype("<u8").view(np.uint8).reshape(x.shape + (8,))
    return np.unpackbits(b, axis=-1).sum(axis=-1).astype(np.int64)


def _check_long(case, ctx):
    """arrays of 1e3..3e5 elements (where an implementation is tempted to
    work block by block): round trips, one-bit law, bit-error totals and
    per-axis sums against vectorised reference formulas"""
    from pyphysim.util.conversion import binary2gray, gray2binary
    from pyphysim.util.misc import count_bit_errors
    n, dtype, bits = int(case["n"]), case["dtype"], int(case["bits"])
    rs = np.random.RandomState(int(case["seed"]))
    tags = dict(part="long", dtype=dtype, n_class=len(str(n)))
    ctx.label("long:n~1e%d" % (len(str(n)) - 1), "long:dtype=" + dtype,
              "long:bits=%d" % bits)
    ctx.nontrivial(True)
    hi = rs.randint(0, 2 ** 31, size=n).astype(np.uint64)
    lo = rs.randint(0, 2 ** 31, size=n).astype(np.uint64)
    full = (hi << np.uint64(31)) | lo
    a = (full & np.uint64(2 ** bits - 1))
    hi = rs.randint(0, 2 ** 31, size=n).astype(np.uint64)
    lo = rs.randint(0, 2 ** 31, size=n).astype(np.uint64)
    b = (((hi << np.uint64(31)) | lo) & np.uint64(2 ** bits - 1))
    shape = tuple(case["shape"])
    A = a.astype(dtype).reshape(shape)
    B = b.astype(dtype).reshape(shape)
    A0 = A.copy()
    # round trips
    g = np.asarray(binary2gray(A))
    back = np.asarray(gray2binary(g))
    if back.shape != A.shape or not np.array_equal(back.astype(np.uint64),
                                                   a.reshape(shape)):
        k = int(np.flatnonzero(back.reshape(-1).astype(np.uint64) != a)[0]) \
            if back.shape == A.shape else -1
        raise Violation("g2b_b2g_roundtrip:long", "gray2binary(binary2gray) "
                        "of %d elements (%s): first wrong element at flat "
                        "index %d" % (n, dtype, k), tags)
    ref_g = a ^ (a >> np.uint64(1))
    if not np.array_equal(g.astype(np.uint64), ref_g.reshape(shape)):
        raise Violation("binary2gray_value:long", "binary2gray of %d "
                        "elements (%s) differs from n ^ (n >> 1)" %
                        (n, dtype), tags)
    b2 = np.asarray(binary2gray(gray2binary(A)))
    if not np.array_equal(b2.astype(np.uint64), a.reshape(shape)):
        raise Violation("b2g_g2b_roundtrip:long", "binary2gray(gray2binary) "
                        "of %d elements (%s)" % (n, dtype), tags)
    if not np.array_equal(A, A0):
        raise Violation("conversion_modified_its_argument", "a conversion "
                        "changed the %d-element array handed to it" % n, tags)
    # one transmitted frame against several decoded copies: the operands
    # have different but broadcastable shapes
    if len(shape) == 1 and n >= 2000:
        rows = 3
        a3 = np.stack([np.roll(a, k) for k in range(rows)])
        A3 = a3.astype(dtype)
        want3 = int(_popcount_vec(a3 ^ b[np.newaxis, :]).sum())
        for x, y, what in ((A3, B, "(3,n) vs (n,)"),
                           (B, A3, "(n,) vs (3,n)")):
            got3 = count_bit_errors(x, y)
            if np.ndim(got3) != 0 or int(got3) != want3:
                raise Violation("biterr_total", "count_bit_errors of "
                                "broadcastable shapes %s (%s): %r, Hamming "
                                "distance %d" % (what, dtype, got3, want3),
                                tags)
        ctx.label("long:broadcast_operands")
    # bit errors: total and per axis
    ham = _popcount_vec(a ^ b).reshape(shape)
    tot = count_bit_errors(A, B)
    if np.ndim(tot) != 0 or int(tot) != int(ham.sum()) or tot != ham.sum():
        raise Violation("biterr_total", "count_bit_errors of %d elements "
                        "(%s, shape %r) = %r, Hamming distance = %d" %
                        (n, dtype, shape, tot, int(ham.sum())), tags)
    for axis in range(len(shape)):
        ax = axis if axis % 2 == 0 else axis - len(shape)
        res = np.asarray(count_bit_errors(A, B, ax))
        want = ham.sum(axis=axis)
        if res.shape != want.shape or not np.array_equal(
                res.astype(np.int64), want):
            raise Violation("biterr_axis", "count_bit_errors(..., axis=%d) "
                            "of shape %r (%s): wrong sums" % (ax, shape,
                                                              dtype), tags)
    ctx.count("long_elements", n)


def _long_cases(tier):
    sizes = [(1000, [1000]), (4096, [64, 64]), (4097, [4097]),
             (9000, [3, 3000]), (65536, [65536]), (70001, [70001]),
             (131072, [2, 256, 256]), (200000, [200000])]
    if tier == "thorough":
        sizes += [(300007, [300007]), (1000000, [1000, 1000]),
                  (2 ** 21 + 3, [2 ** 21 + 3]), (8193, [8193]),
                  (12288, [3, 4096])]
    cases = []
    dts = [("uint8", 8), ("uint16", 16), ("int32", 31), ("uint32", 32),
           ("int64", 63), ("uint64", 64), ("int64", 20), ("uint64", 1)]
    for i, (n, shape) in enumerate(sizes):
        for j in range(3 if tier == "quick" else len(dts)):
            dtype, bits = dts[(i + 3 * j) % len(dts)]
            cases.append(dict(part="long", n=n, shape=shape, dtype=dtype,
                              bits=bits, seed=5000 + 17 * i + j))
    return cases


_DISPATCH = {"long": _check_long, "tables": _check_tables, "psk_offset": _check_psk_offset,
             "psk_history": _check_psk_history, "gray": _check_gray,
             "biterr": _check_biterr}


def check(case, ctx):
    _DISPATCH[case["part"]](case, ctx)


# ----------------------------------------------------------------------------
# every direct library call made by this check must leave the arrays handed
# to it unchanged (core.GuardedCalls)
# ----------------------------------------------------------------------------
def _guard_targets():
    from pyphysim.util import conversion, misc
    return [(conversion, "binary2gray"), (conversion, "gray2binary"),
            (misc, "count_bit_errors"), (misc, "count_bits")]


_unguarded_check = check


def check(case, ctx):  # noqa: F811
    from ..core import GuardedCalls
    with GuardedCalls(_guard_targets(), dict(part=case.get("part"))):
        return _unguarded_check(case, ctx)
