"""C03 - TDL channel output is the convolution with the impulse response it
reports (time domain, frequency domain, multi-user, profile discretisation).

Parts
  time     single link (TdlChannel / TdlMimoChannel / SuChannel /
           SuMimoChannel), histories of time-domain transmissions
  freq     single link, histories with frequency-domain transmissions and all
           ways of selecting sub-carriers
  slices   complete enumeration of slice(start, stop, step) selections for
           small fft sizes (SISO, two blocks)
  mu       MuChannel / MuMimoChannel, both domains
  profile  TdlChannelProfile.get_discretize_profile alone (random and COST259)

Conventions taken from the code/tests (not from the statement):
  * a tap value is indexed by the time of the INPUT sample:
    y[k + l] += h[l, k] * x[k]
  * MIMO responses have shape (taps, Nr, Nt, samples); with
    switched_direction the signal has Nr rows and the output Nt rows
    (y[t] += h[l, r, t, k] * x[r, k])
  * MuChannel.get_last_impulse_response(i, j) always addresses the link object
    [i, j] of the ORIGINAL direction; with switched direction the receiver j
    gets sum_i link[i, j](x[i])
"""
import math

import numpy as np
from hypothesis import strategies as st

from ..core import Part, Violation
from ..gens import fl, loguniform, seeds

PROPERTY = "C03"
LEVEL = "exploration"
RULE = ("case = tap profile (1..8 taps, delay/Ts in [0,20] (thorough 60): "
        "generic / integer / colliding / single delayed tap / equal delays / "
        "near .5 ties / first tap late / COST259 TU,RA,HT at drawn Ts; input "
        "order as drawn) x fading generator (Jakes with Fd*Ts in {0} u "
        "[1e-4,5e-2], L 1..16, seeded RandomState; Rayleigh with the global "
        "RNG seeded from the case) x wrapper and antennas (SISO, (Nr,Nt) in "
        "{1..3}^2 with Nr!=Nt forced in half of the MIMO cases) x history of "
        "1..3 transmissions (complex128, integer, complex64 or float32 "
        "samples) interleaved with switched_direction / path-loss "
        "changes (None, 1e-6..1, 1e-18..1e-10, exactly 0 and 1); frequency domain: fft > channel memory (12%: <=), selection "
        "None / index list or array (unsorted, optionally repeated) / slice "
        "incl. "
        "negative and non-dividing steps, 1..4 blocks; multi-user: N int or "
        "(n_rx,n_tx) in {1..3}^2, SISO or MIMO links, path-loss matrix. "
        "non-trivial = >=2 discretised taps and at least one of {Nr!=Nt, "
        "switched, path loss, colliding taps, index/step>1 selection, second "
        "transmission, >=2 links}; for the profile part: colliding taps or "
        ">=2 taps given unsorted. distinct = SHA-1 of the case description")
RULE += (" Added after the white-box review: "
         "default fading generator for the single-user channels, "
         "per-transmitter list signals (multi-user, frequency domain), "
         "carriers counted from the end, path loss as int / float32 ")
RULE += (" Added after the second white-box review: 15 % of the multi-"
         "user cases have ONE transmitter and 2..3 receivers (directly or "
         "after a direction switch) with a 1-D time-domain signal of 2..12 "
         "samples first (label mu_one_tx_1d_time); the path loss of the "
         "NEXT transmission may be set before the response of the previous "
         "one is asked for. ")

LEVEL_TEXT = ("Generated-input search (Hypothesis, seeded, sharded) over tap "
              "profiles, fading generators, antenna set-ups, wrappers and "
              "transmission histories. Oracles: per-input-sample time-varying "
              "convolution with the dense reported response; explicit DFT "
              "matrix restricted to the carriers selected by plain Python "
              "list indexing; superposition on identically seeded twin "
              "channels; block time base against an identically seeded "
              "time-domain twin; independent discretisation of the profile. "
              "All slice selections are enumerated completely for small fft "
              "sizes. Absence of violations is not proven.")
LEVEL_NOTE = ("float64; tolerances 1e-10 relative to max|x|*max|h|*terms "
              "(observed <= 2e-15)")
TECHNIQUE = ("property-based testing (Hypothesis): reference model "
             "(convolution / DFT), metamorphic twins (superposition, block "
             "time base), exhaustive enumeration of slice selections")
ASSUMPTIONS = [
    "when the reported response is at least as long as fft_size (class "
    "fft<=memory, ~10% of the frequency domain transmissions) 'the DFT of the "
    "reported response' is taken as sum_l h_l exp(-2 pi i k l / fft) over ALL "
    "taps (aliasing), the behaviour of get_freq_response since commit "
    "7f16ddc (before it np.fft.fft truncated; C02 defect #2)",
    "tap delays >= 0, tap powers in [-120, 0] dB, path loss in (0, 1], "
    "selections pick at least one carrier with indexes in [0, fft_size)",
    "delays closer than 1e-9 (relative) to a rounding tie k+0.5 are excluded "
    "from the comparison of discretised indexes/powers and counted "
    "(tie_excluded); the structural checks still apply",
    "Jakes positions stay below 1e5 samples (the arange defect of C14 is not "
    "in scope); the block time base check allows the generator's own 1e-10 "
    "relative drift of the time axis",
    "superposition is tested with identically seeded twins: RandomState(seed) "
    "for Jakes given to single-link channels, np.random.seed(seed) for "
    "Rayleigh and for the generators MuChannel clones itself",
]

QUICK_BUDGET_S = 300   # ~100 CPU-s in total; only reached on a loaded host
THOROUGH_BUDGET_S = 1500

COST = {"TU": "COST259_TUx", "RA": "COST259_RAx", "HT": "COST259_HTx"}
COST_MAXDELAY = {"TU": 2140e-9, "RA": 528e-9, "HT": 18016e-9}


# ============================================================================
# strategies (plain data only)
# ============================================================================
def _p(draw, prob):
    """True with probability ~prob (st.floats is far from uniform)"""
    # (sampled_from over-represents the first and last element: keep the
    # "True" window away from both ends)
    k = draw(st.sampled_from(range(100)))
    return (k - 30) % 100 < int(round(prob * 100))


def _tier_umax(tier):
    return 20.0 if tier == "quick" else 60.0


def _u_lists(tier):
    """delays in units of Ts, by class -> (cls, list)"""
    umax = _tier_umax(tier)
    nmax = 8
    generic = st.lists(fl(0.0, umax), min_size=1, max_size=nmax)
    ints = st.lists(st.integers(0, int(umax)).map(float), min_size=1,
                    max_size=nmax)
    collide = st.lists(st.tuples(st.integers(0, 6), fl(-0.45, 0.45)),
                       min_size=2, max_size=nmax) \
        .map(lambda l: [max(0.0, b + o) for b, o in l])
    single = fl(0.3, umax).map(lambda x: [x])
    equal = st.tuples(fl(0.3, umax), st.integers(2, 4)) \
        .map(lambda t: [t[0]] * t[1])
    tie = st.lists(st.tuples(st.integers(0, 10),
                             st.sampled_from([0.0, 1e-3, -1e-3, 1e-6, -1e-6,
                                              1e-8, -1e-8, 1e-12])),
                   min_size=1, max_size=5) \
        .map(lambda l: [k + 0.5 + d for k, d in l])
    late = st.lists(fl(2.6, umax), min_size=2, max_size=nmax)
    flat = st.just([0.0])

    def tag(name, s):
        return s.map(lambda l: (name, l))
    return st.one_of(tag("generic", generic), tag("generic", generic),
                     tag("generic", generic), tag("ints", ints),
                     tag("collide", collide), tag("collide", collide),
                     tag("single_delayed", single), tag("equal", equal),
                     tag("tie", tie), tag("late", late), tag("flat", flat))


@st.composite
def _profile(draw, tier, p_cost=0.12):
    """-> dict(mode, cls, u, p_dB, cost, Ts, mem_ub)"""
    if _p(draw, p_cost):
        name = draw(st.sampled_from(["TU", "RA", "HT"]))
        m = draw(fl(0.6, 25.0 if tier == "quick" else 70.0))
        Ts = COST_MAXDELAY[name] / m
        mode = draw(st.sampled_from(["profile", "discretized"]))
        return dict(mode=mode, cls="cost259", cost=name, u=None, p_dB=None,
                    Ts=Ts, mem_ub=int(math.ceil(m)) + 1)
    cls, u = draw(_u_lists(tier))
    if draw(st.booleans()) and cls not in ("tie",):
        u = sorted(u)
    # (also very weak taps: 60 .. 120 dB below the strongest one)
    p = draw(st.lists(st.one_of(fl(-30.0, 0.0), fl(-30.0, 0.0),
                                st.sampled_from([0.0, -3.0, -40.0]),
                                fl(-120.0, -60.0),
                                st.sampled_from([-60.0, -80.0, -100.0])),
                      min_size=len(u), max_size=len(u)))
    Ts = draw(st.one_of(loguniform(-8, -2), loguniform(-8, -2),
                        st.sampled_from([1.0, 1e-3, 1e-6, 3.255e-8])))
    mode = draw(st.sampled_from(["arrays", "arrays", "profile",
                                 "discretized"]))
    return dict(mode=mode, cls=cls, cost=None, u=u, p_dB=p, Ts=Ts,
                mem_ub=int(math.ceil(max(u))) + 1)


def _fading(jakes_only=False):
    jakes = st.fixed_dictionaries(dict(
        kind=st.just("jakes"),
        fdts=st.one_of(st.just(0.0), loguniform(-4, -1.3),
                       loguniform(-4, -1.3), loguniform(-4, -1.3)),
        L=st.integers(1, 16), seed=seeds))
    if jakes_only:
        return jakes
    return st.one_of(jakes, jakes,
                     st.fixed_dictionaries(dict(kind=st.just("rayleigh"))))


@st.composite
def _antennas(draw, tier):
    amax = 3 if tier == "quick" else 4
    r = draw(st.sampled_from(["siso", "siso", "siso", "rect", "rect", "rect",
                              "rect", "any", "any", "any"]))
    if r == "siso":
        return None
    nr = draw(st.integers(1, amax))
    nt = draw(st.integers(1, amax))
    if r == "rect" and nr == nt:
        nt = nt % amax + 1
    return [nr, nt]


def _signal(tier):
    return st.fixed_dictionaries(dict(
        kind=st.sampled_from(["randn", "randn", "randn", "impulse", "ones",
                              "int", "c64", "f32"]),
        seed=seeds, amp=st.sampled_from([1.0, 1.0, 1e-3, 1e3])))


@st.composite
def _slice_sel(draw, fft, tier):
    smax = 5 if tier == "quick" else 9
    mode = draw(st.sampled_from(["div", "div", "negdiv", "raw", "raw"]))
    if mode == "div":
        s = draw(st.integers(1, smax))
        a = draw(st.integers(0, fft - 1))
        if (fft - a) // s < 1:
            s = 1
        k = draw(st.integers(1, (fft - a) // s))
        stop = a + k * s
        start = a
        if draw(st.booleans()) and a > 0:
            start = a - fft          # negative alias of the same position
        if stop == fft and draw(st.booleans()):
            stop = None
        if start == 0 and draw(st.booleans()):
            start = None
        step = s
        if s == 1 and draw(st.booleans()):
            step = None
    elif mode == "negdiv":
        s = draw(st.integers(1, smax))
        a = draw(st.integers(0, fft - 1))
        if (a + 1) // s < 1:
            s = 1
        k = draw(st.integers(1, (a + 1) // s))
        stop = a - k * s
        if stop == -1:
            stop = None
        start, step = a, -s
        if a == fft - 1 and draw(st.booleans()):
            start = None
    else:
        lim = st.one_of(st.none(), st.integers(-fft - 2, fft + 2),
                        st.integers(-fft - 2, fft + 2))
        start, stop = draw(lim), draw(lim)
        step = draw(st.one_of(st.none(), st.integers(1, smax),
                              st.integers(1, smax),
                              st.integers(-smax, -1)))
        if len(range(fft)[slice(start, stop, step)]) == 0:
            start, stop = stop, start
        if len(range(fft)[slice(start, stop, step)]) == 0:
            start, stop = None, None
    return dict(kind="slice", start=start, stop=stop, step=step)


@st.composite
def _selection(draw, fft, tier):
    k = draw(st.sampled_from(["none", "index", "index", "slice", "slice",
                              "slice"]))
    if k == "none":
        return dict(kind="none")
    if k == "slice":
        return draw(_slice_sel(fft, tier))
    dup = _p(draw, 0.15)
    idx = draw(st.lists(st.integers(0, fft - 1), min_size=1,
                        max_size=fft + (3 if dup else 0), unique=not dup))
    if dup:     # make sure at least one carrier really is repeated
        idx = idx + [idx[draw(st.integers(0, len(idx) - 1))]]
    if _p(draw, 0.25):
        # carriers counted from the end, numpy style (np.r_[-26:0, 1:27])
        idx = [i - fft if draw(st.booleans()) else i for i in idx]
    return dict(kind="index", idx=idx,
                as_=draw(st.sampled_from(["list", "array"])))


def _sel_count(sel, fft):
    if sel["kind"] == "none":
        return fft
    if sel["kind"] == "index":
        return len(sel["idx"])
    return len(range(fft)[slice(sel["start"], sel["stop"], sel["step"])])


@st.composite
def _tx_time(draw, tier):
    nmax = 40 if tier == "quick" else 200
    n = draw(st.one_of(st.integers(1, 12), st.integers(1, nmax)))
    return dict(op="time", n=n, sig=draw(_signal(tier)),
                oned=draw(st.booleans()))


@st.composite
def _tx_freq(draw, tier, mem_ub):
    extra = 40 if tier == "quick" else 200
    if mem_ub >= 2 and _p(draw, 0.12):
        # response at least as long as the FFT (taps alias modulo fft_size)
        fft = draw(st.integers(2, mem_ub))
    else:
        fft = draw(st.one_of(st.integers(mem_ub + 1, mem_ub + 8),
                             st.integers(mem_ub + 1, mem_ub + extra)))
    fft = max(fft, 2)
    sel = draw(_selection(fft, tier))
    nb = draw(st.integers(1, 4 if tier == "quick" else 8))
    return dict(op="freq", fft=fft, sel=sel, nb=nb, sig=draw(_signal(tier)),
                oned=draw(st.booleans()))


@st.composite
def _history(draw, tier, mem_ub, freq, can_pl, plm=None):
    ntx = draw(st.integers(1, 3))
    forced = draw(st.integers(0, ntx - 1))
    ops = []
    for i in range(ntx):
        if _p(draw, 0.3):
            ops.append(dict(op="switch", v=draw(st.booleans())))
        if can_pl and _p(draw, 0.35):
            ops.append(dict(op="pl", v=draw(st.one_of(
                st.none(), loguniform(-6, 0), loguniform(-6, 0),
                loguniform(-18, -10), st.just(1.0), st.just(0.0))),
                # the path loss of the NEXT transmission is set before the
                # response of the previous one is asked for
                early=draw(st.booleans())))
        if plm is not None and _p(draw, 0.35):
            none = _p(draw, 0.12)
            ops.append(dict(op="plm", v=None if none else draw(st.lists(
                st.one_of(loguniform(-6, 0), loguniform(-6, 0),
                          loguniform(-6, 0), loguniform(-18, -10),
                          st.just(0.0), st.just(1.0)),
                min_size=plm, max_size=plm)), early=draw(st.booleans())))
        if freq and (i == forced or _p(draw, 0.6)):
            ops.append(draw(_tx_freq(tier, mem_ub)))
        else:
            ops.append(draw(_tx_time(tier)))
    return ops


def _cplx():
    return st.tuples(fl(-2.0, 2.0), fl(-2.0, 2.0)).map(list)


@st.composite
def _single_case(draw, tier, part):
    prof = draw(_profile(tier))
    ant = draw(_antennas(tier))
    if ant is None:
        wrap = draw(st.sampled_from(["tdl", "su", "su"]))
    else:
        wrap = draw(st.sampled_from(["tdl", "tdlmimo", "su", "su",
                                     "sumimo"]))
    fad = draw(_fading())
    ops = draw(_history(tier, prof["mem_ub"], part == "freq",
                        wrap in ("su", "sumimo")))
    return dict(part=part, profile=prof, fading=fad, ant=ant, wrap=wrap,
                pass_Ts=draw(st.booleans()), np_seed=draw(seeds), ops=ops,
                default_gen=draw(st.booleans()),
                alpha=draw(_cplx()), beta=draw(_cplx()))


@st.composite
def _mu_case(draw, tier):
    prof = draw(_profile(tier))
    if draw(st.booleans()):
        N = draw(st.sampled_from([1, 2, 2, 3]))
        n_rx = n_tx = N
    else:
        n_rx = draw(st.sampled_from([1, 2, 2, 3]))
        n_tx = draw(st.sampled_from([1, 2, 2, 3]))
        N = [n_rx, n_tx]
    ant = None
    if _p(draw, 0.45):
        ant = draw(_antennas(tier)) or [2, 1]
    fad = draw(st.one_of(st.fixed_dictionaries(dict(kind=st.just("default"))),
                         _fading()))
    one_tx = _p(draw, 0.15)
    if one_tx:
        # ONE transmitter, two or three receivers (or the reverse followed by
        # a direction switch), single-antenna links, and the documented 1-D
        # signal of n >= 2 samples in a time-domain transmission first
        k = draw(st.sampled_from([2, 2, 3]))
        rev = draw(st.booleans())
        n_rx, n_tx = (1, k) if rev else (k, 1)
        N = [n_rx, n_tx]
        ant = None
    ops = draw(_history(tier, prof["mem_ub"], True, False,
                        plm=n_rx * n_tx))
    if one_tx:
        first = dict(op="time", n=draw(st.integers(2, 12)),
                     sig=draw(_signal(tier)), oned=True)
        ops = ([dict(op="switch", v=True)] if rev else []) + [first] + ops
    return dict(part="mu", profile=prof, fading=fad, N=N, ant=ant,
                pass_Ts=draw(st.booleans()), np_seed=draw(seeds), ops=ops,
                alpha=draw(_cplx()), beta=draw(_cplx()))


@st.composite
def _profile_case(draw, tier):
    prof = draw(_profile(tier, p_cost=0.2))
    return dict(part="profile", profile=prof)


def _enum_slices(tier):
    """every slice(start, stop, step) that selects >= 1 carrier"""
    ffts = [6] if tier == "quick" else [5, 6, 8, 9]
    out = []
    for fft in ffts:
        lims = [None] + list(range(-fft - 2, fft + 3))
        steps = [None] + [s for s in range(-4, 5) if s != 0]
        for a in lims:
            for b in lims:
                for s in steps:
                    if len(range(fft)[slice(a, b, s)]) == 0:
                        continue
                    out.append(dict(
                        part="slices",
                        profile=dict(mode="arrays", cls="enum", cost=None,
                                     u=[0.0, 2.0], p_dB=[0.0, -3.0],
                                     Ts=1e-3, mem_ub=3),
                        fading=dict(kind="jakes", fdts=0.01, L=3,
                                    seed=fft * 1000 + len(out) % 7),
                        ant=None, wrap="tdl", pass_Ts=False, np_seed=1,
                        ops=[dict(op="freq", fft=fft, nb=2, oned=True,
                                  sel=dict(kind="slice", start=a, stop=b,
                                           step=s),
                                  sig=dict(kind="randn", seed=len(out),
                                           amp=1.0))],
                        alpha=[1.0, 0.5], beta=[-0.5, 2.0]))
    return out


PARTS = [
    Part("time", lambda tier: _single_case(tier, "time"),
         quick=1600, thorough=50000),
    Part("freq", lambda tier: _single_case(tier, "freq"),
         quick=1800, thorough=60000),
    Part("mu", _mu_case, quick=800, thorough=25000),
    Part("profile", _profile_case, quick=2000, thorough=100000),
    Part("slices", enumerate=_enum_slices, exhaustive=True, quick_shards=4),
]


# ============================================================================
# oracles (no pyphysim code below this line except where stated)
# ============================================================================
def _tagged(tags, fn, *a, **k):
    """Call library code; attach the case facts to whatever it raises so
    that the failure can be matched against known findings."""
    try:
        return fn(*a, **k)
    except Exception as exc:  # noqa
        if not isinstance(exc, Violation):
            old = dict(getattr(exc, "vpbt_tags", {}) or {})
            old.update(tags)
            exc.vpbt_tags = old
        raise


def _profile_inputs(prof, fading_mod):
    """-> (p_dB list, delays list (seconds), library profile object or None)"""
    if prof["cost"] is not None:
        obj = getattr(fading_mod, COST[prof["cost"]])
        return ([float(x) for x in obj.tap_powers_dB],
                [float(x) for x in obj.tap_delays], obj)
    Ts = prof["Ts"]
    return [float(x) for x in prof["p_dB"]], \
        [float(x) * Ts for x in prof["u"]], None


def _oracle_profile(p_dB, delays, Ts):
    """Independent discretisation.  -> dict(idx, pw, tie, collide)"""
    q = [d / Ts for d in delays]
    tie = any(abs((x - math.floor(x)) - 0.5) <= 1e-9 * max(1.0, x) for x in q)
    k = [int(math.floor(x + 0.5)) for x in q]
    lin = [10.0 ** (x / 10.0) for x in p_dB]
    tot = math.fsum(lin)
    idx = sorted(set(k))
    pw = [math.fsum(l for l, kk in zip(lin, k) if kk == i) / tot for i in idx]
    return dict(idx=idx, pw=pw, tie=tie, collide=len(idx) < len(k),
                unsorted=any(a > b for a, b in zip(delays, delays[1:])))


def _degenerate(delays):
    hi, lo = max(delays), min(delays)
    return bool(hi > 0 and (hi - lo) <= 1e-5 * hi)


def _check_profile(pobj, orc, Ts, ctx, tags):
    """pobj: discretised TdlChannelProfile returned by the library"""
    d = np.asarray(pobj.tap_delays)
    pw = np.asarray(pobj.tap_powers_linear, dtype=float)
    pdb = np.asarray(pobj.tap_powers_dB, dtype=float)
    if d.ndim != 1 or d.size < 1 or pw.shape != d.shape \
            or pdb.shape != d.shape:
        raise Violation("disc_shape", "delays %r powers %r" %
                        (d.shape, pw.shape), tags)
    if not np.issubdtype(d.dtype, np.integer):
        raise Violation("disc_integer", "delay dtype %s" % d.dtype, tags)
    dl = [int(x) for x in d]
    if any(b <= a for a, b in zip(dl, dl[1:])) or dl[0] < 0:
        raise Violation("disc_sorted_unique", "delays %r" % dl, tags)
    ctx.close("disc_sum_to_one", abs(math.fsum(pw) - 1.0), 1e-12, "", tags)
    if pobj.Ts != Ts or not pobj.is_discretized:
        raise Violation("disc_Ts", "profile.Ts=%r, expected %r" %
                        (pobj.Ts, Ts), tags)
    if pobj.num_taps != len(dl) or pobj.num_taps_with_padding != dl[-1] + 1:
        raise Violation("disc_num_taps", "num_taps=%r with_padding=%r for "
                        "delays %r" % (pobj.num_taps,
                                       pobj.num_taps_with_padding, dl), tags)
    if orc["tie"]:
        ctx.label("tie_excluded")
        return dl
    if dl != orc["idx"]:
        raise Violation("disc_delays", "library %r, expected %r" %
                        (dl, orc["idx"]), tags)
    err = max(abs(a - b) for a, b in zip(pw, orc["pw"]))
    ctx.close("disc_powers", err, 1e-12,
              "library %r expected %r" % (pw.tolist(), orc["pw"]), tags)
    edb = max(abs(a - 10.0 * math.log10(b)) for a, b in zip(pdb, orc["pw"]))
    ctx.close("disc_powers_dB", edb, 1e-9, "", tags)
    return dl


def _make_signal(sig, shape, variant):
    """variant 0: as described; variant 1: an unrelated complex signal"""
    rs = np.random.RandomState((sig["seed"] + 7919 * variant) % (2**31 - 1))
    kind = sig["kind"] if variant == 0 else "randn"
    if kind == "randn":
        x = (rs.standard_normal(shape) + 1j * rs.standard_normal(shape)) \
            * sig["amp"]
    elif kind == "ones":
        x = np.ones(shape) * sig["amp"]
    elif kind == "int":
        x = rs.randint(0, 10, shape)
    elif kind == "c64":
        # single-precision samples (what a file of recorded IQ data holds);
        # the values are exact in double precision too
        x = ((rs.standard_normal(shape) + 1j * rs.standard_normal(shape))
             * sig["amp"]).astype(np.complex64)
    elif kind == "f32":
        x = (rs.standard_normal(shape) * sig["amp"]).astype(np.float32)
    else:  # impulse: one non-zero sample per row
        x = np.zeros(shape, dtype=complex)
        flat = x.reshape(-1, shape[-1])
        for row in flat:
            row[rs.randint(0, shape[-1])] = sig["amp"]
    return x


def _ref_time(dense, x, mimo, switched):
    """y[k+l] += h[l, k] x[k]: every input sample excites the response that is
    valid at ITS time instant.  dense: (Ld, n) or (Ld, Nr, Nt, n)"""
    Ld, n = dense.shape[0], x.shape[-1]
    if not mimo:
        x = np.reshape(x, (n,))
        y = np.zeros(n + Ld - 1, dtype=complex)
        for k in range(n):
            y[k:k + Ld] += dense[:, k] * x[k]
        return y
    nr, nt = dense.shape[1], dense.shape[2]
    x = np.reshape(x, (nr if switched else nt, n))
    y = np.zeros((nt if switched else nr, n + Ld - 1), dtype=complex)
    for k in range(n):
        hk = dense[:, :, :, k]                       # (Ld, Nr, Nt)
        if switched:
            c = np.einsum("lrt,r->tl", hk, x[:, k])
        else:
            c = np.einsum("lrt,t->rl", hk, x[:, k])
        y[:, k:k + Ld] += c
    return y


def _ref_freq(dense, x, fft, ks, mimo, switched):
    """per block b: Y[j] = sum_l h[l, b] exp(-2 pi i k_j l / fft) * X[j]"""
    Ld, nb = dense.shape[0], dense.shape[-1]
    bs = len(ks)
    expo = (np.outer(np.asarray(ks, dtype=np.int64),
                     np.arange(Ld, dtype=np.int64)) % fft)
    W = np.exp(-2j * np.pi * expo / float(fft))       # (bs, Ld)
    n = bs * nb
    if not mimo:
        x = np.reshape(x, (n,))
        y = np.zeros(n, dtype=complex)
        for b in range(nb):
            H = W.dot(dense[:, b])
            y[b * bs:(b + 1) * bs] = H * x[b * bs:(b + 1) * bs]
        return y
    nr, nt = dense.shape[1], dense.shape[2]
    x = np.reshape(x, (nr if switched else nt, n))
    y = np.zeros((nt if switched else nr, n), dtype=complex)
    for b in range(nb):
        H = np.tensordot(W, dense[..., b], axes=(1, 0))   # (bs, Nr, Nt)
        xb = x[:, b * bs:(b + 1) * bs]
        if switched:
            y[:, b * bs:(b + 1) * bs] = np.einsum("jrt,rj->tj", H, xb)
        else:
            y[:, b * bs:(b + 1) * bs] = np.einsum("jrt,tj->rj", H, xb)
    return y


def _sel_obj(sel):
    if sel["kind"] == "none":
        return None
    if sel["kind"] == "index":
        if sel["as_"] == "array":
            return np.array(sel["idx"], dtype=int)
        return list(sel["idx"])
    return slice(sel["start"], sel["stop"], sel["step"])


def _sel_carriers(sel, fft):
    """the selected carriers by plain Python list indexing"""
    allk = list(range(fft))
    if sel["kind"] == "none":
        return allk
    if sel["kind"] == "index":
        return [allk[i] for i in sel["idx"]]
    return allk[slice(sel["start"], sel["stop"], sel["step"])]


def _sel_tags(sel, fft):
    t = dict(sel_kind=sel["kind"])
    if sel["kind"] == "slice":
        a, b, s = slice(sel["start"], sel["stop"], sel["step"]).indices(fft)
        t["step_divides_span"] = bool((b - a) % s == 0)
        t["step"] = s
    return t


def _read_ir(ir):
    return dict(sparse=np.array(ir.tap_values_sparse),
                dense=np.array(ir.tap_values),
                idx=[int(i) for i in np.asarray(ir.tap_indexes_sparse)],
                nsamp=int(ir.num_samples))


def _check_ir_structure(r, exp_idx, ant, nsamp, tags):
    sparse, dense, idx = r["sparse"], r["dense"], r["idx"]
    if exp_idx is not None and idx != exp_idx:
        raise Violation("ir_tap_indexes", "reported %r expected %r" %
                        (idx, exp_idx), tags)
    mid = tuple(ant) if ant else ()
    if sparse.shape != (len(idx),) + mid + (nsamp,):
        raise Violation("ir_sparse_shape", "%r, expected %r" % (
            sparse.shape, (len(idx),) + mid + (nsamp,)), tags)
    if dense.shape != (idx[-1] + 1,) + mid + (nsamp,) or r["nsamp"] != nsamp:
        raise Violation("ir_dense_shape", "%r num_samples=%r, expected %r" % (
            dense.shape, r["nsamp"], (idx[-1] + 1,) + mid + (nsamp,)), tags)
    if not np.array_equal(dense[idx], sparse):
        raise Violation("ir_dense_vs_sparse", "dense[idx] != sparse", tags)
    mask = np.ones(dense.shape[0], dtype=bool)
    mask[idx] = False
    if np.any(dense[mask] != 0):
        raise Violation("ir_dense_padding", "non-zero padded tap", tags)


def _scale(dense, x, nin):
    hx = float(np.max(np.abs(dense))) if dense.size else 0.0
    xx = float(np.max(np.abs(x))) if np.size(x) else 0.0
    nz = int(np.count_nonzero(np.max(np.abs(dense).reshape(
        dense.shape[0], -1), axis=1))) or 1
    return max(hx * xx * nz * max(nin, 1), 1e-300)


# ============================================================================
# single link: build + run a history
# ============================================================================
class _Single(object):
    """A single-link channel object of the library plus what the harness
    knows about its configuration."""

    def __init__(self, case):
        from pyphysim.channels import fading, fading_generators, singleuser
        self.case = case
        prof, fad = case["profile"], case["fading"]
        Ts = prof["Ts"]
        p_dB, delays, cost_obj = _profile_inputs(prof, fading)
        self.tags = dict(part=case["part"], wrap=case["wrap"],
                         fad=fad["kind"], mimo=case["ant"] is not None,
                         prof_cls=prof["cls"],
                         degenerate_delays=_degenerate(delays),
                         n_taps_in=len(delays))
        self.orc = _oracle_profile(p_dB, delays, Ts)
        self.Ts = Ts
        self.ant = list(case["ant"]) if case["ant"] else None
        self.switched = False
        self.pl = None
        self.pos = 0                       # generator position in samples
        self.fdts = fad.get("fdts", 0.0)
        wrap = case["wrap"]
        np.random.seed(case["np_seed"])
        # profile arguments
        kw = {}
        if prof["mode"] == "arrays":
            kw = dict(tap_powers_dB=np.array(p_dB),
                      tap_delays=np.array(delays))
        else:
            pobj = cost_obj if cost_obj is not None else _tagged(
                self.tags, fading.TdlChannelProfile, np.array(p_dB),
                np.array(delays))
            if prof["mode"] == "discretized":
                pobj = _tagged(self.tags, pobj.get_discretize_profile, Ts)
            kw = dict(channel_profile=pobj)
        shape = None
        if self.ant and wrap != "sumimo":
            shape = tuple(self.ant)
        if fad["kind"] == "jakes":
            gen = fading_generators.JakesSampleGenerator(
                fad["fdts"] / Ts, Ts, fad["L"], shape=shape,
                RS=np.random.RandomState(fad["seed"]))
            ts_arg = Ts if case["pass_Ts"] else None
        else:
            gen = fading_generators.RayleighSampleGenerator(shape=shape)
            ts_arg = Ts
            if prof["mode"] == "discretized" and not case["pass_Ts"]:
                ts_arg = None
            if case.get("default_gen") and (
                    wrap == "sumimo" or (wrap == "su" and shape is None)):
                # no generator given: the single-user channels create their
                # default one
                gen = None
                self.tags["default_generator"] = True
        if wrap == "tdl":
            ch = _tagged(self.tags, fading.TdlChannel, gen, Ts=ts_arg, **kw)
        elif wrap == "tdlmimo":
            ch = _tagged(self.tags, fading.TdlMimoChannel, gen, Ts=ts_arg,
                         **kw)
        elif wrap == "su":
            ch = _tagged(self.tags, singleuser.SuChannel, gen, Ts=ts_arg,
                         **kw)
        else:
            nr, nt = self.ant
            ch = _tagged(self.tags, singleuser.SuMimoChannel, max(nr, nt),
                         gen, Ts=ts_arg, **kw)
            if nr != nt:
                ch.set_num_antennas(nr, nt)
        self.ch = ch

    # ------------------------------------------------------------------
    def n_in(self):
        if not self.ant:
            return None
        return self.ant[0] if self.switched else self.ant[1]

    def n_out(self):
        if not self.ant:
            return None
        return self.ant[1] if self.switched else self.ant[0]

    def sig_shape(self, n, oned):
        nin = self.n_in()
        if nin is None or (nin == 1 and oned):
            return (n,)
        return (nin, n)

    def config(self, op):
        if op["op"] == "switch":
            self.ch.switched_direction = bool(op["v"])
            self.switched = bool(op["v"])
        elif op["op"] == "pl":
            v = op["v"]
            if v is not None and v in (0.0, 1.0) and \
                    self.case["np_seed"] % 2 == 0:
                v = int(v)              # 'set_pathloss(1)'
                self.tags["pathloss_python_int"] = True
            elif v is not None and self.case["np_seed"] % 3 == 0:
                v = np.float32(v)       # an element of a float32 array
                op = dict(op, v=float(v))
                self.tags["pathloss_float32"] = True
            self.ch.set_pathloss(v)
            self.pl = op["v"]


def _run_single(case, variant):
    """variant: 0 -> x1, 1 -> x2, 2 -> alpha x1 + beta x2, 3 -> time base
    twin (every frequency domain transmission replaced by the time domain
    transmission of nb*fft zeros).  -> (link, list of records)"""
    link = _Single(case)
    al = complex(*case["alpha"])
    be = complex(*case["beta"])
    recs = []
    ops = list(case["ops"])
    done_early = set()
    for oi, op in enumerate(ops):
        if oi in done_early:
            continue
        if op["op"] in ("switch", "pl"):
            link.config(op)
            continue
        tags = dict(link.tags, op=op["op"], switched=link.switched,
                    pathloss=link.pl is not None)
        rec = dict(op=op, switched=link.switched, pl=link.pl, tags=tags,
                   pos=link.pos)
        if op["op"] == "time" or variant == 3:
            n = op["n"] if op["op"] == "time" else op["nb"] * op["fft"]
            shape = link.sig_shape(n, op["oned"])
            if variant == 3:
                x = np.zeros(shape, dtype=complex)
            else:
                x1 = _make_signal(op["sig"], shape, 0)
                x = x1 if variant == 0 else _make_signal(op["sig"], shape, 1)
                if variant == 2:
                    x = al * np.asarray(x1, dtype=complex) + \
                    be * np.asarray(x, dtype=complex)
            y = _tagged(tags, link.ch.corrupt_data, x)
            link.pos += n
        else:
            fft = op["fft"]
            tags.update(_sel_tags(op["sel"], fft))
            ks = _sel_carriers(op["sel"], fft)
            n = len(ks) * op["nb"]
            shape = link.sig_shape(n, op["oned"])
            x1 = _make_signal(op["sig"], shape, 0)
            x = x1 if variant == 0 else _make_signal(op["sig"], shape, 1)
            if variant == 2:
                x = al * np.asarray(x1, dtype=complex) + \
                    be * np.asarray(x, dtype=complex)
            y = _tagged(tags, link.ch.corrupt_data_in_freq_domain, x, fft,
                        _sel_obj(op["sel"]))
            link.pos += fft * op["nb"]
            rec["ks"] = ks
        rec["x"] = x
        rec["y"] = np.array(y)
        nxt = oi + 1
        while nxt < len(ops) and ops[nxt]["op"] == "switch":
            nxt += 1
        if nxt < len(ops) and ops[nxt]["op"] == "pl" and \
                ops[nxt].get("early") and any(
                    o["op"] in ("time", "freq") for o in ops[nxt:]):
            # the caller prepares the NEXT transmission (another path loss)
            # and only then asks for the response of this one
            link.config(ops[nxt])
            done_early.add(nxt)
            rec["pl_changed_before_query"] = True
        rec["ir"] = _read_ir(_tagged(tags, link.ch.get_last_impulse_response))
        rec["ant"] = link.ant
        recs.append(rec)
    return link, recs


def _check_single(case, ctx):
    from pyphysim.channels import fading  # noqa  (forces the import order)
    prof, fad = case["profile"], case["fading"]
    link, recs = _run_single(case, 0)
    tags0 = link.tags
    orc = link.orc
    mimo = link.ant is not None

    # ---- labels ----------------------------------------------------------
    ctx.label("wrap=" + case["wrap"], "fad=" + fad["kind"],
              "prof=" + prof["cls"], "mode=" + prof["mode"],
              "mimo" if mimo else "siso")
    if mimo and link.ant[0] != link.ant[1]:
        ctx.label("rect")
    if fad["kind"] == "jakes":
        ctx.label("fd=0" if fad["fdts"] == 0 else "fd>0")
    ctx.label("taps=1" if len(orc["idx"]) == 1 else
              ("taps=2..3" if len(orc["idx"]) <= 3 else "taps>=4"))
    if orc["collide"]:
        ctx.label("collide")
    if orc["unsorted"]:
        ctx.label("unsorted_input")
    ctx.label("ntx=%d" % len(recs))

    # ---- discretised profile of the channel object -----------------------
    dl = _check_profile(link.ch.channel_profile, orc, link.Ts, ctx, tags0)
    exp_idx = None if orc["tie"] else orc["idx"]
    mem = dl[-1]

    interesting = False
    for i, rec in enumerate(recs):
        op, tags, ir = rec["op"], rec["tags"], rec["ir"]
        x, y = rec["x"], rec["y"]
        sw = rec["switched"]
        nin = (link.ant[0] if sw else link.ant[1]) if mimo else 1
        nout = (link.ant[1] if sw else link.ant[0]) if mimo else None
        if sw:
            ctx.label("switched_tx")
        if rec["pl"] is not None:
            ctx.label("pathloss_tx")
        if rec.get("pl_changed_before_query"):
            ctx.label("pathloss_changed_before_response_query")
        if i >= 1 or (mimo and sw) or rec["pl"] is not None:
            interesting = True
        if op["op"] == "time":
            n = op["n"]
            ctx.label("tx=time")
            _check_ir_structure(ir, exp_idx, link.ant, n, tags)
            want = (n + mem,) if not mimo else (nout, n + mem)
            if y.shape != want:
                raise Violation("time_output_shape", "%r, expected %r "
                                "(n=%d memory=%d)" % (y.shape, want, n, mem),
                                tags)
            ref = _ref_time(ir["dense"], x, mimo, sw)
            sc = _scale(ir["dense"], x, nin)
            ctx.close("time_convolution",
                      float(np.max(np.abs(y - ref))) / sc, 1e-10,
                      "n=%d idx=%r" % (n, ir["idx"]), tags)
        else:
            fft, nb, ks = op["fft"], op["nb"], rec["ks"]
            tags["fft_le_memory"] = bool(fft <= mem)
            if fft <= mem:
                ctx.label("fft<=memory")
            sel = op["sel"]
            ctx.label("tx=freq", "sel=" + sel["kind"])
            if sel["kind"] == "slice":
                st_ = tags["step"]
                ctx.label("slice_step>1" if abs(st_) > 1 else "slice_step=1")
                if st_ < 0:
                    ctx.label("slice_neg")
                ctx.label("slice_div" if tags["step_divides_span"]
                          else "slice_nondiv")
            if sel["kind"] == "index" and len(set(ks)) < len(ks):
                ctx.label("idx_dup")
            if sel["kind"] == "index" or (sel["kind"] == "slice"
                                          and abs(tags["step"]) > 1):
                interesting = True
            _check_ir_structure(ir, exp_idx, link.ant, nb, tags)
            n = len(ks) * nb
            want = (n,) if not mimo else (nout, n)
            if y.shape != want:
                raise Violation("freq_output_shape", "%r, expected %r" %
                                (y.shape, want), tags)
            ref = _ref_freq(ir["dense"], x, fft, ks, mimo, sw)
            sc = _scale(ir["dense"], x, nin)
            ctx.close("freq_multiplication",
                      float(np.max(np.abs(y - ref))) / sc, 1e-10,
                      "fft=%d sel=%r nb=%d" % (fft, sel, nb), tags)
    ctx.nontrivial(len(orc["idx"]) >= 2 and
                   (interesting or orc["collide"] or
                    (mimo and link.ant[0] != link.ant[1])))

    # ---- superposition on identically seeded twins -----------------------
    al, be = complex(*case["alpha"]), complex(*case["beta"])
    _, recs_b = _run_single(case, 1)
    _, recs_c = _run_single(case, 2)
    for ra, rb, rc in zip(recs, recs_b, recs_c):
        tags = ra["tags"]
        if rc["y"].shape != ra["y"].shape:
            raise Violation("linearity_shape", "%r vs %r" %
                            (rc["y"].shape, ra["y"].shape), tags)
        comb = al * ra["y"] + be * rb["y"]
        sc = max(abs(al) * float(np.max(np.abs(ra["y"]))) +
                 abs(be) * float(np.max(np.abs(rb["y"]))), 1e-300)
        ctx.close("linearity", float(np.max(np.abs(rc["y"] - comb))) / sc,
                  1e-10, "op=%s" % ra["op"]["op"], tags)

    # ---- block time base (Jakes): block b uses the response at b*fft -----
    if fad["kind"] == "jakes" and any(r["op"]["op"] == "freq" for r in recs):
        _, recs_d = _run_single(case, 3)
        for ra, rd in zip(recs, recs_d):
            tags = ra["tags"]
            sa, sd = ra["ir"]["sparse"], rd["ir"]["sparse"]
            if ra["op"]["op"] == "freq":
                sd = sd[..., ::ra["op"]["fft"]]
            if sa.shape != sd.shape:
                raise Violation("freq_block_time_base_shape", "%r vs %r" %
                                (sa.shape, sd.shape), tags)
            hs = max(float(np.max(np.abs(sd))), 1e-300)
            end = ra["pos"] + (ra["op"]["n"] if ra["op"]["op"] == "time"
                               else ra["op"]["fft"] * ra["op"]["nb"])
            # until commit 7552342 the generator's time axis used a step of
            # Ts*(1+1e-10): phase drift 2 pi Fd Ts pos 1e-10 per ray; the
            # factor 1000 covers sqrt(L)/max|h| (observed <= 1.2e-8 before,
            # 4e-16 after that commit)
            tol = 1e-9 + 2 * math.pi * fad["fdts"] * end * 1e-7
            ctx.close("freq_block_time_base",
                      float(np.max(np.abs(sa - sd))) / hs, tol,
                      "op=%s pos=%d" % (ra["op"]["op"], ra["pos"]), tags)
        if fad["fdts"] > 0:
            ctx.label("time_base_checked")


# ============================================================================
# multi-user
# ============================================================================
def _build_mu(case):
    from pyphysim.channels import fading, fading_generators, multiuser
    prof, fad = case["profile"], case["fading"]
    Ts = prof["Ts"]
    p_dB, delays, cost_obj = _profile_inputs(prof, fading)
    N = case["N"]
    n_rx, n_tx = (N, N) if isinstance(N, int) else N
    tags = dict(part="mu", fad=fad["kind"], mimo=case["ant"] is not None,
                prof_cls=prof["cls"], degenerate_delays=_degenerate(delays),
                n_taps_in=len(delays), n_rx=n_rx, n_tx=n_tx)
    np.random.seed(case["np_seed"])
    if prof["mode"] == "arrays":
        kw = dict(tap_powers_dB=np.array(p_dB), tap_delays=np.array(delays))
    else:
        pobj = cost_obj if cost_obj is not None else _tagged(
            tags, fading.TdlChannelProfile, np.array(p_dB), np.array(delays))
        if prof["mode"] == "discretized":
            pobj = _tagged(tags, pobj.get_discretize_profile, Ts)
        kw = dict(channel_profile=pobj)
    if fad["kind"] == "jakes":
        gen = fading_generators.JakesSampleGenerator(
            fad["fdts"] / Ts, Ts, fad["L"])
        ts_arg = Ts if case["pass_Ts"] else None
    else:
        gen = None if fad["kind"] == "default" else \
            fading_generators.RayleighSampleGenerator()
        ts_arg = Ts
        if prof["mode"] == "discretized" and not case["pass_Ts"]:
            ts_arg = None
    Narg = N if isinstance(N, int) else tuple(N)
    if case["ant"]:
        ch = _tagged(tags, multiuser.MuMimoChannel, Narg, case["ant"][0],
                     case["ant"][1], gen, Ts=ts_arg, **kw)
    else:
        ch = _tagged(tags, multiuser.MuChannel, Narg, gen, Ts=ts_arg, **kw)
    orc = _oracle_profile(p_dB, delays, Ts)
    return ch, tags, orc, n_rx, n_tx


def _run_mu(case, variant):
    ch, tags0, orc, n_rx, n_tx = _build_mu(case)
    ant = case["ant"]
    al, be = complex(*case["alpha"]), complex(*case["beta"])
    switched, plm = False, None
    recs = []
    ops = list(case["ops"])
    done_early = set()

    def set_plm(op):
        t = dict(tags0, op="set_pathloss", pathloss_none=op["v"] is None)
        if op["v"] is None:
            _tagged(t, ch.set_pathloss, None)
            return None
        m = np.array(op["v"], dtype=float).reshape(n_rx, n_tx)
        _tagged(t, ch.set_pathloss, m)
        return m

    for oi, op in enumerate(ops):
        if oi in done_early:
            continue
        if op["op"] == "switch":
            ch.switched_direction = bool(op["v"])
            switched = bool(op["v"])
            continue
        if op["op"] == "plm":
            plm = set_plm(op)
            continue
        n_txu, n_rxu = (n_rx, n_tx) if switched else (n_tx, n_rx)
        nin = None if not ant else (ant[0] if switched else ant[1])
        tags = dict(tags0, op=op["op"], switched=switched,
                    pathloss=plm is not None)
        if op["op"] == "time":
            n, ks = op["n"], None
        else:
            tags.update(_sel_tags(op["sel"], op["fft"]))
            ks = _sel_carriers(op["sel"], op["fft"])
            n = len(ks) * op["nb"]
        if nin is None:
            shape = (n,) if (n_txu == 1 and op["oned"]) else (n_txu, n)
        else:
            shape = (n_txu, nin, n)
        x1 = _make_signal(op["sig"], shape, 0)
        x = x1 if variant == 0 else _make_signal(op["sig"], shape, 1)
        if variant == 2:
            x = al * np.asarray(x1, dtype=complex) + \
                    be * np.asarray(x, dtype=complex)
        if op["op"] == "time":
            y = _tagged(tags, ch.corrupt_data, x)
        else:
            xarg = x
            if n_txu >= 2 and case["np_seed"] % 3 == 0:
                # documented: 'a list of numpy arrays', one per transmitter
                xarg = [np.array(row) for row in x]
                tags["signal_as_list"] = True
            y = _tagged(tags, ch.corrupt_data_in_freq_domain, xarg,
                        op["fft"], _sel_obj(op["sel"]))
        pl_tx = plm is not None
        early = False
        nxt = oi + 1
        while nxt < len(ops) and ops[nxt]["op"] == "switch":
            nxt += 1
        if nxt < len(ops) and ops[nxt]["op"] == "plm" and \
                ops[nxt].get("early") and any(
                    o["op"] in ("time", "freq") for o in ops[nxt:]):
            # the path loss of the NEXT transmission is set before the
            # responses of this one are asked for
            plm = set_plm(ops[nxt])
            done_early.add(nxt)
            early = True
        irs = {}
        for i in range(n_rx):
            for j in range(n_tx):
                irs[(i, j)] = _read_ir(_tagged(
                    tags, ch.get_last_impulse_response, i, j))
        recs.append(dict(op=op, x=np.reshape(x, (n_txu,) + shape[-2:]
                                             if nin else (n_txu, n)),
                         y=[np.array(v) for v in y], ny=len(y), irs=irs,
                         switched=switched, pl=pl_tx, tags=tags,
                         pl_changed_before_query=early,
                         ks=ks, n=n, n_txu=n_txu, n_rxu=n_rxu))
    return ch, tags0, orc, recs


def _check_mu(case, ctx):
    prof, fad = case["profile"], case["fading"]
    ant = case["ant"]
    mimo = ant is not None
    ch, tags0, orc, recs = _run_mu(case, 0)
    N = case["N"]
    n_rx, n_tx = (N, N) if isinstance(N, int) else N
    ctx.label("mu_mimo" if mimo else "mu_siso", "fad=" + fad["kind"],
              "prof=" + prof["cls"], "links=%d" % (n_rx * n_tx),
              "N=int" if isinstance(N, int) else
              ("N=tuple_rect" if n_rx != n_tx else "N=tuple_square"))
    ctx.label("taps=1" if len(orc["idx"]) == 1 else "taps>=2")
    if orc["collide"]:
        ctx.label("collide")
    dl = _check_profile(ch.channel_profile, orc, prof["Ts"], ctx, tags0)
    exp_idx = None if orc["tie"] else orc["idx"]
    mem = dl[-1]
    for rec in recs:
        op, tags, sw = rec["op"], rec["tags"], rec["switched"]
        n, x = rec["n"], rec["x"]
        n_txu, n_rxu = rec["n_txu"], rec["n_rxu"]
        nin = (ant[0] if sw else ant[1]) if mimo else 1
        nout = (ant[1] if sw else ant[0]) if mimo else None
        ctx.label("tx=" + op["op"])
        if sw:
            ctx.label("switched_tx")
        if rec["pl"]:
            ctx.label("pathloss_tx")
        if rec.get("pl_changed_before_query"):
            ctx.label("pathloss_changed_before_response_query")
        if not mimo and n_txu == 1 and n_rxu >= 2 and \
                op["op"] == "time" and op.get("oned") and n >= 2:
            ctx.label("mu_one_tx_1d_time")
        if rec["ny"] != n_rxu:
            raise Violation("mu_num_outputs", "%d outputs for %d receivers" %
                            (rec["ny"], n_rxu), tags)
        nsamp = n if op["op"] == "time" else op["nb"]
        for key in sorted(rec["irs"]):
            _check_ir_structure(rec["irs"][key], exp_idx, ant, nsamp, tags)
        if op["op"] == "freq":
            tags["fft_le_memory"] = bool(op["fft"] <= mem)
            if op["fft"] <= mem:
                ctx.label("fft<=memory")
            ctx.label("sel=" + op["sel"]["kind"])
            if op["sel"]["kind"] == "slice":
                ctx.label("slice_div" if tags["step_divides_span"]
                          else "slice_nondiv")
        for b in range(n_rxu):
            ref, sc = None, 0.0
            for a in range(n_txu):
                ir = rec["irs"][(a, b) if sw else (b, a)]
                if op["op"] == "time":
                    part = _ref_time(ir["dense"], x[a], mimo, sw)
                else:
                    part = _ref_freq(ir["dense"], x[a], op["fft"], rec["ks"],
                                     mimo, sw)
                ref = part if ref is None else ref + part
                sc += _scale(ir["dense"], x[a], nin)
            yb = rec["y"][b]
            if op["op"] == "time":
                want = (n + mem,) if not mimo else (nout, n + mem)
            else:
                want = (n,) if not mimo else (nout, n)
            if yb.shape != want:
                raise Violation("mu_output_shape", "receiver %d: %r, "
                                "expected %r" % (b, yb.shape, want), tags)
            ctx.close("mu_superposition_%s" % op["op"],
                      float(np.max(np.abs(yb - ref))) / sc, 1e-10,
                      "receiver %d of %d, %d transmitters" %
                      (b, n_rxu, n_txu), tags)
    ctx.nontrivial(len(orc["idx"]) >= 2 and n_rx * n_tx >= 2)

    al, be = complex(*case["alpha"]), complex(*case["beta"])
    _, _, _, recs_b = _run_mu(case, 1)
    _, _, _, recs_c = _run_mu(case, 2)
    for ra, rb, rc in zip(recs, recs_b, recs_c):
        for b in range(ra["n_rxu"]):
            comb = al * ra["y"][b] + be * rb["y"][b]
            sc = max(abs(al) * float(np.max(np.abs(ra["y"][b]))) +
                     abs(be) * float(np.max(np.abs(rb["y"][b]))), 1e-300)
            ctx.close("mu_linearity",
                      float(np.max(np.abs(rc["y"][b] - comb))) / sc, 1e-10,
                      "receiver %d" % b, ra["tags"])


# ============================================================================
# profile discretisation alone
# ============================================================================
def _check_profile_part(case, ctx):
    from pyphysim.channels import fading
    prof = case["profile"]
    Ts = prof["Ts"]
    p_dB, delays, cost_obj = _profile_inputs(prof, fading)
    tags = dict(part="profile", prof_cls=prof["cls"],
                degenerate_delays=_degenerate(delays), n_taps_in=len(delays))
    orc = _oracle_profile(p_dB, delays, Ts)
    ctx.label("prof=" + prof["cls"],
              "taps_in=%s" % (len(delays) if len(delays) < 4 else ">=4"))
    if orc["collide"]:
        ctx.label("collide")
    if orc["unsorted"]:
        ctx.label("unsorted_input")
    if _degenerate(delays):
        ctx.label("degenerate_delays")
    ctx.nontrivial(orc["collide"] or (orc["unsorted"] and len(orc["idx"]) > 1))
    pobj = cost_obj if cost_obj is not None else _tagged(
        tags, fading.TdlChannelProfile, np.array(p_dB), np.array(delays))
    before = (np.array(pobj.tap_delays), np.array(pobj.tap_powers_dB))
    disc = _tagged(tags, pobj.get_discretize_profile, Ts)
    _check_profile(disc, orc, Ts, ctx, tags)
    if pobj.is_discretized or \
            not np.array_equal(before[0], pobj.tap_delays) or \
            not np.array_equal(before[1], pobj.tap_powers_dB):
        raise Violation("disc_mutates_source", "the profile that was "
                        "discretised changed", tags)


def check(case, ctx):
    part = case["part"]
    if part in ("time", "freq", "slices"):
        _check_single(case, ctx)
    elif part == "mu":
        _check_mu(case, ctx)
    elif part == "profile":
        _check_profile_part(case, ctx)
    else:
        raise AssertionError("unknown part %r" % part)


# ----------------------------------------------------------------------------
# every direct library call made by this check must leave the arrays handed
# to it unchanged (core.GuardedCalls)
# ----------------------------------------------------------------------------
def _guard_targets():
    from pyphysim.channels import fading, multiuser, singleuser
    t = []
    for cls in (fading.TdlChannel, singleuser.SuChannel,
                singleuser.SuMimoChannel, multiuser.MuChannel,
                multiuser.MuMimoChannel):
        t += [(cls, n) for n in ("corrupt_data",
                                 "corrupt_data_in_freq_domain",
                                 "set_pathloss")]
    t += [(fading.TdlChannelProfile, "__init__")]
    return t


_unguarded_check = check


def check(case, ctx):  # noqa: F811
    from ..core import GuardedCalls
    with GuardedCalls(_guard_targets(), dict(part=case.get("part"))):
        return _unguarded_check(case, ctx)
