"""C02 - OFDM round trip and exact one-tap equalisation when the cyclic prefix
covers the channel memory.

Parts
  ofdm    : (fft, cp, used) x input length/kind; modulate/demodulate round
            trip, emitted length, prefix == tail (exact), DC/guard bins empty
            (own DFT matrix, own index set), documented carrier order.
  chan    : the same plus a static tapped-delay-line channel with memory <= cp
            (TdlChannel / SuChannel with and without path loss, integer and
            non-integer delay/Ts); demodulate + one-tap equaliser fed with the
            *reported* impulse response must return the input symbols.
  negctl  : memory > cp; evidence only (fraction NOT recovered, expected ~1).
  invalid : parameter triples the constructor documents as invalid must raise
            ValueError (enumerated).
"""
import functools
import math

import numpy as np
from hypothesis import strategies as st

from ..core import Part, Violation
from ..gens import fl, loguniform, seeds

PROPERTY = "C02"
LEVEL = "exploration"
RULE = ("fft sizes 2..128 (thorough ..1024, odd and non powers of two "
        "included), cp 0..fft (0, fft, memory forced as classes), even used "
        "counts 2..fft or None, input lengths 1..4*used+3 (six input kinds incl. an integer-dtype ramp); "
        "channels of 1..6 taps at distinct integer sample delays with memory "
        "<= cp (memory == cp forced in ~1/3, memory == fft when cp == fft), "
        "powers -30..0 dB, static Jakes realisation (Fd = 0, L 1..16, seeded), "
        "wrappers TdlChannel / SuChannel / SuChannel with path loss, delays "
        "given as integer or non-integer multiples of Ts; non-trivial = "
        "channel memory >= 1 and cp > 0 and input length not a multiple of "
        "the used subcarriers (part chan) or cp > 0 and used < fft and length "
        "not a multiple (part ofdm); distinct = SHA-1 of the case description")
RULE += (" Added after the white-box review: "
         "optionally the object (and an equalizer) is used with a "
         "first configuration before set_parameters, and the reported "
         "response is asked for other FFT sizes first; path loss down "
         "to 1e-18 ")

LEVEL_TEXT = ("Generated-input search (Hypothesis, seeded, sharded) over OFDM "
              "configurations, input lengths and static tapped-delay-line "
              "channels against an inverse oracle (round trip), an exact "
              "structural oracle (prefix copy, emitted length), an independent "
              "DFT-matrix spectrum oracle (empty DC/guard bins, carrier order) "
              "and end-to-end recovery through channel + one-tap equaliser; "
              "invalid parameter triples enumerated. Absence of violations is "
              "not proven.")
LEVEL_NOTE = ("float64; round trip tolerance 1e-10*max|x|, equalised recovery "
              "1e-9*max|x|*max|H|/min|H| over the used bins (conditioning of "
              "the division is part of the tolerance, not a filter)")
TECHNIQUE = ("property-based testing (Hypothesis): inverse/round-trip oracle, "
             "independent DFT reference, end-to-end metamorphic recovery "
             "through a generated channel")
ASSUMPTIONS = [
    "a time-invariant channel is a TdlChannel driven by a JakesSampleGenerator "
    "with Fd = 0; the received signal is cut to the transmitted length "
    "(y[:len(tx)]) before demodulation, as the library's own test does",
    "recovery is judged with tolerance 1e-9*max|x|*cond, cond = max|H|/min|H| "
    "over the used bins of the aliased DFT of the reported taps; cases with "
    "cond > 1e6 are labelled and carry little information",
    "SISO only; MIMO and time-varying channels are outside the statement",
    "the carrier order check follows the documented examples of "
    "OFDM.get_used_subcarrier_indexes (negative frequencies first); the power "
    "scale is not asserted (fitted)",
    "single-tap profiles are given 0 dB: any other power is normalised away by "
    "the discretiser and would only trigger the profile-constructor rounding "
    "defect that belongs to C03 (counted as label single_tap_0dB)",
    "path loss values are drawn from [1e-12, 1]; 0 (no channel) is excluded",
]
QUICK_BUDGET_S = 240
THOROUGH_BUDGET_S = 1500

_XKINDS = ["gauss", "gauss", "qpsk", "sparse", "ones", "ramp", "gauss",
           "int_ramp"]


# ----------------------------------------------------------------------------
# generators
# ----------------------------------------------------------------------------
def _fft_sizes(tier):
    hi = 1024 if tier == "thorough" else 128
    special = [2, 3, 4, 5, 6, 8, 12, 16, 24, 63, 64, 100, 127, 128]
    if tier == "thorough":
        special += [256, 300, 512, 1000, 1023, 1024]
    # (Hypothesis favours the small end of an integer range, hence the
    # explicit size bands)
    return st.one_of(st.integers(2, 16), st.integers(17, 64),
                     st.integers(33, hi), st.integers(65, hi),
                     st.sampled_from(special))


@st.composite
def _triple(draw, tier, need_cp=None):
    """valid (fft, cp, used); used None only for even fft"""
    fft = draw(_fft_sizes(tier))
    ucls = draw(st.sampled_from(["any", "any", "any", "full", "none", "two",
                                 "max_lt_fft"]))
    max_used = fft - (fft % 2)
    if ucls == "none" and fft % 2 == 0:
        used = None
    elif ucls in ("full", "none"):
        used = max_used
    elif ucls == "two":
        used = 2
    elif ucls == "max_lt_fft":
        used = max(2, (fft - 1) - ((fft - 1) % 2))
    else:
        used = 2 * draw(st.integers(min(2, max_used // 2), max_used // 2))
    ccls = draw(st.sampled_from(["any", "any", "any", "zero", "full", "small",
                                 "one"]))
    if ccls == "zero":
        cp = 0
    elif ccls == "full":
        cp = fft
    elif ccls == "one":
        cp = 1
    elif ccls == "small":
        cp = draw(st.integers(0, min(fft, 8)))
    else:
        cp = draw(st.integers(0, fft))
    return fft, cp, used


@st.composite
def _input(draw, used_eff, burst_ok=True):
    ncls = draw(st.sampled_from(["any", "any", "any", "any", "multiple",
                                 "one", "plus1", "minus1", "lt_used"]))
    k = draw(st.integers(1, 4))
    if burst_ok and used_eff <= 32 and draw(st.integers(0, 9)) == 0:
        # a long burst: 65 .. 257 OFDM symbols (where an implementation is
        # tempted to work block by block)
        k = draw(st.sampled_from([65, 70, 100, 129, 150, 257]))
        ncls = draw(st.sampled_from(["multiple", "minus1", "plus1"]))
    if ncls == "multiple":
        n = k * used_eff
    elif ncls == "one":
        n = 1
    elif ncls == "plus1":
        n = k * used_eff + 1
    elif ncls == "minus1":
        n = max(1, k * used_eff - 1)
    elif ncls == "lt_used":
        n = draw(st.integers(1, used_eff))
    else:
        n = draw(st.integers(used_eff + 1, 4 * used_eff + 3))
    return dict(n=n, xkind=draw(st.sampled_from(_XKINDS)), xseed=draw(seeds),
                amp=draw(st.sampled_from([1.0, 1.0, 1e-3, 1e3, 0.37])))


@st.composite
def _via_set(draw, tier):
    """None, or a (valid) initial configuration replaced by set_parameters"""
    if draw(st.integers(0, 3)) != 0:
        return None
    fft, cp, used = draw(_triple("quick"))
    return [fft, cp, used]


@st.composite
def _ofdm_case(draw, tier):
    fft, cp, used = draw(_triple(tier))
    used_eff = fft if used is None else used
    d = dict(part="ofdm", fft=fft, cp=cp, used=used,
             via_set=draw(_via_set(tier)))
    d.update(draw(_input(used_eff, burst_ok=fft <= 256)))
    return d


@st.composite
def _channel(draw, max_mem, mem_classes):
    """taps at distinct integer delays 0..memory, memory drawn per class"""
    mcls = draw(st.sampled_from(mem_classes))
    if mcls == "max":
        memory = max_mem
    elif mcls == "zero":
        memory = 0
    elif mcls == "one":
        memory = min(1, max_mem)
    else:
        memory = draw(st.integers(min(1, max_mem), max_mem))
    ntaps = min(draw(st.sampled_from([1, 2, 2, 3, 3, 4, 5, 6])), memory + 1)
    others = draw(st.lists(st.integers(0, max(0, memory - 1)),
                           min_size=ntaps - 1, max_size=ntaps - 1,
                           unique=True)) if memory > 0 else []
    delays = sorted(set(others + [memory]))
    if len(delays) == 1:
        powers = [0.0]
    else:
        # (also very weak taps: 60 .. 120 dB below the strongest one)
        powers = [draw(st.one_of(fl(-30.0, 0.0), fl(-30.0, 0.0),
                                 st.sampled_from([0.0, -3.0, -30.0]),
                                 fl(-120.0, -60.0),
                                 st.sampled_from([-60.0, -80.0])))
                  for _ in delays]
    tcls = draw(st.sampled_from(["unit", "unit", "scaled", "offgrid",
                                 "offgrid"]))
    if tcls == "unit":
        ts, offs = 1.0, [0.0] * len(delays)
    else:
        ts = draw(loguniform(-9, -3))
        if tcls == "scaled":
            offs = [0.0] * len(delays)
        else:
            offs = [draw(fl(0.0 if d == 0 else -0.45, 0.45)) for d in delays]
    order = draw(st.permutations(list(range(len(delays)))))
    wrapper = draw(st.sampled_from(["tdl", "su", "su_pl", "su_pl"]))
    pathloss = None
    if wrapper == "su_pl":
        pathloss = draw(st.one_of(loguniform(-12, 0), loguniform(-18, -12),
                                  st.just(1.0),
                                  fl(0.01, 1.0)))
    return dict(delays=delays, powers_dB=powers, offs=offs, Ts=ts,
                tap_order=list(order), L=draw(st.integers(1, 16)),
                chseed=draw(seeds), wrapper=wrapper, pathloss=pathloss)


@st.composite
def _chan_case(draw, tier):
    fft, cp, used = draw(_triple(tier))
    # most OFDM configurations with cp == 0 admit only the trivial channel;
    # redraw cp for half of them so that memory >= 1 dominates
    if cp == 0 and draw(st.integers(0, 3)) != 0:
        cp = draw(st.integers(1, fft))
    used_eff = fft if used is None else used
    d = dict(part="chan", fft=fft, cp=cp, used=used,
             via_set=draw(_via_set(tier)), n_tx=draw(st.sampled_from([1, 1,
                                                                      2])))
    # (long bursts only with small transforms: the time-domain channel costs
    # samples x taps)
    d.update(draw(_input(used_eff, burst_ok=fft + cp <= 96)))
    d.update(draw(_channel(cp, ["any", "any", "any", "max", "max", "max",
                                "one", "zero"])))
    return d


@st.composite
def _negctl_case(draw, tier):
    fft = draw(st.integers(4, 64))
    cp = draw(st.integers(0, fft - 2))
    used = 2 * draw(st.integers(1, fft // 2))
    d = dict(part="negctl", fft=fft, cp=cp, used=used, via_set=None, n_tx=1)
    d.update(draw(_input(used)))
    # memory in cp+1 .. fft-1
    memory = draw(st.integers(cp + 1, fft - 1))
    ch = draw(_channel(memory, ["max"]))
    ch.update(Ts=1.0, offs=[0.0] * len(ch["delays"]))
    d.update(ch)
    return d


def _invalid_cases(tier):
    out = []
    for fft in (2, 3, 8, 16, 63, 64):
        for cp in (0, 1, fft):
            for used in (1, 3, fft - 1 if (fft - 1) % 2 else fft + 1, fft + 2,
                         0, -2):
                if used % 2 == 0 and 2 <= used <= fft:
                    continue
                out.append(dict(part="invalid", fft=fft, cp=cp, used=used,
                                why="used"))
        for cp in (-1, -5, fft + 1, 2 * fft):
            for used in (2, None if fft % 2 == 0 else 2):
                out.append(dict(part="invalid", fft=fft, cp=cp, used=used,
                                why="cp"))
        if fft % 2:
            out.append(dict(part="invalid", fft=fft, cp=0, used=None,
                            why="used_none_odd_fft"))
    return out


PARTS = [
    Part("ofdm", _ofdm_case, quick=1500, thorough=40000, quick_shards=4),
    Part("chan", _chan_case, quick=2500, thorough=70000, quick_shards=8),
    Part("negctl", _negctl_case, quick=200, thorough=3000, quick_shards=2),
    Part("invalid", enumerate=_invalid_cases, exhaustive=True,
         quick_shards=1, thorough_shards=1),
]


# ----------------------------------------------------------------------------
# builders / references
# ----------------------------------------------------------------------------
def _make_x(case):
    n = int(case["n"])
    rs = np.random.RandomState(case["xseed"])
    kind = case["xkind"]
    if kind == "gauss":
        x = rs.randn(n) + 1j * rs.randn(n)
    elif kind == "qpsk":
        x = (rs.choice([-1.0, 1.0], n) + 1j * rs.choice([-1.0, 1.0], n)) / \
            math.sqrt(2.0)
    elif kind == "sparse":
        x = np.zeros(n, dtype=complex)
        k = rs.randint(0, n)
        x[k] = rs.randn() + 1j * rs.randn() + 0.5
        if n > 2 and rs.rand() < 0.5:
            x[rs.randint(0, n)] += 1j
    elif kind == "ones":
        x = np.ones(n, dtype=complex)
    elif kind == "int_ramp":
        # real integer dtype, as in the library's own test_modulate
        return np.arange(1, n + 1)
    else:   # ramp, like the library's own tests
        x = np.arange(1, n + 1) * (1.0 + 1.0j)
    return float(case["amp"]) * x


@functools.lru_cache(maxsize=8)
def _dft_matrix(n):
    """W[m, k] = exp(-2 pi i m k / n); (m*k) reduced mod n in integers so the
    matrix is accurate for every n"""
    mk = (np.arange(n)[:, None] * np.arange(n)[None, :]) % n
    w = np.exp(-2j * np.pi * mk / float(n))
    w.flags.writeable = False
    return w


def _my_used_bins(fft, used_eff):
    """bin numbers (0..fft-1) that may carry data, in data order: negative
    frequencies first.  Written from the documentation, not from the code."""
    h = used_eff // 2
    if used_eff == fft:
        return list(range(fft // 2, fft)) + list(range(0, fft // 2))
    return [fft - h + i for i in range(h)] + [1 + i for i in range(h)]


def _build_ofdm(case, tags, warm=None):
    from pyphysim.modulators.ofdm import OFDM
    fft, cp, used = case["fft"], case["cp"], case["used"]
    via = case.get("via_set")
    if via:
        o = OFDM(via[0], via[1], via[2])
        if case.get("xseed", 0) % 5 in (1, 2):
            # the object is USED with its first configuration (a burst is
            # modulated and demodulated) before it is re-configured
            w = np.ones(int(via[2] or via[0]), dtype=complex)
            # (a copy: demodulate re-shapes the array handed to it, see
            # _guard_targets)
            o.demodulate(np.array(o.modulate(w)))
            from pyphysim.modulators.ofdm import OfdmOneTapEqualizer
            OfdmOneTapEqualizer(o)
            tags["used_before_set_parameters"] = True
        if case.get("xseed", 0) % 2 == 0:
            # an equalizer created BEFORE the parameters are changed must
            # follow the OFDM object it was created for
            from pyphysim.modulators.ofdm import OfdmOneTapEqualizer
            o._vpbt_early_equalizer = OfdmOneTapEqualizer(o)
            if warm is not None and case.get("xseed", 0) % 4 == 0:
                # ... and was already used with the first configuration
                warm(o, o._vpbt_early_equalizer)
        if used is None:
            o.set_parameters(fft, cp)
        else:
            o.set_parameters(fft, cp, used)
    elif used is None:
        o = OFDM(fft, cp)
    else:
        o = OFDM(fft, cp, used)
    if case.get("xseed", 0) % 3 == 0:
        # a set_parameters call that must be REJECTED (ValueError) with other
        # fft/cp sizes: the object stays exactly as configured
        bad = [(2 * fft, cp, used_bad) for used_bad in (3, 2 * fft + 2)] + \
            [(fft + 2, fft + 3, None)]
        for a, b, c in bad:
            try:
                if c is None:
                    o.set_parameters(a, b)
                else:
                    o.set_parameters(a, b, c)
            except ValueError:
                continue
            raise Violation("invalid_accepted", "set_parameters%r accepted" %
                            ((a, b, c),), tags)
    used_eff = fft if used is None else used
    got = (o.fft_size, o.cp_size, o.num_used_subcarriers)
    if got != (fft, cp, used_eff):
        raise Violation("parameters", "object reports %r after configuring "
                        "%r" % (got, (fft, cp, used)), tags)
    return o, used_eff


def _check_ofdm_structure(case, ctx, o, used_eff, x, tags):
    """(i) round trip, (ii) length and exact prefix, (iii) spectrum"""
    fft, cp = case["fft"], case["cp"]
    n = x.size
    xmax = float(np.max(np.abs(x)))
    n_sym = -(-n // used_eff)
    tx = np.asarray(o.modulate(x.copy()))
    if tx.shape != (n_sym * (fft + cp),):
        raise Violation("emitted_length", "modulate returned shape %r for %d "
                        "symbols, expected (%d,) = %d OFDM symbols x (fft+cp)"
                        % (tx.shape, n, n_sym * (fft + cp), n_sym), tags)
    rows = tx.reshape(n_sym, fft + cp)
    body = rows[:, cp:]
    if cp > 0 and not np.array_equal(rows[:, :cp], rows[:, fft:]):
        bad = float(np.max(np.abs(rows[:, :cp] - rows[:, fft:])))
        raise Violation("prefix_copy", "prefix differs from the symbol tail "
                        "(max difference %.3e)" % bad, tags)
    # (i) round trip on a fresh copy (demodulate reshapes its argument)
    handed = tx.copy()
    back = np.asarray(o.demodulate(handed))
    # the array handed to demodulate still holds the emitted samples (its
    # shape may have been changed, its values may not): demodulating it a
    # second time, or looking at its prefixes afterwards, is ordinary use
    if not np.array_equal(handed.reshape(-1), tx):
        raise Violation("demodulate_modified_its_input", "the signal handed "
                        "to demodulate() was changed by the call (max "
                        "difference %.3e)" %
                        float(np.max(np.abs(handed.reshape(-1) - tx))), tags)
    again = np.asarray(o.demodulate(handed))
    if again.shape != back.shape or not np.array_equal(again, back):
        raise Violation("demodulate_twice_differs", "demodulating the same "
                        "array a second time gives a different result", tags)
    if back.shape != (n_sym * used_eff,):
        raise Violation("roundtrip_length", "demodulate returned shape %r, "
                        "expected (%d,)" % (back.shape, n_sym * used_eff),
                        tags)
    ctx.close("roundtrip", float(np.max(np.abs(back[:n] - x))),
              1e-10 * xmax, "", tags)
    pad = back[n:]
    ctx.close("roundtrip_padding",
              float(np.max(np.abs(pad))) if pad.size else 0.0,
              1e-10 * xmax, "demodulated padding is not zero", tags)
    # (iii) spectrum of every symbol body with an independent DFT
    X = body @ _dft_matrix(fft)
    smax = float(np.max(np.abs(X)))
    bins = _my_used_bins(fft, used_eff)
    unused = sorted(set(range(fft)) - set(bins))
    if used_eff < fft:
        if 0 not in unused:
            raise AssertionError("reference index set is wrong")
        ctx.close("dc_guard_empty", float(np.max(np.abs(X[:, unused]))),
                  1e-10 * smax, "energy on DC/guard bins %r" % (unused[:6],),
                  tags)
    D = np.zeros(n_sym * used_eff, dtype=complex)
    D[:n] = x
    Xm = X[:, bins].reshape(-1)
    c = np.vdot(D, Xm) / np.vdot(D, D)
    ctx.close("documented_carrier_order",
              float(np.max(np.abs(Xm - c * D))), 1e-10 * abs(c) * xmax +
              1e-300, "used bins do not carry the data in the documented "
              "order (fitted scale %r)" % (c,), tags)
    return tx, n_sym


def _build_channel(case, tags):
    from pyphysim.channels import fading, fading_generators, singleuser
    ts = float(case["Ts"])
    order = case["tap_order"]
    delays = np.array([(case["delays"][i] + case["offs"][i]) * ts
                       for i in order], dtype=float)
    powers = np.array([case["powers_dB"][i] for i in order], dtype=float)
    jakes = fading_generators.JakesSampleGenerator(
        Fd=0.0, Ts=ts, L=int(case["L"]), shape=None,
        RS=np.random.RandomState(case["chseed"]))
    if case["wrapper"] == "tdl":
        ch = fading.TdlChannel(jakes, tap_powers_dB=powers, tap_delays=delays)
    else:
        ch = singleuser.SuChannel(jakes, tap_powers_dB=powers,
                                  tap_delays=delays)
        if case["wrapper"] == "su_pl":
            ch.set_pathloss(float(case["pathloss"]))
    mem = ch.num_taps_with_padding - 1
    if mem != max(case["delays"]):
        raise Violation("channel_memory", "channel built from delays %r "
                        "(x Ts) reports memory %r" % (case["delays"], mem),
                        tags)
    return ch


def _freq_response_ref(ir, fft):
    """H[k] = sum_d h_d exp(-2 pi i k d / fft) from the reported dense taps
    (first time sample), taps beyond fft-1 alias as they physically do"""
    taps = np.asarray(ir.tap_values)
    h = taps[:, 0]
    if taps.shape[1] > 1 and float(np.max(np.abs(taps - taps[:, :1]))) > \
            1e-12 * float(np.max(np.abs(taps))):
        return None
    d = np.arange(h.size)
    k = np.arange(fft)
    ph = (k[:, None] * d[None, :]) % fft
    return (np.exp(-2j * np.pi * ph / float(fft)) * h[None, :]).sum(axis=1)


def _transmit_and_equalize(case, ctx, o, used_eff, ch, x, tx, n_sym, tags,
                           raise_on_error=True, held=None):
    from pyphysim.modulators.ofdm import OfdmOneTapEqualizer
    fft = case["fft"]
    n = x.size
    xmax = float(np.max(np.abs(x)))
    y = np.asarray(ch.corrupt_data(tx.copy()))
    memory = max(case["delays"])
    if y.shape != (tx.size + memory,):
        raise Violation("channel_output_length", "channel returned shape %r "
                        "for %d samples and memory %d" %
                        (y.shape, tx.size, memory), tags)
    ir = ch.get_last_impulse_response()
    H = _freq_response_ref(ir, fft)
    if H is None:
        raise Violation("channel_not_static", "reported taps vary over time "
                        "although Fd = 0", tags)
    if not np.all(np.isfinite(H)):
        raise Violation("reported_response_not_finite", "the reported "
                        "impulse response has non-finite taps", tags)
    Hu = np.abs(H[_my_used_bins(fft, used_eff)])
    if np.max(Hu) == 0 and float(np.max(np.abs(y))) > 0:
        raise Violation("reported_response_zero", "the reported impulse "
                        "response is zero on every used carrier although the "
                        "channel output is not", tags)
    cond = float(np.max(Hu) / np.min(Hu)) if np.min(Hu) > 0 else math.inf
    if case.get("xseed", 0) % 3 == 1:
        # the caller applies its own link gain AFTER having looked at the
        # reported response: received signal and response are both scaled
        # (documented use of 'g * impulse_response')
        g = 0.2512
        ir.get_freq_response(fft)
        ir = g * ir
        y = g * y
        ctx.label("response_scaled_by_caller_after_use")
    if case.get("xseed", 0) % 7 in (1, 2, 3):
        # the same response object is asked for another FFT size first (a
        # plot of the frequency response with finer resolution)
        ir.get_freq_response(2 * fft)
        ir.get_freq_response(fft + 3)
        ctx.label("freq_response_other_size_first")
    demod = o.demodulate(y[:tx.size])
    if held is not None:
        for what, arr in (("channel output", y),
                          ("demodulated symbols", np.asarray(demod))):
            held.append((what, arr, np.array(arr, copy=True)))
    if case.get("xseed", 0) % 5 == 3:
        # the caller normalises / plots with the array get_freq_response
        # gave it and scribbles on it: the response object is not affected
        hh = ir.get_freq_response(fft)
        if isinstance(hh, np.ndarray) and hh.flags.writeable:
            hh[...] = 1.0
            ctx.label("freq_response_array_overwritten_by_caller")
    demod_arg = demod
    if case.get("xseed", 0) % 4 == 2 and np.ndim(demod) == 1 and \
            np.size(demod) == n_sym * used_eff:
        # the symbols as (OFDM symbols x used carriers), as the notebooks do
        demod_arg = np.reshape(np.array(demod), (n_sym, used_eff))
        ctx.label("equalize_2d_symbols")
    with np.errstate(divide="ignore", invalid="ignore"):
        # (a zero reported response - known finding - divides by zero; the
        # resulting inf/nan is judged below, the numpy warning is noise)
        equalizer = getattr(o, "_vpbt_early_equalizer", None)
        if equalizer is None:
            equalizer = OfdmOneTapEqualizer(o)
        else:
            ctx.label("equalizer_created_before_set_parameters")
        eq = np.asarray(equalizer.equalize_data(demod_arg, ir)).reshape(-1)
    if eq.shape != (n_sym * used_eff,):
        raise Violation("equalized_length", "equalize_data returned shape %r, "
                        "expected (%d,)" % (eq.shape, n_sym * used_eff), tags)
    err = float(np.max(np.abs(eq[:n] - x)))
    perr = float(np.max(np.abs(eq[n:]))) if eq.size > n else 0.0
    tol = 1e-9 * xmax * cond
    if not raise_on_error:
        return max(err, perr) <= tol, cond
    if math.isfinite(tol):
        if memory < fft:
            # same numbers, recorded apart from the memory == fft class
            ctx.err("equalized_recovery[memory<fft]", err, tol)
        ctx.close("equalized_recovery", err, tol, "cond=%.3g memory=%d cp=%d"
                  % (cond, memory, case["cp"]), tags)
        ctx.close("equalized_padding", perr, tol, "equalised padding is not "
                  "zero; cond=%.3g" % cond, tags)
    return True, cond


# ----------------------------------------------------------------------------
# check
# ----------------------------------------------------------------------------
def _size_label(fft):
    p2 = fft & (fft - 1) == 0
    return ("fft_pow2" if p2 else "fft_odd" if fft % 2 else "fft_even_nonpow2")


def _common_labels(case, ctx, used_eff):
    fft, cp, n = case["fft"], case["cp"], case["n"]
    ctx.label(_size_label(fft))
    ctx.label("fft<=8" if fft <= 8 else "fft<=128" if fft <= 128
              else "fft>128")
    ctx.label("cp=0" if cp == 0 else "cp=fft" if cp == fft else "0<cp<fft")
    ctx.label("used=None" if case["used"] is None else
              "used=fft" if used_eff == fft else
              "used=2" if used_eff == 2 else "2<used<fft")
    ctx.label("n_multiple" if n % used_eff == 0 else
              "n<used" if n < used_eff else "n_not_multiple")
    ctx.label("x=" + case["xkind"])
    if case.get("via_set"):
        ctx.label("via_set_parameters")


def _check_ofdm(case, ctx):
    tags = dict(fft=case["fft"], cp=case["cp"], used=case["used"],
                n=case["n"])
    o, used_eff = _build_ofdm(case, tags)
    x = _make_x(case)
    _check_ofdm_structure(case, ctx, o, used_eff, x, tags)
    _common_labels(case, ctx, used_eff)
    ctx.nontrivial(case["cp"] > 0 and used_eff < case["fft"] and
                   case["n"] % used_eff != 0)


def _chan_tags(case):
    memory = max(case["delays"])
    return dict(fft=case["fft"], cp=case["cp"], used=case["used"],
                n=case["n"], memory=memory,
                memory_eq_fft=(memory == case["fft"]),
                memory_eq_cp=(memory == case["cp"]),
                wrapper=case["wrapper"], ntaps=len(case["delays"]),
                Ts_unit=(case["Ts"] == 1.0))


def _check_chan(case, ctx):
    tags = _chan_tags(case)
    memory = tags["memory"]
    def warm(o0, eq0):
        # one burst through another channel object of the same kind,
        # equalised with the equalizer created for the first configuration
        if o0.fft_size <= memory:
            return
        chw = _build_channel(case, tags)
        w = np.ones(int(o0.num_used_subcarriers), dtype=complex)
        txw = o0.modulate(w)
        yw = np.asarray(chw.corrupt_data(txw.copy()))
        with np.errstate(divide="ignore", invalid="ignore"):
            eq0.equalize_data(o0.demodulate(np.array(yw[:txw.size])),
                              chw.get_last_impulse_response())
        ctx.label("equalizer_used_before_set_parameters")

    o, used_eff = _build_ofdm(case, tags, warm)
    ch = _build_channel(case, tags)
    cond_max = 0.0
    held = []           # arrays the library handed out earlier, with copies
    for rep in range(int(case.get("n_tx", 1))):
        c = dict(case)
        if rep:
            c["xseed"] = (case["xseed"] + 7919 * rep) % (2 ** 31 - 1)
            if case["xseed"] % 2:
                # a second burst of ANOTHER length through the same objects
                c["n"] = int(case["n"]) + used_eff
                ctx.label("second_burst_other_length")
        x = _make_x(c)
        tx, n_sym = _check_ofdm_structure(c, ctx, o, used_eff, x, tags)
        _, cond = _transmit_and_equalize(c, ctx, o, used_eff, ch, x, tx,
                                         n_sym, tags, held=held)
        cond_max = max(cond_max, cond)
        # what was handed out for the earlier bursts is still what it was
        for what, arr, keep in held:
            if arr.shape != keep.shape or not np.array_equal(arr, keep):
                raise Violation("earlier_result_modified", "the %s returned "
                                "for an earlier burst was changed by a later "
                                "call" % what, tags)
    _common_labels(case, ctx, used_eff)
    ctx.label("memory=0" if memory == 0 else
              "memory=fft" if memory == case["fft"] else
              "memory=cp" if memory == case["cp"] else "0<memory<cp")
    ctx.label("taps=%d" % len(case["delays"]) if len(case["delays"]) < 3
              else "taps>=3")
    if len(case["delays"]) == 1:
        ctx.label("single_tap_0dB")
    if min(case["delays"]) > 0:
        ctx.label("first_tap_delayed")
    ctx.label("wrapper=" + case["wrapper"])
    ctx.label("Ts=1" if case["Ts"] == 1.0 else
              "delays_offgrid" if any(case["offs"]) else "Ts_scaled")
    ctx.label("cond<=1e2" if cond_max <= 1e2 else
              "cond<=1e6" if cond_max <= 1e6 else "cond>1e6")
    if case.get("n_tx", 1) > 1:
        ctx.label("two_transmissions")
    ctx.nontrivial(memory >= 1 and case["cp"] > 0 and
                   case["n"] % used_eff != 0)


def _check_negctl(case, ctx):
    """memory > cp: the same pipeline is expected NOT to recover x.  Evidence
    only (shows that the recovery oracle has teeth); never a violation."""
    tags = _chan_tags(case)
    o, used_eff = _build_ofdm(case, tags)
    ch = _build_channel(case, tags)
    x = _make_x(case)
    tx = np.asarray(o.modulate(x.copy()))
    n_sym = -(-x.size // used_eff)
    ok, cond = _transmit_and_equalize(case, ctx, o, used_eff, ch, x, tx,
                                      n_sym, tags, raise_on_error=False)
    ctx.label("negctl")
    if cond > 1e3:
        # tolerance scales with cond: nothing to learn from these
        ctx.label("negctl_illconditioned_ignored")
        return
    ctx.count("negctl_total")
    if not ok:
        ctx.count("negctl_not_recovered")
    ctx.label("negctl_not_recovered" if not ok else "negctl_recovered")


def _check_invalid(case, ctx):
    from pyphysim.modulators.ofdm import OFDM
    tags = dict(fft=case["fft"], cp=case["cp"], used=case["used"],
                why=case["why"])
    args = (case["fft"], case["cp"]) if case["used"] is None else \
        (case["fft"], case["cp"], case["used"])
    for how in ("ctor", "set_parameters"):
        try:
            if how == "ctor":
                OFDM(*args)
            else:
                OFDM(64, 16, 52).set_parameters(*args)
        except ValueError:
            continue
        raise Violation("invalid_accepted", "%s%r did not raise ValueError" %
                        (how, args), tags)
    ctx.label("invalid_" + case["why"])


def check(case, ctx):
    part = case["part"]
    if part == "ofdm":
        return _check_ofdm(case, ctx)
    if part == "chan":
        return _check_chan(case, ctx)
    if part == "negctl":
        return _check_negctl(case, ctx)
    return _check_invalid(case, ctx)


# ----------------------------------------------------------------------------
# every direct library call made by this check must leave the arrays handed
# to it unchanged (core.GuardedCalls)
# ----------------------------------------------------------------------------
def _guard_targets():
    # (OFDM.demodulate re-shapes the array handed to it - existing behaviour;
    # its VALUES are checked by hand in _check_ofdm_structure)
    from pyphysim.modulators import ofdm
    return [(ofdm.OFDM, "modulate"),
            (ofdm.OfdmOneTapEqualizer, "equalize_data")]


_unguarded_check = check


def check(case, ctx):  # noqa: F811
    from ..core import GuardedCalls
    with GuardedCalls(_guard_targets(), dict(part=case.get("part"))):
        return _unguarded_check(case, ctx)
