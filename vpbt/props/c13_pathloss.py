"""C13 - path-loss and antenna-gain models are monotone, invertible and
unit-consistent, also after any sequence of parameter changes.

Parts
-----
pathloss  one model object + a history of steps; every step optionally calls
          one setter (exponent, carrier frequency, heights, area type,
          small-distance policy) and then queries the model at scalar and
          array distances.  A lock-step model (the documented closed form
          evaluated with the *current* parameter values) tells which
          distances are "too small" (negative loss) and what the loss is.
antenna   AntGainBS3GPP25996 (3 and 6 sectors) at scalar and array angles.
"""
import math
import warnings

import numpy as np
from hypothesis import strategies as st

from ..core import Part, Violation
from ..gens import fixed, fl, loguniform

PROPERTY = "C13"
LEVEL = "exploration"
RULE = ("histories of 1..9 steps on PathLossGeneral / FreeSpace / 3GPP1 / "
        "MetisPS7 (LOS, NLOS with 1..6 walls, scalar and per-distance wall "
        "arrays) / OkomuraHata (4 area types); a step = optional setter call "
        "(n 1.5..6, fc 100..6000 MHz or 150..1500 for Hata, hbs 30..200, "
        "hms 1..10, area type, small-distance policy; for Hata also values "
        "outside these ranges, which must be refused) followed by queries at "
        "1..6 distances (log-uniform over 1e-3..1e3, a small-distance class "
        "1e-7..1e-3, and distances placed at 10^+-u around the model's 0 dB "
        "crossing) as scalars and as one array/list; sector antennas at "
        "1..8 angles in [-180,180]. non-trivial = a path-loss query preceded "
        "by >= 2 parameter-setter calls, or an antenna case with angles on "
        "both sides of the floor angle; distinct = SHA-1 of the case")
RULE += (" Added after the white-box review: "
         "METIS queries without the num_walls keyword, distances "
         "within 1e-13 decades of the 0 dB crossing, attribute "
         "read-back and read-modify-write after setter steps, integer "
         "angle arrays ")

RULE += (" Added after the second white-box review: the inverse query "
         "as the first call after a setter, judged against the lock-step "
         "model; numpy scalars (float64/int64 distances, int64/int32/intp "
         "wall counts) as scalar arguments. ")

LEVEL_TEXT = ("Seeded, sharded Hypothesis search over model configurations, "
              "setter histories and distances/angles, judged by a lock-step "
              "model (documented closed forms with the current parameter "
              "values), inverse round trips, the Friis formula, a freshly "
              "constructed twin object and order relations. Absence of "
              "violations is not proven.")
LEVEL_NOTE = ("float64; dB comparisons 1e-9 relative to max(1,|PL|), inverse "
              "1e-9 relative, Friis 0.01 dB as stated by the property; "
              "distances whose model loss is within 1e-9 dB of 0 are excluded "
              "from the raise/clamp decision (counted) unless exactly 0")
TECHNIQUE = ("property-based testing (Hypothesis): setter histories against a "
             "lock-step reference model + inverse / metamorphic oracles")
ASSUMPTIONS = [
    "'unit-consistent' is read as: the dB loss equals the formula documented "
    "in the class docstring evaluated with the CURRENT parameter values "
    "(d in km and fc in MHz outdoor; d in m, fc converted to GHz for METIS "
    "PS7), tolerance 1e-9*max(1,|PL|); the same reading for the antenna "
    "pattern G - min(12 (theta/theta_3dB)^2, A_m) of 3GPP 25.996",
    "a distance is 'too small for the model' when the documented formula "
    "gives a loss < 0 dB; |loss| < 1e-9 dB is treated as a tie and excluded "
    "(counted), except a loss that is exactly 0 (d=1, C=0), which must be "
    "accepted as 0 dB",
    "the distance-for-a-loss query is offered by PathLossGeneral, "
    "PathLossFreeSpace and PathLoss3GPP1 only (MetisPS7 returns None, "
    "OkomuraHata raises NotImplementedError); it is checked on distances "
    "whose loss was not clamped",
    "the Friis comparison (0.01 dB, fixed by the property) uses "
    "c = 299792458 m/s; the library constant corresponds to c = 3e8, a "
    "constant 0.006 dB offset that is inside the stated 0.01 dB",
    "shadowing (use_shadow_bool) stays off for all value comparisons: the "
    "property is about the deterministic loss; a sixth of the steps makes "
    "one shadowed query, judged only by the policy (never a negative loss "
    "or a linear value above 1)",
    "python lists of distances are passed only to the PathLossGeneral "
    "family (as the unit tests do); OkomuraHata/MetisPS7 get numpy arrays",
]

AREAS = ["open", "suburban", "medium city", "large city"]
TIE = 1e-9
C_LIGHT = 299792458.0


# ----------------------------------------------------------------------------
# generators
# ----------------------------------------------------------------------------
def _dist():
    """one distance: ['abs', d] or ['rel', u] (d = d0*10^u, d0 = distance at
    which the current model gives 0 dB)"""
    ab = st.one_of(loguniform(-3, 3), loguniform(-3, 3), loguniform(-7, -3),
                   st.sampled_from([1.0, 1.0, 2.0, 20.0, 1e-3, 0.5, 1000.0]))
    rel = st.tuples(st.sampled_from([-1.0, 1.0]),
                    st.one_of(loguniform(-7, 0), loguniform(-7, 0),
                              loguniform(-13, -7))).map(lambda t: t[0] * t[1])
    return st.one_of(ab.map(lambda d: ["abs", d]), ab.map(lambda d: ["abs", d]),
                     rel.map(lambda u: ["rel", u]))


def _n():
    return st.one_of(st.just(2.0), st.just(2.0), fl(1.5, 6.0),
                     st.sampled_from([1.5, 3.0, 3.76, 4.0, 6.0]))


def _fc(lo, hi):
    return st.one_of(fl(lo, hi), st.sampled_from(
        [v for v in [100.0, 150.0, 299.0, 301.0, 900.0, 1500.0, 2000.0,
                     5000.0, 6000.0] if lo <= v <= hi]))


def _setter(model):
    pol = st.booleans().map(lambda b: ["policy", b])
    if model == "freespace":
        return st.one_of(_n().map(lambda v: ["n", v]),
                         _fc(100.0, 6000.0).map(lambda v: ["fc", v]), pol)
    if model == "metis":
        return st.one_of(_fc(100.0, 6000.0).map(lambda v: ["fc", v]),
                         _fc(100.0, 6000.0).map(lambda v: ["fc", v]), pol)
    if model == "hata":
        return st.one_of(
            _fc(150.0, 1500.0).map(lambda v: ["fc", v]),
            st.one_of(fl(30.0, 200.0), st.sampled_from([30.0, 200.0])).map(
                lambda v: ["hbs", v]),
            st.one_of(fl(1.0, 10.0), st.sampled_from([1.0, 10.0])).map(
                lambda v: ["hms", v]),
            st.sampled_from(AREAS).map(lambda v: ["area", v]), pol,
            # values outside the documented validity ranges: the setter
            # refuses them (RuntimeError) and the model stays what it was
            st.sampled_from([["bad", "fc", 100.0], ["bad", "fc", 2000.0],
                             ["bad", "hbs", 10.0], ["bad", "hbs", 250.0],
                             ["bad", "hms", 0.5], ["bad", "hms", 12.0],
                             ["bad", "area", "rural"]]))
    return pol      # general, 3gpp1: only the policy can change


def _init(model):
    if model == "general":
        return fixed(n=_n(), C=st.one_of(st.just(0.0), fl(-100.0, 200.0),
                                         st.sampled_from([128.1, 91.5, -20.])))
    if model == "freespace":
        return st.one_of(st.just({}), fixed(n=_n(), fc=_fc(100.0, 6000.0)))
    if model == "metis":
        return st.one_of(st.just({}), fixed(fc=_fc(100.0, 6000.0)))
    return st.just({})


def _pathloss_strategy(tier):
    max_steps = 9 if tier == "quick" else 12
    max_d = 6 if tier == "quick" else 12
    # strategies are built once (re-creating them inside the composite
    # dominates the generation cost)
    models = ["general", "freespace", "3gpp1", "metis", "hata"]
    setters = {m: _setter(m) for m in models}
    inits = {m: _init(m) for m in models}
    dists = st.lists(_dist(), min_size=1, max_size=max_d)
    forms_any = st.sampled_from(["array", "array", "array2d"])
    forms_gen = st.sampled_from(["array", "array2d", "list"])
    walls_int = st.integers(0, 6)
    walls_few = st.sampled_from([0, 0, 1, 2])
    model_st = st.sampled_from(["general", "freespace", "freespace", "3gpp1",
                                "metis", "metis", "hata", "hata"])
    nsteps_st = st.integers(1, max_steps)
    bools = st.booleans()

    @st.composite
    def build(draw):
        model = draw(model_st)
        nsteps = draw(nsteps_st)
        steps = []
        for i in range(nsteps):
            # the first step may query the freshly built object
            has_set = draw(bools) if i == 0 else True
            s = dict(set=draw(setters[model]) if has_set else None,
                     d=draw(dists),
                     form=draw(forms_gen if model in (
                         "general", "freespace", "3gpp1") else forms_any),
                     int_scalars=draw(bools), rmw=draw(bools),
                     inverse_first=draw(bools), np_scalars=draw(bools),
                     # a shadowed query (random log-normal term switched on
                     # for one query, then off again)
                     shadow=draw(st.integers(0, 5)) == 0,
                     plot=draw(bools) and draw(bools))
            if model == "metis":
                s["omit_kw"] = draw(bools)
                n = len(s["d"])
                kind = draw(walls_few)      # 0: one int, 1: any, 2: few walls
                if kind == 0:
                    s["walls"] = draw(walls_int)
                else:
                    el = walls_int if kind == 1 else walls_few
                    s["walls"] = [draw(el) for _ in range(n)]
            steps.append(s)
        return dict(part="pathloss", model=model, init=draw(inits[model]),
                    steps=steps)
    return build()


def _antenna_strategy(tier):
    ang = st.one_of(fl(-180.0, 180.0), fl(-100.0, 100.0), fl(-50.0, 50.0),
                    st.sampled_from([0.0, 180.0, -180.0, 90.0, 35.0, 70.0,
                                     48.0, 49.0, 90.0, 91.0, 1e-6]),
                    st.integers(-180, 180).map(float))
    return fixed(part=st.just("antenna"), sectors=st.sampled_from([3, 6]),
                 angles=st.lists(ang, min_size=1, max_size=8),
                 int_angles=st.booleans())


PARTS = [
    Part("pathloss", _pathloss_strategy, quick=3200, thorough=150000,
         quick_shards=8),
    Part("antenna", _antenna_strategy, quick=1200, thorough=40000,
         quick_shards=4),
]


# ----------------------------------------------------------------------------
# lock-step model: PL(d) = A*log10(d) + B from the current parameter values
# ----------------------------------------------------------------------------
def _hata_coeffs(p):
    lf = math.log10(p["fc"])
    hbs, hms, area = p["hbs"], p["hms"], p["area"]
    if area == "large city":
        if p["fc"] > 300:
            a = 3.2 * math.log10(11.75 * hms) ** 2 - 4.97
        else:
            a = 8.29 * math.log10(1.54 * hms) ** 2 - 1.10
    else:
        a = (1.1 * lf - 0.7) * hms - 1.56 * lf + 0.8
    if area == "open":
        K = 4.78 * lf ** 2 - 18.33 * lf + 40.94
    elif area == "suburban":
        K = 2 * math.log10(p["fc"] / 28.0) ** 2 + 5.4
    else:
        K = 0.0
    A = 44.9 - 6.55 * math.log10(hbs)
    B = 69.55 + 26.16 * lf - 13.82 * math.log10(hbs) - a - K
    return A, B


def _coeffs(model, p, walls=0):
    if model in ("general", "3gpp1"):
        return 10.0 * p["n"], p["C"]
    if model == "freespace":
        return 10.0 * p["n"], 10.0 * p["n"] * (
            math.log10(p["fc"] * 1e6) - 4.377911390697565)
    if model == "metis":
        f = 20.0 * math.log10((p["fc"] / 1e3) / 5.0)
        if walls == 0:
            return 18.7, 46.8 + f
        return 36.8, 43.8 + f + 5.0 * (walls - 1)
    return _hata_coeffs(p)


def _build(P, model, p):
    if model == "general":
        return P.PathLossGeneral(p["n"], p["C"])
    if model == "freespace":
        return P.PathLossFreeSpace(n=p["n"], fc=p["fc"])
    if model == "3gpp1":
        return P.PathLoss3GPP1()
    if model == "metis":
        return P.PathLossMetisPS7(fc=p["fc"])
    obj = P.PathLossOkomuraHata()
    obj.fc, obj.hbs, obj.hms, obj.area_type = (p["fc"], p["hbs"], p["hms"],
                                               p["area"])
    return obj


def _initial(P, model, init):
    """-> (object built the way the case says, parameter model)"""
    if model == "general":
        p = dict(n=init["n"], C=init["C"])
        return P.PathLossGeneral(p["n"], p["C"]), p
    if model == "freespace":
        if init:
            p = dict(n=init["n"], fc=init["fc"])
            if int(p["fc"]) % 2:
                # documented positional order: exponent, then frequency
                return P.PathLossFreeSpace(p["n"], p["fc"]), p
            return P.PathLossFreeSpace(n=p["n"], fc=p["fc"]), p
        return P.PathLossFreeSpace(), dict(n=2.0, fc=900.0)
    if model == "3gpp1":
        return P.PathLoss3GPP1(), dict(n=3.76, C=128.1)
    if model == "metis":
        if init:
            return P.PathLossMetisPS7(fc=init["fc"]), dict(fc=init["fc"])
        return P.PathLossMetisPS7(), dict(fc=900.0)
    return P.PathLossOkomuraHata(), dict(fc=900.0, hbs=30.0, hms=1.0,
                                         area="suburban")


_ATTR = {"n": "n", "fc": "fc", "hbs": "hbs", "hms": "hms",
         "area": "area_type", "policy": "handle_small_distances_bool"}
OFFERS_INVERSE = ("general", "freespace", "3gpp1")


class _FakeAxes(object):
    """what plot_deterministic_path_loss_in_dB needs of matplotlib axes"""
    def __init__(self):
        self.calls = []

    def plot(self, *a, **k):
        self.calls.append(a)


def _rel(a, b):
    return abs(a - b) / max(abs(b), 1e-300)


def _expect_raise(fn, what, tags):
    """contract 'raises RuntimeError' for a too small distance with the
    policy off; any other exception class propagates (library failure)"""
    try:
        r = fn()
    except RuntimeError:
        return
    raise Violation("small_distance_not_raised",
                    "%s returned %r instead of raising RuntimeError "
                    "(handle_small_distances_bool is False)" % (what, r),
                    tags)


def _query(ctx, P, obj, p, policy, model, step, nset):
    tags = dict(model=model, policy=bool(policy), nset=min(nset, 3))
    kw_of = (lambda w: dict(num_walls=w)) if model == "metis" else \
        (lambda w: {})
    n = len(step["d"])
    walls = step.get("walls", 0)
    wl = list(walls) if isinstance(walls, list) else [walls] * n

    # ---- resolve distances and evaluate the lock-step model
    ds, AB = [], []
    for (kind, v), w in zip(step["d"], wl):
        A, B = _coeffs(model, p, w)
        d = float(v) if kind == "abs" else 10.0 ** (-B / A + v)
        if not (1e-300 < d < 1e300):
            d = 1.0
        ds.append(d)
        AB.append((A, B))
    PLm = [A * math.log10(d) + B for d, (A, B) in zip(ds, AB)]
    cls = []
    for d, (A, B), plm in zip(ds, AB, PLm):
        if d == 1.0 and B == 0.0:
            cls.append("pos")       # exactly 0 dB: valid, no clamping needed
            ctx.label("exact_zero_loss")
        elif plm < -TIE:
            cls.append("neg")
        elif plm > TIE:
            cls.append("pos")
        else:
            cls.append("tie")
            ctx.label("tie_excluded")
    ctx.label("query:%s" % model, "policy:%s" % ("on" if policy else "off"))
    if "neg" in cls:
        ctx.label("has_too_small_distance")
    if any(k == "rel" for k, _ in step["d"]):
        ctx.label("near_zero_crossing")
    ctx.nontrivial(nset >= 2)

    def ftol(x):
        return 1e-9 * max(1.0, abs(x))

    # ---- scalar queries
    scal = [None] * n
    for i in range(n):
        d = ds[i]
        if step["int_scalars"] and d == int(d) and d < 1e15:
            d = int(d)
        kw = kw_of(wl[i])
        if step.get("np_scalars"):
            # what a loop over a distance array / a wall-count matrix hands
            # to the library: numpy scalars
            d = np.int64(d) if isinstance(d, int) else np.float64(d)
            if model == "metis":
                kw = kw_of((np.int64, np.int32, np.intp)[i % 3](wl[i]))
            ctx.label("numpy_scalar_arguments")
        if step.get("omit_kw") and model == "metis" and wl[i] == 0:
            # line of sight is the documented default of num_walls
            kw = {}
            ctx.label("metis:num_walls_default")
        t = dict(tags, form="scalar")
        if cls[i] == "tie":
            # the model loss is within 1e-9 dB of 0: this check cannot tell
            # on which side it is, but whatever the library decides, it never
            # returns a negative loss / a linear value above 1
            try:
                r = obj.calc_path_loss_dB(d, **kw)
                lin = obj.calc_path_loss(d, **kw)
            except RuntimeError:
                if policy:
                    raise Violation(
                        "small_distance_raised", "calc_path_loss(_dB)(%r) "
                        "raised although handle_small_distances_bool is "
                        "True (model loss %.3e dB)" % (d, PLm[i]), t)
                continue
            if not (float(r) >= 0.0 and 0.0 < float(lin) <= 1.0):
                raise Violation("linear_range", "d=%r (model loss %.3e dB): "
                                "%r dB, linear %r" % (d, PLm[i], r, lin), t)
            ctx.close("dB_vs_documented_formula", abs(float(r) - PLm[i]),
                      ftol(PLm[i]), "%s d=%r near the 0 dB crossing" %
                      (model, d), t)
            continue
        if cls[i] == "neg":
            if not policy:
                _expect_raise(lambda: obj.calc_path_loss_dB(d, **kw),
                              "calc_path_loss_dB(%r)" % d, t)
                _expect_raise(lambda: obj.calc_path_loss(d, **kw),
                              "calc_path_loss(%r)" % d, t)
                continue
            r = obj.calc_path_loss_dB(d, **kw)
            if not (np.ndim(r) == 0 and r == 0.0):
                raise Violation("small_distance_not_clamped",
                                "calc_path_loss_dB(%r) = %r, expected 0 dB "
                                "(model loss %.6g dB)" % (d, r, PLm[i]), t)
            lin = obj.calc_path_loss(d, **kw)
            if not (np.ndim(lin) == 0 and lin == 1.0):
                raise Violation("small_distance_not_clamped",
                                "calc_path_loss(%r) = %r, expected 1.0" %
                                (d, lin), t)
            scal[i] = 0.0
            continue
        r = obj.calc_path_loss_dB(d, **kw)
        if np.ndim(r) != 0:
            raise Violation("result_shape", "calc_path_loss_dB(scalar) "
                            "returned shape %r" % (np.shape(r),), t)
        r = float(r)
        scal[i] = r
        ctx.close("dB_vs_documented_formula", abs(r - PLm[i]), ftol(PLm[i]),
                  "%s params=%r d=%r walls=%r: got %r, formula %r" %
                  (model, p, d, wl[i], r, PLm[i]), t)
        lin = float(obj.calc_path_loss(d, **kw))
        ref = 10.0 ** (-r / 10.0)
        ctx.close("linear_vs_dB", _rel(lin, ref), 1e-12,
                  "calc_path_loss(%r)=%r, 10^(-dB/10)=%r" % (d, lin, ref), t)
        if not (0.0 < lin <= 1.0):
            raise Violation("linear_range", "calc_path_loss(%r) = %r not in "
                            "(0, 1]" % (d, lin), t)
        if model in OFFERS_INVERSE and PLm[i] > 0:
            back = float(obj.which_distance_dB(r))
            ctx.close("inverse_dB", _rel(back, ds[i]), 1e-9,
                      "which_distance_dB(calc_path_loss_dB(%r)) = %r "
                      "(params %r)" % (d, back, p), t)
            back = float(obj.which_distance(lin))
            ctx.close("inverse_linear", _rel(back, ds[i]), 1e-9,
                      "which_distance(calc_path_loss(%r)) = %r (params %r)"
                      % (d, back, p), t)
        if model == "freespace" and p["n"] == 2.0:
            friis = 20.0 * math.log10(
                4.0 * math.pi * (ds[i] * 1e3) * (p["fc"] * 1e6) / C_LIGHT)
            ctx.close("friis", abs(r - friis), 0.01,
                      "free space n=2 fc=%r d=%r km: %r dB, Friis %r dB" %
                      (p["fc"], ds[i], r, friis), t)
            ctx.label("friis_checked")

    # ---- array query
    if "tie" in cls:
        return
    t = dict(tags, form=step["form"])
    # distance matrices (2-D) are what apps/ pass; 'array2d' needs an even n
    shape = (2, n // 2) if (step["form"] == "array2d" and n % 2 == 0) \
        else (n,)
    ctx.label("form:%s" % ("list" if step["form"] == "list"
                           else "%dd-array" % len(shape)))
    D = list(ds) if step["form"] == "list" else \
        np.array(ds, dtype=float).reshape(shape)
    if model == "metis":
        kw = dict(num_walls=(np.array(wl, dtype=int).reshape(shape)
                             if isinstance(walls, list) else int(walls)))
        ctx.label("metis:walls_array" if isinstance(walls, list)
                  else "metis:walls_int")
        if isinstance(walls, list) and 0 in wl and max(wl) > 0:
            ctx.label("metis:LOS_and_NLOS_mixed")
    else:
        kw = {}
    if "neg" in cls and not policy:
        _expect_raise(lambda: obj.calc_path_loss_dB(D, **kw),
                      "calc_path_loss_dB(%r)" % ds, t)
        _expect_raise(lambda: obj.calc_path_loss(D, **kw),
                      "calc_path_loss(%r)" % ds, t)
        return
    R = obj.calc_path_loss_dB(D, **kw)
    if not isinstance(R, np.ndarray) or R.shape != shape:
        raise Violation("result_shape", "calc_path_loss_dB of distances of "
                        "shape %r returned %s shape %r" %
                        (shape, type(R).__name__, np.shape(R)), t)
    R = R.astype(float).reshape(-1)
    Lin = np.asarray(obj.calc_path_loss(D, **kw), dtype=float)
    if Lin.shape != shape:
        raise Violation("result_shape", "calc_path_loss of distances of "
                        "shape %r returned shape %r" % (shape, Lin.shape), t)
    Lin = Lin.reshape(-1)
    for i in range(n):
        if cls[i] == "neg":
            if R[i] != 0.0 or Lin[i] != 1.0:
                raise Violation(
                    "small_distance_not_clamped",
                    "array query: element %d (d=%r, model loss %.6g dB) is "
                    "%r dB / %r linear, expected 0 dB / 1.0" %
                    (i, ds[i], PLm[i], R[i], Lin[i]), t)
            continue
        ctx.close("dB_vs_documented_formula", abs(R[i] - PLm[i]),
                  ftol(PLm[i]), "%s params=%r array element d=%r walls=%r: "
                  "got %r, formula %r" % (model, p, ds[i], wl[i], R[i],
                                          PLm[i]), t)
        if scal[i] is not None:
            ctx.close("array_vs_scalar", abs(R[i] - scal[i]),
                      1e-11 * max(1.0, abs(scal[i])),
                      "d=%r: array %r, scalar %r" % (ds[i], R[i], scal[i]), t)
        ref = 10.0 ** (-R[i] / 10.0)
        ctx.close("linear_vs_dB", _rel(Lin[i], ref), 1e-12,
                  "array element d=%r" % ds[i], t)
        if not (0.0 < Lin[i] <= 1.0):
            raise Violation("linear_range", "calc_path_loss(...)[%d] = %r "
                            "not in (0, 1]" % (i, Lin[i]), t)
    # whole-number distances handed over as an INTEGER-dtype array must give
    # what the same distances give one by one as floats
    if policy and step["form"] != "list":
        di = [max(1, int(round(x))) for x in ds]
        Dint = np.array(di, dtype=np.int64).reshape(shape)
        Rint = np.asarray(obj.calc_path_loss_dB(Dint, **kw))
        Lint = np.asarray(obj.calc_path_loss(Dint, **kw))
        for i in range(n):
            kw_i = dict(num_walls=int(wl[i])) if model == "metis" else {}
            r_s = float(obj.calc_path_loss_dB(float(di[i]), **kw_i))
            l_s = float(obj.calc_path_loss(float(di[i]), **kw_i))
            ctx.close("int_array_vs_float_scalar",
                      abs(float(Rint.reshape(-1)[i]) - r_s),
                      1e-11 * max(1.0, abs(r_s)),
                      "integer distance array element d=%d: %r dB, scalar "
                      "float %r dB" % (di[i], Rint.reshape(-1)[i], r_s), t)
            ctx.close("int_array_vs_float_scalar_linear",
                      _rel(float(Lint.reshape(-1)[i]), l_s), 1e-11,
                      "integer distance array element d=%d" % di[i], t)
        ctx.label("int_distance_array_checked")
    # METIS: one wall count PER ROW of a 2-D distance array (broadcasting of
    # num_walls against the distances) gives what each link gives alone
    if model == "metis" and len(shape) == 2 and shape[1] >= 2 and policy:
        Dm = np.array(ds, dtype=float).reshape(shape)
        w_rows = np.array([[int(wl[0])], [int(wl[-1])]], dtype=int)  # (2, 1)
        Rb = np.asarray(obj.calc_path_loss_dB(Dm, num_walls=w_rows),
                        dtype=float)
        if Rb.shape != shape:
            raise Violation("result_shape", "num_walls of shape (2, 1) with "
                            "distances %r gave shape %r" % (shape, Rb.shape),
                            t)
        for r in range(2):
            for c in range(shape[1]):
                one = float(obj.calc_path_loss_dB(
                    float(Dm[r, c]), num_walls=int(w_rows[r, 0])))
                ctx.close("walls_broadcast_per_row", abs(Rb[r, c] - one),
                          1e-11 * max(1.0, abs(one)),
                          "d[%d,%d]=%r walls(row)=%d: array %r, single link "
                          "%r" % (r, c, Dm[r, c], w_rows[r, 0], Rb[r, c],
                                  one), t)
        ctx.label("metis:walls_broadcast_per_row")
    # monotone in distance (same wall count)
    order = sorted(range(n), key=lambda i: ds[i])
    for a in range(n):
        for b in range(a + 1, n):
            i, j = order[a], order[b]
            if wl[i] != wl[j] or ds[i] == ds[j]:
                continue
            ctx.close("monotone_in_distance", max(0.0, R[i] - R[j]), 1e-9,
                      "loss(%r)=%r > loss(%r)=%r" % (ds[i], R[i], ds[j],
                                                     R[j]), t)
    # inverse on arrays
    if model in OFFERS_INVERSE:
        back = np.asarray(obj.which_distance_dB(R.reshape(shape).copy()),
                          dtype=float)
        back2 = np.asarray(obj.which_distance(Lin.reshape(shape).copy()),
                           dtype=float)
        if back.shape != shape or back2.shape != shape:
            raise Violation("result_shape", "which_distance(_dB) of losses "
                            "of shape %r returned shapes %r / %r" %
                            (shape, back.shape, back2.shape), t)
        back, back2 = back.reshape(-1), back2.reshape(-1)
        for i in range(n):
            if cls[i] == "pos" and PLm[i] > 0:
                ctx.close("inverse_dB", _rel(back[i], ds[i]), 1e-9,
                          "array: which_distance_dB(loss(%r)) = %r" %
                          (ds[i], back[i]), t)
                ctx.close("inverse_linear", _rel(back2[i], ds[i]), 1e-9,
                          "array: which_distance(loss(%r)) = %r" %
                          (ds[i], back2[i]), t)
    # a freshly constructed object with the same parameter values agrees
    twin = _build(P, model, p)
    twin.handle_small_distances_bool = True
    R2 = np.asarray(twin.calc_path_loss_dB(D, **kw),
                    dtype=float).reshape(-1)
    for i in range(n):
        ctx.close("same_as_fresh_object", abs(R[i] - R2[i]),
                  1e-12 * max(1.0, abs(R2[i])),
                  "%s after %d setter calls params=%r d=%r: %r, fresh "
                  "object %r" % (model, nset, p, ds[i], R[i], R2[i]), t)


def _shadowed_query(ctx, obj, model, p, policy, step, nset):
    """with shadowing the loss is random, but what is returned still obeys
    the policy: a value that ends up negative is clamped to 0 dB (linear 1)
    or the call raises - never a negative loss / a linear value above 1"""
    A0, B0 = _coeffs(model, p, 0)
    rs = np.random.RandomState(nset * 7919 + len(step["d"]))
    # distances whose deterministic loss is 0.5 .. 30 dB: with sigma 8 dB
    # the shadowed value is negative for a good part of them
    d = 10.0 ** (-B0 / A0 + rs.uniform(0.5, 30.0, size=24) / A0)
    if not np.all((d > 1e-300) & (d < 1e300)):
        return
    kw = dict(num_walls=0) if model == "metis" else {}
    tags = dict(model=model, policy=bool(policy), nset=min(nset, 3),
                shadow=True)
    np.random.seed(int(rs.randint(0, 2 ** 31 - 1)))
    obj.sigma_shadow = 8.0
    obj.use_shadow_bool = True
    try:
        for form in ("array", "scalar"):
            try:
                if form == "array":
                    r = np.asarray(obj.calc_path_loss_dB(d.copy(), **kw),
                                   dtype=float)
                    lin = np.asarray(obj.calc_path_loss(d.copy(), **kw),
                                     dtype=float)
                else:
                    r = np.array([float(obj.calc_path_loss_dB(float(x), **kw))
                                  for x in d[:6]])
                    lin = np.array([float(obj.calc_path_loss(float(x), **kw))
                                    for x in d[:6]])
            except RuntimeError:
                if policy:
                    raise Violation("small_distance_raised", "a shadowed "
                                    "query raised although "
                                    "handle_small_distances_bool is True",
                                    tags)
                ctx.label("shadow:raised(policy off)")
                continue
            if not (np.all(r >= 0.0) and np.all(lin > 0.0) and
                    np.all(lin <= 1.0)):
                raise Violation("linear_range", "shadowed %s query: loss "
                                "%.6g dB .. %.6g dB, linear up to %.6g (policy "
                                "%s)" % (form, float(r.min()), float(r.max()),
                                         float(lin.max()),
                                         "clamp" if policy else "raise"),
                                tags)
            ctx.label("shadow:" + form)
    finally:
        obj.use_shadow_bool = False


def _check_pathloss(case, ctx):
    from pyphysim.channels import pathloss as P
    model = case["model"]
    with warnings.catch_warnings():
        warnings.simplefilter("ignore")     # Hata warns outside 1..20 km
        obj, p = _initial(P, model, case["init"])
        policy = False
        nset = 0
        ctx.label("model:" + model, "steps=%d" % min(len(case["steps"]), 9))
        for step in case["steps"]:
            if step["set"] is not None:
                if step["set"][0] == "bad":
                    _, name, value = step["set"]
                    try:
                        setattr(obj, _ATTR[name], value)
                    except RuntimeError:
                        ctx.label("set_refused:" + name)
                        name = None
                    else:
                        # accepted: nothing is stated about such a model
                        ctx.label("set_out_of_range_accepted")
                        return
                else:
                    name, value = step["set"]
                    setattr(obj, _ATTR[name], value)
                if name is None:
                    pass
                elif name == "policy":
                    policy = bool(value)
                else:
                    p[name] = value
                    nset += 1
                    ctx.label("set:" + name)
            # what the public attributes report is what was set, and
            # writing a value read back changes nothing
            for nm, attr in _ATTR.items():
                if nm == "policy" or nm not in p or not hasattr(obj, attr):
                    continue
                got = getattr(obj, attr)
                if got != p[nm]:
                    raise Violation("attribute_readback", "%s.%s reads %r, "
                                    "%r was set" % (model, attr, got, p[nm]),
                                    dict(model=model, attr=attr))
                if step.get("rmw"):
                    setattr(obj, attr, got)
            if step.get("rmw"):
                ctx.label("read_modify_write")
            if step.get("shadow") and not (
                    model == "hata" and p["area"] == "large city"
                    and p["fc"] == 300.0):
                _shadowed_query(ctx, obj, model, p, policy, step, nset)
            if step.get("inverse_first") and model in OFFERS_INVERSE:
                # the distance-for-a-loss query as the FIRST call after the
                # setters, judged against the lock-step model (not against
                # the library's own forward value)
                A0, B0 = _coeffs(model, p, 0)
                k0, v0 = step["d"][0]
                if k0 == "abs":
                    L0 = A0 * math.log10(float(v0)) + B0
                    if L0 > 1e-3:
                        t0 = dict(model=model, nset=min(nset, 3))
                        back = float(obj.which_distance_dB(L0))
                        ctx.close("inverse_first_dB", _rel(back, float(v0)),
                                  1e-9, "which_distance_dB(%r) = %r right "
                                  "after the setters, the model gives %r "
                                  "(params %r)" % (L0, back, v0, p), t0)
                        back = float(obj.which_distance(10.0 ** (-L0 / 10.0)))
                        ctx.close("inverse_first_linear",
                                  _rel(back, float(v0)), 1e-9,
                                  "which_distance(10^(-%r/10)) = %r right "
                                  "after the setters, the model gives %r "
                                  "(params %r)" % (L0, back, v0, p), t0)
                        ctx.label("inverse_before_any_forward_query")
            if step.get("plot"):
                # the deterministic loss is plotted on the caller's axes (a
                # stand-in object): this must not change the model
                A0, B0 = _coeffs(model, p, 0)
                dpl = np.array([10.0 ** (-B0 / A0 + 1.0),
                                10.0 ** (-B0 / A0 + 2.0)])
                if np.all((dpl > 1e-300) & (dpl < 1e300)) and not (
                        model == "hata" and p["area"] == "large city"
                        and p["fc"] == 300.0):
                    ax = _FakeAxes()
                    obj.plot_deterministic_path_loss_in_dB(dpl, ax)
                    ctx.label("plotted_on_callers_axes")
                    if len(ax.calls) != 1 or np.shape(ax.calls[0][1]) != (2,):
                        raise Violation("plot_call", "the caller's axes "
                                        "received %r" % (ax.calls,),
                                        dict(model=model))
            if model == "hata" and p["area"] == "large city" and \
                    p["fc"] == 300.0:
                ctx.label("tie_excluded_fc300")   # docs: '<300' / '>300'
                continue
            _query(ctx, P, obj, p, policy, model, step, nset)
        ctx.label("nset=%d" % min(nset, 4))


def _check_antenna(case, ctx):
    from pyphysim.channels import antennagain as AG
    sectors = int(case["sectors"])
    th3, Am, GdBi = (70.0, 20.0, 14.0) if sectors == 3 else (35.0, 23.0, 17.0)
    G = 10.0 ** (GdBi / 10.0)
    floor = G * 10.0 ** (-Am / 10.0)
    thf = th3 * math.sqrt(Am / 12.0)            # angle where the floor starts
    ant = AG.AntGainBS3GPP25996(sectors)
    tags = dict(sectors=sectors)
    angles = [float(a) for a in case["angles"]]
    ctx.label("antenna:%d" % sectors)
    inside = any(abs(a) < thf for a in angles)
    beyond = any(abs(a) > thf for a in angles)
    ctx.nontrivial(inside and beyond)
    g0 = float(ant.get_antenna_gain(0.0))
    ctx.close("antenna_boresight_gain", _rel(g0, G), 1e-12,
              "gain(0)=%r, %g dBi = %r" % (g0, GdBi, G), tags)
    gs = []
    for a in angles:
        arg = int(a) if (case["int_angles"] and a == int(a)) else a
        g = float(ant.get_antenna_gain(arg))
        gm = float(ant.get_antenna_gain(-arg))
        gs.append(g)
        ctx.close("antenna_peak_at_boresight", max(0.0, g - g0) / g0, 1e-12,
                  "gain(%r)=%r > gain(0)=%r" % (a, g, g0), tags)
        ctx.close("antenna_symmetric", abs(g - gm) / g0, 1e-12,
                  "gain(%r)=%r, gain(%r)=%r" % (a, g, -a, gm), tags)
        ctx.close("antenna_floor", max(0.0, floor - g) / floor, 1e-12,
                  "gain(%r)=%r below the floor %r" % (a, g, floor), tags)
        if abs(a) >= thf * (1 + 1e-9):
            ctx.label("antenna:beyond_floor_angle")
            ctx.close("antenna_floor", abs(g - floor) / floor, 1e-12,
                      "gain(%r)=%r, floor %r (floor angle %.4f)" %
                      (a, g, floor, thf), tags)
        ref = G * 10.0 ** (-min(12.0 * (a / th3) ** 2, Am) / 10.0)
        ctx.close("antenna_pattern_formula", _rel(g, ref), 1e-12,
                  "gain(%r)=%r, 3GPP 25.996 pattern %r" % (a, g, ref), tags)
    if case["int_angles"] and all(a == int(a) for a in angles):
        # whole-degree angles handed over as an integer-dtype array
        ctx.label("antenna:int_angle_array")
        ai = np.array([int(a) for a in angles], dtype=np.int64)
        gi = np.asarray(ant.get_antenna_gain(ai), dtype=float)
        if gi.shape != (len(angles),):
            raise Violation("result_shape", "get_antenna_gain(int array of "
                            "%d) has shape %r" % (len(angles), gi.shape),
                            tags)
        for a, g, ga in zip(angles, gs, gi):
            ctx.close("array_vs_scalar", abs(g - ga) / g0, 1e-12,
                      "angle %r: int array %r scalar %r" % (a, ga, g), tags)
    ang = np.array(angles, dtype=float)
    arr = np.asarray(ant.get_antenna_gain(ang), dtype=float)
    # the caller's angle array is used again (symmetry check, next antenna):
    # it still holds the angles and the same query gives the same gains
    if not np.array_equal(ang, np.array(angles, dtype=float)):
        raise Violation("angles_modified", "get_antenna_gain changed the "
                        "array of angles handed to it: %r -> %r" %
                        (angles, ang.tolist()), tags)
    arr_again = np.asarray(ant.get_antenna_gain(ang), dtype=float)
    if not np.array_equal(arr, arr_again):
        raise Violation("second_query_differs", "the same angle array gives "
                        "different gains the second time", tags)
    if arr.shape != (len(angles),):
        raise Violation("result_shape", "get_antenna_gain(array of %d) has "
                        "shape %r" % (len(angles), arr.shape), tags)
    for a, g, ga in zip(angles, gs, arr):
        ctx.close("array_vs_scalar", abs(g - ga) / g0, 1e-12,
                  "angle %r: array %r scalar %r" % (a, ga, g), tags)
    order = sorted(range(len(angles)), key=lambda i: abs(angles[i]))
    for x, y in zip(order, order[1:]):
        ctx.close("antenna_non_increasing", max(0.0, arr[y] - arr[x]) / g0,
                  1e-12, "gain(%r)=%r < gain(%r)=%r" %
                  (angles[x], arr[x], angles[y], arr[y]), tags)


def check(case, ctx):
    if case["part"] == "antenna":
        _check_antenna(case, ctx)
    else:
        _check_pathloss(case, ctx)


# ----------------------------------------------------------------------------
# every direct library call made by this check must leave the arrays handed
# to it unchanged (core.GuardedCalls)
# ----------------------------------------------------------------------------
def _guard_targets():
    from pyphysim.channels import antennagain, pathloss
    t = []
    for name in ("PathLossBase", "PathLossIndoorBase", "PathLossOutdoorBase",
                 "PathLossGeneral", "PathLossFreeSpace", "PathLoss3GPP1",
                 "PathLossMetisPS7", "PathLossOkomuraHata"):
        cls = getattr(pathloss, name, None)
        if cls is not None:
            t += [(cls, n) for n in ("calc_path_loss", "calc_path_loss_dB",
                                     "which_distance", "which_distance_dB")]
    t += [(antennagain.AntGainBS3GPP25996, "get_antenna_gain")]
    return t


_unguarded_check = check


def check(case, ctx):  # noqa: F811
    from ..core import GuardedCalls
    with GuardedCalls(_guard_targets(), dict(part=case.get("part"))):
        return _unguarded_check(case, ctx)
