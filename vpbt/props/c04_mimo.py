"""C04 - MIMO schemes recover the data over any full-rank channel within the
power budget; ZF / MMSE receive filters satisfy their defining equations.

Anchors: pyphysim/mimo/mimo.py (Blast, MRC, MRT, SVDMimo, GMDMimo, Alamouti,
MimoBase._calcZeroForceFilter / _calcMMSEFilter), pyphysim/util/misc.py (gmd).

The module also holds the reusable *condition-number-controlled matrix
generator* of DESIGN.md section 3: ``cond_matrix(Nr, Nt, emax)`` (Hypothesis
strategy of a plain-data description) and ``build_cond_matrix(desc)``
(description -> numpy matrix and its exact factors).
"""
import math

import numpy as np
from hypothesis import strategies as st

from ..core import Part, Violation
from ..gens import fl, seeds

PROPERTY = "C04"
LEVEL = "exploration"
RULE = ("scheme drawn from {Blast, MRC, MRT, SVDMimo, GMDMimo, Alamouti}; "
        "shape Nr>=Nt in 1..6 (thorough 1..8, rectangular up to Nt+3) or the "
        "shape the scheme requires (MRC Nt=1, MRT Nr=1, Alamouti Nt=2 with "
        "Nr 1..4); channel H = U diag(s) V^H with U, V seeded Haar / real "
        "orthogonal / permutation / identity factors and singular values "
        "drawn in [scale/kappa, scale], kappa <= 1e3 (thorough 1e6), classes "
        "generic / all equal / pair equal / nearly equal / at the bound; "
        "data = complex (or real / small-integer) blocks whose length is a "
        "multiple of the layers; noise variance log-uniform 1e-12..10 times "
        "s_max^2 or 1e-12..1e3 times s_min^2; every scheme x shape is additionally enumerated once per "
        "run; histories of 2..7 setter / use steps on one object include "
        "calls the scheme refuses (wrong antenna count, negative noise "
        "variance). non-trivial = max(Nr,Nt) >= 2 and (min(Nr,Nt) == 1 or "
        "kappa > 2); distinct = SHA-1 of the case description")
RULE += (" Added after the white-box review: "
         "history steps also: receive-only use, the channel array "
         "refilled in place, a 1-D channel (MRT, Alamouti) ")

LEVEL_TEXT = ("Generated-input search (Hypothesis, seeded, sharded) over "
              "schemes, antenna configurations, conditioning-controlled "
              "channels, data blocks and noise variances, plus a complete "
              "enumeration of scheme x shape. Oracles: my own noise-free "
              "channel product and comparison with the sent data; energy of "
              "the encoder output; closed forms of the pseudo-inverse and "
              "MMSE filter from the factors the channel was built from; "
              "push-through form of the MMSE normal equation; bound "
              "sigma^2/s_min^3 on the MMSE-ZF distance. Absence of "
              "violations is not proven.")
LEVEL_NOTE = ("float64; tolerances are proportional to the condition number "
              "of the generated channel (round trip 1e-11*kappa*max|x|; "
              "filters 1e-11*kappa resp. 1e-11*cond(H^H H + s2 I)); channels "
              "with kappa above 1e3 (quick) / 1e6 (thorough) are not "
              "generated")
TECHNIQUE = ("property-based testing (Hypothesis): round-trip, conservation "
             "(energy) and closed-form reference oracles on a "
             "condition-number-controlled channel generator")
ASSUMPTIONS = [
    "noise-free channel output is computed by the harness as H @ encode(x) "
    "with the same H that was given to the scheme",
    "round-trip tolerance 1e-11*kappa*max|x| (kappa = s_max/s_min of the "
    "generated channel; 1 for MRC, MRT and Alamouti whose decoders do not "
    "invert a matrix)",
    "Alamouti: only even data lengths are generated (a codeword carries two "
    "symbols); data is always a 1-D array as in the test-suite",
    "the ZF filter is compared with the Moore-Penrose inverse (implied by "
    "'MMSE tends to ZF', whose limit is (H^H H)^-1 H^H)",
    "for linear schemes G*H*W = I and W^H W = I/layers are checked on the "
    "static _calc_precoder/_calc_receive_filter pair named in the property's "
    "mechanism, in addition to encode()/decode()",
]

# ~70 CPU-seconds of work in the quick tier (10-12 s wall on 8 idle cores);
# the budgets only guard against a heavily loaded machine
QUICK_BUDGET_S = 240
THOROUGH_BUDGET_S = 2400

_RT_TOL = 1e-12       # x kappa x max|x|  (observed <= 1.2e-14 x kappa)
_EN_TOL = 1e-12       # relative
_FILT_TOL = 1e-12     # x kappa (ZF) or x cond(H^H H + s2 I) (MMSE)

_MATRIX_SCHEMES = ("Blast", "SVDMimo", "GMDMimo")
_NOISE_SCHEMES = ("Blast", "MRC", "GMDMimo")


# ----------------------------------------------------------------------------
# condition-number-controlled matrix generator (DESIGN.md section 3)
# ----------------------------------------------------------------------------
_PHI = 0.6180339887498949
_PSI = 0.7548776662466927


def _weyl(i, j=0):
    """integer -> [0, 1): frac(i*phi + j*psi).  Equidistributed over any set
    of distinct integers i; the simplest draw i = 0 lands on frac(j*psi), a
    different place for every position j of a list.

    Why not st.floats / a plain integer range: Hypothesis prefers 0 and small
    values (measured here: 25% of st.floats(-12, 3) were 0.0) and it executes
    every new prefix once with the *simplest* completion, so ~20% of the late
    draws of a composite case are the minimal value.  With a plain mapping
    that piles up exponents at one end (kappa = 1, noise = 1e-12, data = 0);
    with this one the simplest completion is a spread, non-degenerate value
    and the rest is uniform."""
    return (i * _PHI + j * _PSI) % 1.0


_INT = st.integers(0, 10 ** 6)


def _unif(lo, hi, j=0):
    return _INT.map(lambda i: float(lo + (hi - lo) * _weyl(i, j)))


def _unif_list(lo, hi, k):
    return st.lists(_INT, min_size=k, max_size=k).map(
        lambda ii: [float(lo + (hi - lo) * _weyl(i, j))
                    for j, i in enumerate(ii)])


def _logunif(lo_exp, hi_exp, j=0):
    return _unif(lo_exp, hi_exp, j).map(lambda e: float(10.0 ** e))


_NEAR_DELTAS = [1e-3, 1e-6, 1e-9, 1e-12, 1e-15]


def _svals(k, emax):
    """relative singular values in [10**-emax, 1], with their class name"""
    es = _unif_list(0.0, emax, k)       # exponents; simplest = [0, .75, .51..]
    generic = es.map(lambda e: ("generic", [float(10.0 ** -x) for x in e]))
    equal = st.just(("all_equal", [1.0] * k))
    if k < 2:
        return st.one_of(generic, equal,
                         st.just(("at_bound", [float(10.0 ** -emax)])))
    bound = st.tuples(_unif_list(0.0, emax, k - 2),
                      st.permutations(range(k))).map(
        lambda t: ("at_bound", [([1.0, float(10.0 ** -emax)] +
                                 [float(10.0 ** -x) for x in t[0]])[j]
                                for j in t[1]]))
    pair = st.tuples(es, st.integers(0, k - 1), st.integers(1, k - 1)).map(
        lambda t: ("pair_equal",
                   [float(10.0 ** -(t[0][t[1]] if i == (t[1] + t[2]) % k
                                    else x))
                    for i, x in enumerate(t[0])]))
    near = st.tuples(_unif(0.0, emax), st.sampled_from(_NEAR_DELTAS)).map(
        lambda t: ("near_equal",
                   [float(10.0 ** -t[0] * (1.0 - j * t[1]))
                    for j in range(k)]))
    if k == 2:                  # a pair of equal values would be all_equal
        return st.one_of(generic, generic, generic, equal, near, bound)
    return st.one_of(generic, generic, generic, generic, equal, pair, pair,
                     near, bound, bound)


def cond_matrix(Nr, Nt, emax=3.0):
    """Strategy: plain-data description of an Nr x Nt matrix of rank
    min(Nr, Nt) whose condition number is at most 10**emax (by construction,
    nothing is rejected).  See ``build_cond_matrix``."""
    k = min(Nr, Nt)
    return st.fixed_dictionaries(dict(
        Nr=st.just(Nr), Nt=st.just(Nt),
        basis=st.sampled_from(["haar", "haar", "haar", "real", "perm",
                               "identity"]),
        seed=seeds,
        sv=_svals(k, emax),
        # overall magnitude of the channel: order one, a few decades around
        # it, or a realistic linear path-loss amplitude (down to -180 dB)
        scale=st.one_of(st.just(1.0), _logunif(-3, 3, 1), _logunif(-3, 3, 1),
                        _logunif(-9, -3, 1)),
    )).map(lambda d: dict(Nr=d["Nr"], Nt=d["Nt"], basis=d["basis"],
                          seed=d["seed"], sv_class=d["sv"][0],
                          svals=d["sv"][1], scale=d["scale"]))


def _haar(n, rs, real):
    a = rs.randn(n, n)
    if not real:
        a = a + 1j * rs.randn(n, n)
    q, r = np.linalg.qr(a)
    d = np.diag(r)
    return q * (d / np.abs(d))


def build_cond_matrix(desc):
    """description -> (H, U, s, V) with H = U diag(s) V^H, U (Nr x k) and
    V (Nt x k) with orthonormal columns, k = min(Nr, Nt), s = svals*scale."""
    Nr, Nt = int(desc["Nr"]), int(desc["Nt"])
    k = min(Nr, Nt)
    s = np.array([float(x) for x in desc["svals"]]) * float(desc["scale"])
    assert s.shape == (k,) and np.all(s > 0)
    basis = desc["basis"]
    rs = np.random.RandomState(int(desc["seed"]))
    if basis == "identity":
        U, V = np.eye(Nr), np.eye(Nt)
    elif basis == "perm":
        U = np.eye(Nr)[:, rs.permutation(Nr)]
        V = np.eye(Nt)[:, rs.permutation(Nt)]
    else:
        U = _haar(Nr, rs, basis == "real")
        V = _haar(Nt, rs, basis == "real")
    U, V = U[:, :k], V[:, :k]
    H = (U * s).dot(V.conj().T)
    return H, U, s, V


# ----------------------------------------------------------------------------
# strategies
# ----------------------------------------------------------------------------
def _data(n):
    """data block of n symbols on a 1e-6 grid (no subnormal magnitudes, whose
    squares underflow and make an energy comparison meaningless)"""
    def build(t):
        kind, ii, sc = t
        v = [round(2.0 * _weyl(i, j + 1) - 1.0, 6) for j, i in enumerate(ii)]
        re, im = v[:n], v[n:]
        if kind == "complex":
            return dict(dtype="complex", scale=sc,
                        values=[[a, b] for a, b in zip(re, im)])
        if kind == "sparse":       # ~40% of the symbols are exactly zero
            return dict(dtype="complex", scale=sc,
                        values=[[0.0, 0.0] if abs(a) < 0.4 else [a, b]
                                for a, b in zip(re, im)])
        if kind == "qpsk":
            return dict(dtype="complex", scale=sc,
                        values=[[1.0 if a >= 0 else -1.0,
                                 1.0 if b >= 0 else -1.0]
                                for a, b in zip(re, im)])
        if kind == "float":
            return dict(dtype="float", scale=sc,
                        values=[[a, 0.0] for a in re])
        return dict(dtype="int", scale=1.0,
                    values=[[int(round(9 * a)), 0] for a in re])
    return st.tuples(
        st.sampled_from(["complex", "complex", "complex", "sparse", "qpsk",
                         "float", "int"]),
        st.lists(_INT, min_size=2 * n, max_size=2 * n),
        st.sampled_from([1.0, 1.0, 1e-3, 1e3])).map(build)


def _noise():
    """noise variance as [reference, factor]: factor log-uniform 1e-12..10
    times s_max^2, or 1e-12..1e3 times s_min^2 of the generated channel (so
    both 'negligible' and 'dominant' noise occur at every conditioning)"""
    return st.one_of(
        st.tuples(st.just("smax"), _logunif(-12, 1, 1)),
        st.tuples(st.just("smin"), _logunif(-12, 3, 1))).map(list)


def _noise_var(spec, s):
    ref = float(s.max()) if spec[0] == "smax" else float(s.min())
    return float(spec[1]) * ref ** 2


_SCHEME_POOL = ["Blast", "Blast", "SVDMimo", "SVDMimo", "SVDMimo", "GMDMimo",
                "GMDMimo", "GMDMimo", "MRC", "MRT", "Alamouti", "Alamouti"]


@st.composite
def _roundtrip_cases(draw, tier):
    thorough = tier == "thorough"
    nmax = 8 if thorough else 6
    # condition number bound 1e3 in most quick cases, 1e5 in a quarter of
    # them (an O(cond^2 eps) method is only visible there), 1e6 in thorough
    emax = 6.0 if thorough else draw(st.sampled_from([3.0, 3.0, 3.0, 5.0]))
    scheme = draw(st.sampled_from(_SCHEME_POOL))
    form = "2d"
    if scheme in _MATRIX_SCHEMES:
        Nt = draw(st.integers(1, nmax))
        Nr = Nt + (draw(st.integers(1, 3)) if draw(st.booleans()) else 0)
        layers = Nt
    elif scheme == "MRC":
        Nt, Nr, layers = 1, draw(st.integers(1, nmax)), 1
        form = draw(st.sampled_from(["1d", "2d"]))
    elif scheme == "MRT":
        Nr, Nt, layers = 1, draw(st.integers(1, nmax)), 1
        form = draw(st.sampled_from(["1d", "2d"]))
    else:
        Nt, Nr, layers = 2, draw(st.integers(1, 6 if thorough else 4)), 2
        if Nr == 1:
            form = draw(st.sampled_from(["1d", "2d"]))
    nb = draw(st.integers(1, 8 if thorough else 4))
    case = dict(part="roundtrip", scheme=scheme, form=form,
                chan=draw(cond_matrix(Nr, Nt, emax)),
                data=draw(_data(layers * nb)),
                via_setter=draw(st.booleans()),
                noise_mode="default", mmse_rel=None)
    if scheme in _NOISE_SCHEMES or scheme == "SVDMimo":
        case["noise_mode"] = draw(st.sampled_from(["default", "default",
                                                   "none", "zero"]))
    if scheme in _NOISE_SCHEMES:
        case["mmse_rel"] = draw(st.one_of(st.none(), _noise()))
    return case


@st.composite
def _filter_cases(draw, tier):
    thorough = tier == "thorough"
    nmax = 8 if thorough else 6
    emax = 6.0 if thorough else draw(st.sampled_from([3.0, 3.0, 3.0, 5.0]))
    Nt = draw(st.integers(1, nmax))
    Nr = Nt + (draw(st.integers(1, 3)) if draw(st.booleans()) else 0)
    return dict(part="filters", chan=draw(cond_matrix(Nr, Nt, emax)),
                noise_rel=draw(_noise()))


@st.composite
def _history_cases(draw, tier):
    """operation history on ONE scheme object: channel and noise-variance
    setters interleaved with encode/decode, compared after every step with a
    freshly built object (no stale derived filters)."""
    thorough = tier == "thorough"
    nmax = 6 if thorough else 4
    scheme = draw(st.sampled_from(_SCHEME_POOL))
    if scheme in _MATRIX_SCHEMES:
        Nt = draw(st.integers(1, nmax))
        Nr = Nt + draw(st.integers(0, 2))
        layers = Nt
    elif scheme == "MRC":
        Nt, Nr, layers = 1, draw(st.integers(1, nmax)), 1
    elif scheme == "MRT":
        Nr, Nt, layers = 1, draw(st.integers(1, nmax)), 1
    else:
        Nt, Nr, layers = 2, draw(st.integers(1, 4)), 2
    ops = []
    nops = draw(st.integers(2, 7))
    for _ in range(nops):
        kind = draw(st.sampled_from(["noise", "noise", "chan", "use", "use",
                                     "rejected", "query"]))
        if kind == "query":
            # a pure query (post-processing SINRs for some noise level)
            # between the set-up and the next use: it configures nothing
            ops.append(dict(op="query", value=draw(_noise()),
                            db=draw(st.booleans())))
            continue
        if kind == "rejected":
            # a call the scheme documents as an error (ValueError): wrong
            # antenna count for Alamouti / MRT, negative noise variance
            if scheme == "Alamouti":
                ops.append(dict(op="rejected", what="chan", chan=draw(
                    cond_matrix(Nr, draw(st.sampled_from([1, 3, 4])), 2.0))))
            elif scheme == "MRT":
                ops.append(dict(op="rejected", what="chan", chan=draw(
                    cond_matrix(draw(st.sampled_from([2, 3])), Nt, 2.0))))
            elif scheme in _NOISE_SCHEMES:
                ops.append(dict(op="rejected", what="noise",
                                value=-draw(fl(1e-3, 10.0))))
            else:
                ops.append(dict(op="use"))
        elif kind == "noise" and scheme in _NOISE_SCHEMES:
            ops.append(dict(op="noise", value=draw(st.one_of(
                st.just("none"), st.just("zero"), _noise()))))
        elif kind == "chan":
            ops.append(dict(op="chan", chan=draw(cond_matrix(Nr, Nt, 2.0)),
                            # how the new channel is handed over: a new
                            # array, the SAME array object refilled, or
                            # (MISO schemes) a 1-D vector
                            how=draw(st.sampled_from(
                                ["oned", "oned", "new", "inplace"]
                                if Nr == 1 and scheme in ("MRT", "Alamouti")
                                else ["new", "new", "inplace", "oned"]))))
        else:
            ops.append(dict(op=draw(st.sampled_from(["use", "use",
                                                     "decode_only"]))))
    ops.append(dict(op="use"))
    return dict(part="history", scheme=scheme,
                chan=draw(cond_matrix(Nr, Nt, 2.0)),
                data=draw(_data(layers * draw(st.integers(1, 3)))), ops=ops)


def _enum_shapes(tier):
    """every scheme x every shape of the quick domain, one fixed generic
    channel each (so no shape depends on the luck of the draw)"""
    nmax = 8 if tier == "thorough" else 6
    out = []

    def chan(Nr, Nt, seed):
        k = min(Nr, Nt)
        return dict(Nr=Nr, Nt=Nt, basis="haar", seed=seed, sv_class="generic",
                    svals=[round(1.0 / (1.0 + 0.75 * j), 6) for j in range(k)],
                    scale=1.0)

    def data(n):
        return dict(dtype="complex", scale=1.0,
                    values=[[round(math.cos(1.0 + 2.3 * j), 6),
                             round(math.sin(0.5 + 1.7 * j), 6)]
                            for j in range(n)])

    def add(scheme, Nr, Nt, form, layers):
        out.append(dict(part="shapes", scheme=scheme, form=form,
                        chan=chan(Nr, Nt, 1000 + 17 * Nr + Nt),
                        data=data(3 * layers), via_setter=False,
                        noise_mode="default", mmse_rel=None))
    for scheme in _MATRIX_SCHEMES:
        for Nt in range(1, nmax + 1):
            for Nr in range(Nt, nmax + 1):
                add(scheme, Nr, Nt, "2d", Nt)
    for n in range(1, nmax + 1):
        for form in ("1d", "2d"):
            add("MRC", n, 1, form, 1)
            add("MRT", 1, n, form, 1)
    for Nr in range(1, 5):
        add("Alamouti", Nr, 2, "2d", 2)
    add("Alamouti", 1, 2, "1d", 2)
    return out


PARTS = [
    Part("shapes", enumerate=_enum_shapes, exhaustive=True, quick_shards=2,
         thorough_shards=2),
    Part("roundtrip", _roundtrip_cases, quick=6000, thorough=160000,
         quick_shards=6, thorough_shards=24),
    Part("filters", _filter_cases, quick=2500, thorough=60000,
         quick_shards=2, thorough_shards=8),
    Part("history", _history_cases, quick=1500, thorough=40000,
         quick_shards=4, thorough_shards=8),
]


# ----------------------------------------------------------------------------
# helpers
# ----------------------------------------------------------------------------
class _tagged(object):
    """Attach case facts to an exception raised by library code (used to match
    known findings); the exception itself propagates unchanged."""
    def __init__(self, tags):
        self.tags = tags

    def __enter__(self):
        return self

    def __exit__(self, et, ev, tb):
        if ev is not None and not isinstance(ev, Violation):
            try:
                ev.vpbt_tags = dict(self.tags)
            except Exception:  # noqa
                pass
        return False


def _data_array(d):
    vals = d["values"]
    if d["dtype"] == "int":
        return np.array([int(v[0]) for v in vals], dtype=int)
    if d["dtype"] == "float":
        return np.array([float(v[0]) for v in vals]) * float(d["scale"])
    return np.array([complex(v[0], v[1]) for v in vals]) * float(d["scale"])


def _kappa_label(kappa):
    if kappa <= 2.0:
        return "kappa<=2"
    if kappa <= 1e2:
        return "kappa<=1e2"
    if kappa <= 1e3 * (1 + 1e-9):
        return "kappa<=1e3"
    return "kappa>1e3"


def _norm2(a):
    a = np.atleast_2d(a)
    return float(np.linalg.norm(a, 2))


def _as_ndarray(name, a, tags):
    if not isinstance(a, np.ndarray):
        raise Violation(name + "_type", "returned %s instead of a numpy "
                        "array" % type(a).__name__, tags)
    return a


# ----------------------------------------------------------------------------
# part: roundtrip / shapes
# ----------------------------------------------------------------------------
def _check_roundtrip(case, ctx):
    from pyphysim.mimo import mimo
    scheme, form = case["scheme"], case["form"]
    H, U, s, V = build_cond_matrix(case["chan"])
    Nr, Nt = H.shape
    k = min(Nr, Nt)
    kappa = float(s.max() / s.min())
    x = _data_array(case["data"])
    n = x.size
    xmax = float(np.max(np.abs(x)))
    layers = {"MRC": 1, "MRT": 1, "Alamouti": 2}.get(scheme, Nt)
    assert n % layers == 0 and n > 0
    shape_cls = ("vector" if k == 1 and max(Nr, Nt) > 1 else
                 "1x1" if max(Nr, Nt) == 1 else
                 "square" if Nr == Nt else "rect")
    tags = dict(scheme=scheme, Nr=Nr, Nt=Nt, rect=bool(Nr > Nt), form=form,
                sv_class=case["chan"]["sv_class"],
                basis=case["chan"]["basis"])

    ctx.label(scheme, "%s:%s" % (scheme, shape_cls), "form=" + form,
              "sv:" + case["chan"]["sv_class"],
              "basis:" + case["chan"]["basis"],
              _kappa_label(kappa) if k >= 2 else "rank1",
              "data:" + case["data"]["dtype"], "blocks=%d" % (n // layers),
              "noise_mode=" + case["noise_mode"])
    if case["chan"]["scale"] != 1.0:
        ctx.label("scaled_channel")
    ctx.nontrivial(max(Nr, Nt) >= 2 and (k == 1 or kappa > 2.0))

    # the channel exactly as the caller hands it over
    if form == "1d":
        h_arg = H.reshape(-1).copy()
    else:
        h_arg = H.copy()
    cls = getattr(mimo, scheme)

    with _tagged(tags):
        if case["via_setter"]:
            obj = cls()
            obj.set_channel_matrix(h_arg)
        else:
            obj = cls(h_arg)
        if case["noise_mode"] == "none":
            obj.set_noise_var(None)
        elif case["noise_mode"] == "zero":
            obj.set_noise_var(0.0)

        if (obj.Nr, obj.Nt) != (Nr, Nt):
            raise Violation("antenna_counts", "object reports Nr=%r Nt=%r for "
                            "a %dx%d channel" % (obj.Nr, obj.Nt, Nr, Nt), tags)
        nl = obj.getNumberOfLayers()
        want_nl = 1 if scheme in ("MRC", "MRT", "Alamouti") else Nt
        if nl != want_nl:
            raise Violation("layers", "getNumberOfLayers()=%r, expected %d" %
                            (nl, want_nl), tags)

        # ---- encode, energy
        e = _as_ndarray("encode", obj.encode(x.copy()), tags)
    if e.ndim != 2 or e.shape[0] != Nt or e.shape[1] < 1:
        raise Violation("encode_shape", "encode returned shape %r for Nt=%d, "
                        "%d symbols" % (e.shape, Nt, n), tags)
    uses = e.shape[1]
    want_uses = n if scheme in ("MRC", "MRT", "Alamouti") else n // Nt
    if uses != want_uses:
        raise Violation("encode_shape", "%d channel uses for %d symbols "
                        "(expected %d)" % (uses, n, want_uses), tags)
    es = float(np.mean(np.abs(x.astype(complex)) ** 2))
    en = float(np.sum(np.abs(e) ** 2)) / uses
    ctx.close("energy", abs(en - es), _EN_TOL * es,
              "energy per channel use %r, mean symbol energy %r" % (en, es),
              tags)

    # ---- noise-free channel output (my own product) and decode
    y = H.dot(e)
    if scheme == "MRT" and form == "1d":
        y = y.reshape(-1)         # what h.dot(encoded) gives for a 1-D h
    kappa_eff = kappa if scheme in _MATRIX_SCHEMES else 1.0
    with _tagged(tags):
        xh = _as_ndarray("decode", obj.decode(y), tags)
    if xh.shape != (n,):
        raise Violation("decode_shape", "decode returned shape %r for %d "
                        "symbols" % (xh.shape, n), tags)
    err = float(np.max(np.abs(xh - x))) if np.all(np.isfinite(xh)) \
        else math.inf
    ctx.close("roundtrip", err, _RT_TOL * kappa_eff * xmax,
              "scheme=%s %dx%d kappa=%.3g max|x|=%.3g" %
              (scheme, Nr, Nt, kappa, xmax), tags)

    # ---- linear schemes: the advertised precoder / receive filter pair
    if scheme != "Alamouti":
        with _tagged(tags):
            W = cls._calc_precoder(H.copy())
            G = cls._calc_receive_filter(H.copy())
        W = np.asarray(W)
        G = np.atleast_2d(np.asarray(G))
        if W.shape != (Nt, nl):
            raise Violation("precoder_shape", "precoder shape %r, expected "
                            "%r" % (W.shape, (Nt, nl)), tags)
        if G.shape != (nl, Nr):
            if not (scheme == "MRT" and G.shape == (1, 1)):
                raise Violation("filter_shape", "receive filter shape %r, "
                                "expected %r" % (G.shape, (nl, Nr)), tags)
        gram = W.conj().T.dot(W)
        ctx.close("precoder_power",
                  float(np.max(np.abs(gram - np.eye(nl) / nl))) * nl,
                  _EN_TOL * 10, "W^H W != I/layers", tags)
        eq = G.dot(H.dot(W))
        ctx.close("pair_identity", float(np.max(np.abs(eq - np.eye(nl)))),
                  _RT_TOL * kappa_eff, "G*H*W != I (kappa=%.3g)" % kappa,
                  tags)

    # ---- MMSE mode of the decoder: bounded, vanishing distance from x
    if case["mmse_rel"] is not None and scheme in _NOISE_SCHEMES:
        s2 = _noise_var(case["mmse_rel"], s)
        ctx.label("mmse_decode")
        with _tagged(dict(tags, mmse=True)):
            obj2 = cls(h_arg.copy())
            obj2.set_noise_var(s2)
            xm = _as_ndarray("decode", obj2.decode(y.copy()), tags)
        if xm.shape != (n,):
            raise Violation("decode_shape", "MMSE decode returned shape %r" %
                            (xm.shape,), tags)
        smin2, smax2 = float(s.min()) ** 2, float(s.max()) ** 2
        xn = float(np.linalg.norm(x))
        condA = (smax2 + s2) / (smin2 + s2)
        bound = s2 / (smin2 + s2) * xn
        dist = float(np.linalg.norm(xm - x)) if np.all(np.isfinite(xm)) \
            else math.inf
        slack = _FILT_TOL * condA * xn
        ctx.err("mmse_decode_excess", max(0.0, dist - bound), slack)
        if not (dist <= bound * (1 + 1e-9) + slack):
            raise Violation("mmse_decode_bound", "|decode_mmse - x| = %.3e > "
                            "s2/(smin^2+s2)*|x| = %.3e (s2=%.3e)" %
                            (dist, bound, s2), tags)
        # ... and not SMALLER than the bias of the MMSE filter allows: the
        # error operator s2 (H^H H + s2 I)^-1 has singular values between
        # s2/(smax^2+s2) and s2/(smin^2+s2), so a decoder that ignores the
        # noise variance (plain zero forcing) is not the MMSE decoder
        low = s2 / (smax2 + s2) * xn
        ctx.err("mmse_decode_deficit", max(0.0, low - dist), slack + 1e-9 * low)
        if not (dist >= low * (1 - 1e-9) - slack):
            raise Violation("mmse_decode_lower_bound", "|decode_mmse - x| = "
                            "%.3e < s2/(smax^2+s2)*|x| = %.3e (s2=%.3e): the "
                            "noise variance is not used" % (dist, low, s2),
                            tags)


# ----------------------------------------------------------------------------
# part: filters
# ----------------------------------------------------------------------------
def _check_filters(case, ctx):
    from pyphysim.mimo.mimo import Blast, MimoBase
    H, U, s, V = build_cond_matrix(case["chan"])
    Nr, Nt = H.shape
    assert Nr >= Nt
    s2 = _noise_var(case["noise_rel"], s)
    smin, smax = float(s.min()), float(s.max())
    kappa = smax / smin
    tags = dict(Nr=Nr, Nt=Nt, rect=bool(Nr > Nt),
                sv_class=case["chan"]["sv_class"],
                basis=case["chan"]["basis"])
    rho = s2 / smin ** 2
    ctx.label("filters", "filters:" + ("1x1" if Nr == 1 else "vector"
                                       if Nt == 1 else
                                       "square" if Nr == Nt else "rect"),
              "sv:" + case["chan"]["sv_class"],
              "basis:" + case["chan"]["basis"],
              _kappa_label(kappa) if Nt >= 2 else "rank1",
              "s2/smin^2 " + ("<1e-6" if rho < 1e-6 else "<1" if rho < 1
                              else ">=1"))
    ctx.nontrivial(Nr >= 2 and (Nt == 1 or kappa > 2.0))
    I = np.eye(Nt)
    Vh, Uh = V, U.conj().T

    # ---------------- zero forcing
    with _tagged(tags):
        Gz = np.asarray(MimoBase._calcZeroForceFilter(H.copy()))
    if Gz.shape != (Nt, Nr):
        raise Violation("zf_shape", "ZF filter shape %r for a %dx%d channel" %
                        (Gz.shape, Nr, Nt), tags)
    ctx.close("zf_left_inverse", float(np.max(np.abs(Gz.dot(H) - I))),
              _FILT_TOL * kappa, "G H != I (kappa=%.3g)" % kappa, tags)
    Gz_ref = (Vh / s).dot(Uh)
    ctx.close("zf_is_pinv", _norm2(Gz - Gz_ref) * smin, _FILT_TOL * kappa,
              "ZF filter differs from V diag(1/s) U^H (relative to 1/s_min)",
              tags)

    # ---------------- MMSE
    def mmse_ref(v):
        return (Vh * (s / (s ** 2 + v))).dot(Uh)

    with _tagged(tags):
        Gm = np.asarray(MimoBase._calcMMSEFilter(H.copy(), s2))
    if Gm.shape != (Nt, Nr):
        raise Violation("mmse_shape", "MMSE filter shape %r for a %dx%d "
                        "channel" % (Gm.shape, Nr, Nt), tags)
    condA = (smax ** 2 + s2) / (smin ** 2 + s2)
    Hh = H.conj().T
    # push-through form of the normal equation: G (H H^H + s2 I) = H^H
    res = Gm.dot(H.dot(Hh) + s2 * np.eye(Nr)) - Hh
    ctx.close("mmse_normal_eq", _norm2(res) / smax, _FILT_TOL * condA,
              "G (H H^H + s2 I) != H^H (s2=%.3e, relative to s_max)" % s2,
              tags)
    Gm_ref = mmse_ref(s2)
    gref = float(np.max(s / (s ** 2 + s2)))
    ctx.close("mmse_closed_form", _norm2(Gm - Gm_ref) / gref,
              _FILT_TOL * condA,
              "MMSE filter differs from V diag(s/(s^2+s2)) U^H (s2=%.3e)" %
              s2, tags)

    # ---------------- MMSE -> ZF as the noise vanishes
    prev = None
    for j in range(4):
        v = s2 * 10.0 ** (-3 * j)
        with _tagged(tags):
            Gj = Gm if j == 0 else np.asarray(
                MimoBase._calcMMSEFilter(H.copy(), v))
        d = _norm2(Gj - Gz)
        bound = v / smin ** 3
        cj = (smax ** 2 + v) / (smin ** 2 + v)
        slack = _FILT_TOL * (cj + kappa) / smin
        ctx.err("mmse_to_zf_excess", max(0.0, d - bound) * smin,
                _FILT_TOL * (cj + kappa))
        if not (d <= bound * (1 + 1e-9) + slack):
            raise Violation("mmse_to_zf_bound", "|G_mmse(%.3e) - G_zf| = "
                            "%.3e > s2/smin^3 = %.3e" % (v, d, bound), tags)
        if prev is not None and not (d <= prev + slack):
            raise Violation("mmse_to_zf_monotone", "distance to ZF grew from "
                            "%.3e to %.3e when s2 was divided by 1000" %
                            (prev, d), tags)
        prev = d

    # ---------------- the filter Blast.decode uses (x sqrt(Nt))
    with _tagged(tags):
        Gb0 = np.asarray(Blast._calc_receive_filter(H.copy(), 0.0))
        Gbn = np.asarray(Blast._calc_receive_filter(H.copy(), None))
        Gb1 = np.asarray(Blast._calc_receive_filter(H.copy(), s2))
    rt = math.sqrt(Nt)
    for name, G, ref, c, g in (("zf", Gb0, Gz_ref, kappa, 1.0 / smin),
                               ("zf", Gbn, Gz_ref, kappa, 1.0 / smin),
                               ("mmse", Gb1, Gm_ref, condA, gref)):
        if G.shape != (Nt, Nr):
            raise Violation("blast_filter_shape", "shape %r" % (G.shape,),
                            tags)
        ctx.close("blast_filter_" + name, _norm2(G - rt * ref) / (rt * g),
                  _FILT_TOL * c, "Blast receive filter != sqrt(Nt) * %s "
                  "filter (s2=%.3e)" % (name.upper(), s2), tags)


def _check_history(case, ctx):
    """after any sequence of set_channel_matrix / set_noise_var calls the
    object decodes exactly like a fresh object with the current settings,
    and recovers the data whenever no noise variance is set (ZF)."""
    from pyphysim.mimo import mimo
    scheme = case["scheme"]
    cls = getattr(mimo, scheme)
    x = _data_array(case["data"])
    xmax = float(np.max(np.abs(x)))
    H, _, s, _ = build_cond_matrix(case["chan"])
    kappa = float(s.max() / s.min())
    tags = dict(scheme=scheme, part="history")
    ctx.label("hist:" + scheme)
    noise = None                   # current noise variance (model)
    noise_set_then_cleared = False
    had_noise = False
    n_use = 0
    x0 = x
    other = None
    with _tagged(tags):
        Hbuf = H.copy()
        obj = cls(Hbuf)
        if case["data"] and len(case["ops"]) % 2 == 0:
            # a second live link of the same class with ANOTHER channel
            Ho = (H * np.exp(1j * np.arange(1, H.size + 1).reshape(H.shape))
                  if np.iscomplexobj(H) else H[::-1].copy())
            other = cls(Ho.copy())
            if scheme in _NOISE_SCHEMES:
                other.set_noise_var(0.37)
            ctx.label("hist:second_link_alive")
        for i, op in enumerate(case["ops"]):
            if op["op"] == "chan":
                H, _, s, _ = build_cond_matrix(op["chan"])
                kappa = float(s.max() / s.min())
                how = op.get("how", "new")
                if how == "inplace" and Hbuf.shape == H.shape and \
                        Hbuf.dtype == H.dtype and Hbuf.flags.writeable:
                    Hbuf[...] = H
                    obj.set_channel_matrix(Hbuf)
                    ctx.label("hist_op:chan_same_array_refilled")
                elif how == "oned" and scheme in ("MRT", "Alamouti") and \
                        H.shape[0] == 1:
                    obj.set_channel_matrix(H[0].copy())
                    ctx.label("hist_op:chan_1d")
                else:
                    Hbuf = H.copy()
                    obj.set_channel_matrix(Hbuf)
                ctx.label("hist_op:chan")
            elif op["op"] == "noise":
                v = op["value"]
                if v == "none":
                    noise = None
                elif v == "zero":
                    noise = 0.0
                else:
                    noise = _noise_var(v, s)
                    had_noise = True
                if had_noise and not noise:
                    noise_set_then_cleared = True
                obj.set_noise_var(noise)
                ctx.label("hist_op:noise")
            elif op["op"] == "query":
                nvq = _noise_var(op["value"], s)
                fn = getattr(obj, "calc_SINRs" if op.get("db")
                             else "calc_linear_SINRs", None)
                if fn is not None:
                    q1 = np.asarray(fn(nvq), dtype=float)
                    fq = cls(H.copy())
                    if scheme in _NOISE_SCHEMES:
                        fq.set_noise_var(noise)
                    q2 = np.asarray(getattr(fq, fn.__name__)(nvq),
                                    dtype=float)
                    if q1.shape != q2.shape or not np.allclose(
                            q1, q2, rtol=1e-9, atol=0.0, equal_nan=True):
                        raise Violation("stale_state", "the SINR query of "
                                        "the object used so far differs from "
                                        "that of a freshly configured one: "
                                        "%r vs %r" % (q1, q2),
                                        dict(scheme=scheme, op="query"))
                    ctx.label("hist_op:sinr_query")
            elif op["op"] == "rejected":
                # the call is refused; the object keeps working with the
                # channel and noise variance it had (judged by the next use)
                try:
                    if op["what"] == "chan":
                        Hbad = build_cond_matrix(op["chan"])[0]
                        obj.set_channel_matrix(Hbad.copy())
                    else:
                        obj.set_noise_var(float(op["value"]))
                except ValueError:
                    ctx.label("hist_op:rejected_" + op["what"])
                else:
                    # not refused: nothing is stated about what follows
                    ctx.label("hist_op:rejected_but_accepted")
                    return
            else:
                n_use += 1
                # another data block of the same length for every use (a
                # result kept from the block before must not be touched)
                x = x0 * (1.0 + 0.5 * (n_use - 1)) if n_use % 2 else \
                    np.roll(x0, 1) * (1.0 + 0.5 * (n_use - 1))
                xmax = float(np.max(np.abs(x)))
                fresh = cls(H.copy())
                if scheme in _NOISE_SCHEMES:
                    fresh.set_noise_var(noise)
                xa = x.copy()
                e2 = np.asarray(fresh.encode(xa))
                if np.shares_memory(e2, xa):
                    raise Violation("encode_aliases_argument", "encode "
                                    "returned (a view of) the caller's data "
                                    "array", tags)
                d2 = np.asarray(fresh.decode(H.dot(e2)))
                if other is not None:
                    # a second, independent link of the same scheme (its own
                    # channel, the same noise variance) is used just before
                    other.set_channel_matrix(Ho.copy())     # a new drop
                    if scheme in _NOISE_SCHEMES:
                        other.set_noise_var(noise)
                    other.decode(Ho.dot(np.asarray(other.encode(x0.copy()))))
                if op["op"] == "decode_only":
                    # the object only RECEIVES: the data was encoded by
                    # another object (the transmitter) for the same channel
                    ctx.label("hist_op:decode_only")
                    e1 = e2
                else:
                    e1 = np.asarray(obj.encode(x.copy()))
                y = H.dot(e1)
                d1 = np.asarray(obj.decode(y.copy()))
                tol = 1e-10 * kappa * max(xmax, 1e-300)
                ctx.close("history_encode_vs_fresh",
                          float(np.max(np.abs(e1 - e2))), tol,
                          "step %d: encode differs from a fresh object" % i,
                          tags)
                ctx.close("history_decode_vs_fresh",
                          float(np.max(np.abs(d1 - d2))), tol,
                          "step %d: decode differs from a fresh object with "
                          "the same channel and noise_var=%r (stale receive "
                          "filter?)" % (i, noise), tags)
                if not noise:
                    ctx.close("history_roundtrip",
                              float(np.max(np.abs(d1.reshape(-1) - x))),
                              _RT_TOL * 10 * kappa * max(xmax, 1e-300),
                              "step %d: data not recovered with noise_var=%r"
                              % (i, noise), tags)
    if noise_set_then_cleared:
        ctx.label("hist:noise_set_then_cleared")
    ctx.nontrivial(n_use >= 2 and len(case["ops"]) >= 3)


def check(case, ctx):
    if case["part"] == "history":
        return _check_history(case, ctx)
    if case["part"] in ("roundtrip", "shapes"):
        return _check_roundtrip(case, ctx)
    if case["part"] == "filters":
        return _check_filters(case, ctx)
    raise AssertionError("unknown part %r" % case["part"])


# ----------------------------------------------------------------------------
# every direct library call made by this check must leave the arrays handed
# to it unchanged (core.GuardedCalls)
# ----------------------------------------------------------------------------
def _guard_targets():
    from pyphysim.mimo import mimo
    t = []
    for name in ("MimoBase", "Blast", "MRC", "MRT", "SVDMimo", "GMDMimo",
                 "Alamouti"):
        cls = getattr(mimo, name)
        t += [(cls, n) for n in ("__init__", "encode", "decode",
                                 "set_channel_matrix", "_calc_precoder",
                                 "_calc_receive_filter",
                                 "_calcZeroForceFilter", "_calcMMSEFilter")]
    return t


_unguarded_check = check


def check(case, ctx):  # noqa: F811
    from ..core import GuardedCalls
    with GuardedCalls(_guard_targets(), dict(part=case.get("part"))):
        return _unguarded_check(case, ctx)
