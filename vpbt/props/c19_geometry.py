"""C19 - cell geometry: containment, border points, user placement, cluster
layout, point processes.

Parts
-----
contain : is_point_inside_shape of every shape class against a winding-number
          oracle over the shape's OWN vertices (disc for Circle); the vertices
          themselves are compared with an independent closed formula.
border  : get_border_point(angle, ratio): on the boundary, in exactly the
          requested direction, linear in the ratio.
users   : add_random_user(s) / add_random_user(s)_in_sector: count, minimum
          distance to the centre, inside the cell (global numpy RNG seeded
          from the case; a 120 s watchdog turns a non-terminating rejection
          loop into a violation instead of a hung run).
cluster : Cluster of hexagon / 3-sector / square cells: congruent cells,
          centred on the cluster position, nearest neighbours at exactly two
          apothems (one side), neighbours share an edge, nothing overlaps,
          user-to-cell distance matrices, users inside their cells; for 19
          hexagonal cells also the ring of 42 wrapped cells (congruent,
          continues the lattice).
cluster_enum : every supported (cell type, size) x a fixed set of rotations,
          positions and radii, enumerated completely.
pp      : generate_random_points_in_circle / _in_rectangle.
"""
import contextlib
import itertools
import math
import os
import signal

import numpy as np
from hypothesis import strategies as st

from ..core import Part, Violation
from ..gens import fixed, fl, loguniform, seeds

PROPERTY = "C19"
LEVEL = "exploration"
RULE = ("shape = class (Hexagon, Rectangle aspect 1..8, Circle, Cell, "
        "CellSquare, Cell3Sec, CellWrap of each) x radius 1e-3..1e3 "
        "(log-uniform) x centre = radius*[-50,50]^2 x rotation in [-720,720] "
        "deg (0, +-30, +-60, +-90, 180, +-360, 720 forced); queries: polar "
        "points r/R in [0,2], points +-1e-7..1e-3 R off a boundary edge, "
        "scaled vertices; angles in [-720,720], ratios in [0,1]; users 1..6 "
        "(20 thorough) with min_dist_ratio in [0,0.7], each populated cell "
        "also shown through a wrapped copy with users; clusters of "
        "1,3,4,7,13,19 hexagon/3-sector and 1,4,9,16 square cells with 0..5 "
        "users per cell (19 hexagonal cells: optionally with the wrap-around "
        "ring). Non-trivial = contain: rotation not a multiple of "
        "360 deg and a query point within 0.1 R of the boundary; border: "
        "rotation not a multiple of 360 deg (Circle: any); users: rotated "
        "cell with >= 1 user; cluster: >= 3 cells and rotation not a "
        "multiple of 360 deg; pp: >= 1 point. distinct = SHA-1 of the case.")
RULE += (" Added after the white-box review: "
         "objects are queried before their setters are applied, "
         "populated cells are moved, border users (single and list "
         "call, ratios 0 and 1) are compared with the border point ")

LEVEL_TEXT = ("Generated-input search (Hypothesis, seeded, sharded) over "
              "shapes, positions, radii, rotations, query points, angles, "
              "ratios, RNG seeds and cluster configurations, against "
              "independent oracles (winding number over the shape's own "
              "vertices, closed-form vertex sets, point-to-segment distance, "
              "lattice distances, math.hypot distance matrices); every "
              "supported cluster size and cell type is enumerated completely "
              "for a fixed set of rotations. Absence of violations is not "
              "proven.")
LEVEL_NOTE = ("float64; length tolerance 1e-9*(radius+|centre|); points "
              "closer than that to a boundary are discarded as ties; centre "
              "restricted to 50 radii from the origin")
TECHNIQUE = ("property-based testing (Hypothesis): reference-model oracles "
             "(winding number, closed-form vertices, lattice geometry) + "
             "complete enumeration of the supported cluster sizes")
ASSUMPTIONS = [
    "rotation is counter-clockwise in degrees about the shape centre (pinned "
    "by ShapeTestCase.test_rotate); the closed-form vertex oracle uses it",
    "centre at most ~70 radii from the origin, so that the length tolerance "
    "1e-9*(R+|pos|) stays below 1e-7 R",
    "points closer than 1e-9*(R+|pos|) to the boundary are ties (discarded, "
    "counted as tie_excluded)",
    "Rectangle / CellSquare / CellWrap are only built by their constructor "
    "(moving a Rectangle after construction is not a documented operation); "
    "Hexagon, Cell and Cell3Sec are also reached through the pos / radius / "
    "rotation setters",
    "for the ring of wrapped cells made by Cluster.create_wrap_around_cells "
    "(19 hexagonal cells only) only congruence and the lattice distances are "
    "checked, not which cell is wrapped where",
]

QUICK_BUDGET_S = 300
THOROUGH_BUDGET_S = 3000
RTOL = 1e-9          # length tolerance relative to R + |pos|
RATIO_RTOL = 1e-12   # linearity in the ratio, distance matrices, min dist

_SPECIAL_ROT = [0.0, 30.0, -30.0, 60.0, -60.0, 90.0, -90.0, 180.0, 360.0,
                -360.0, 720.0, 45.0, 15.0]
_SETTER_CLASSES = ("Hexagon", "Cell", "Cell3Sec")
_ORDERS = list(itertools.permutations(("pos", "radius", "rotation")))


# ----------------------------------------------------------------------------
# strategies (plain data)
# ----------------------------------------------------------------------------
def _rot():
    return st.one_of(st.sampled_from(_SPECIAL_ROT), fl(-720.0, 720.0),
                     fl(-720.0, 720.0))


def _coord():
    return st.one_of(st.just(0.0), fl(-50.0, 50.0), fl(-50.0, 50.0))


def _pos():
    return st.tuples(_coord(), _coord()).map(list)


def _shape(classes):
    """strategy of shape descriptions restricted to `classes`"""
    alts = []
    for c in classes:
        kw = dict(cls=st.just(c), R=loguniform(-3, 3), p=_pos())
        if c != "Circle":
            kw["rot"] = _rot()
        if c == "Rectangle":
            kw["asp"] = st.one_of(st.just(1.0), fl(1.0, 8.0), fl(1.0, 8.0))
            kw["tall"] = st.booleans()
            kw["corner"] = st.integers(0, 3)
        if c.startswith("CellWrap:"):
            kw["wp"] = _pos()
        if c in _SETTER_CLASSES or c in ("Circle", "Rectangle", "CellSquare"):
            kw["setter"] = st.one_of(st.just(0), st.integers(0, 6))
        alts.append(fixed(**kw))
    return st.one_of(alts)


_ALL = ["Hexagon", "Rectangle", "Rectangle", "Circle", "Cell", "CellSquare",
        "CellSquare", "Cell3Sec", "Cell3Sec", "CellWrap:Cell",
        "CellWrap:Cell3Sec", "CellWrap:CellSquare"]


def _query():
    dexp = fl(-7.0, -3.0)
    polar = fixed(k=st.just("polar"), r=fl(0.0, 2.0), a=fl(-360.0, 360.0))
    edge = fixed(k=st.just("edge"), e=st.integers(0, 11), s=fl(0.0, 1.0),
                 d=dexp, sg=st.sampled_from([-1, 1]))
    vert = fixed(k=st.just("vertex"), e=st.integers(0, 11), d=dexp,
                 sg=st.sampled_from([-1, 1]))
    return st.one_of(polar, edge, edge, vert)


def _s_contain(tier):
    return fixed(part=st.just("contain"), shape=_shape(_ALL),
                 q=st.lists(_query(), min_size=1, max_size=12))


def _angle():
    return st.one_of(st.sampled_from([0.0, 30.0, 45.0, 60.0, 90.0, 120.0,
                                      180.0, 270.0, -90.0, 360.0]),
                     fl(-720.0, 720.0), fl(-720.0, 720.0))


def _s_border(tier):
    ratio = st.one_of(st.sampled_from([0.0, 1.0, 0.5]), fl(0.0, 1.0))
    return fixed(part=st.just("border"), shape=_shape(_ALL),
                 q=st.lists(st.tuples(_angle(), ratio).map(list),
                            min_size=1, max_size=10))


def _s_users(tier):
    nmax = 6 if tier == "quick" else 20

    def one(classes, modes):
        return fixed(part=st.just("users"), shape=_shape(classes),
                     n=st.integers(1, nmax),
                     ratio=st.one_of(st.sampled_from([0.0, 0.7, 0.5]),
                                     fl(0.0, 0.7)),
                     mode=st.sampled_from(modes),
                     sector=st.integers(1, 3), seed=seeds)
    return st.one_of(one(["Cell"], ["one", "many"]),
                     one(["CellSquare"], ["one", "many"]),
                     one(["Cell3Sec"], ["one", "many"]),
                     one(["Cell3Sec"], ["sector", "sectors"]))


_CL_SIZES = {"simple": [1, 3, 4, 7, 13, 19], "3sec": [1, 3, 4, 7, 13, 19],
             "square": [1, 4, 9, 16]}


def _s_cluster(tier):
    def one(ctype):
        sizes = list(_CL_SIZES[ctype])
        if ctype == "square" and tier != "quick":
            sizes += [25, 36]
        return fixed(part=st.just("cluster"), ctype=st.just(ctype),
                     N=st.sampled_from(sizes), R=loguniform(-3, 3), p=_pos(),
                     rot=_rot(),
                     users=st.lists(st.integers(0, 5), min_size=0,
                                    max_size=6),
                     busers=st.lists(st.tuples(st.integers(0, 35), _angle(),
                                               fl(0.0, 1.0)).map(list),
                                     max_size=4),
                     busers_list=st.booleans(), busers_ends=st.booleans(),
                     busers_form=st.sampled_from(["single", "list",
                                                  "by_cell"]),
                     ratio=st.one_of(st.just(0.0), fl(0.0, 0.7)),
                     wrap=st.booleans(), seed=seeds)
    return st.one_of(one("simple"), one("3sec"), one("square"))


def _enum_cluster(tier):
    rots = [0.0, 30.0, -60.0, 90.0, 17.25, -123.5]
    poss = [[0.0, 0.0], [3.5, -2.25]]
    radii = [1.0]
    if tier != "quick":
        rots += [45.0, 60.0, 180.0, 360.0, -720.0, 1e-3, 233.1]
        poss += [[-40.0, 25.5]]
        radii += [250.0, 0.004]
    out = []
    for ctype in ("simple", "3sec", "square"):
        sizes = list(_CL_SIZES[ctype])
        if ctype == "square" and tier != "quick":
            sizes += [25, 36]
        for N in sizes:
            for rot in rots:
                for p in poss:
                    for R in radii:
                        out.append(dict(part="cluster_enum", ctype=ctype,
                                        N=N, R=R, p=p, rot=rot,
                                        users=[1, 0, 2], busers=[[0, 40.0,
                                                                  0.5]],
                                        ratio=0.3, wrap=True,
                                        seed=N * 7 + 1))
    return out


def _s_pp(tier):
    nmax = 300 if tier == "quick" else 5000
    circ = fixed(part=st.just("pp"), kind=st.just("circle"),
                 n=st.integers(0, nmax), maxr=loguniform(-3, 3),
                 minf=st.one_of(st.just(None), st.just(0.0), fl(0.0, 1.0)),
                 seed=seeds)
    rect = fixed(part=st.just("pp"), kind=st.just("rect"),
                 n=st.integers(0, nmax), w=loguniform(-3, 3),
                 h=loguniform(-3, 3), seed=seeds)
    return st.one_of(circ, rect)


PARTS = [
    Part("contain", _s_contain, quick=4000, thorough=200000, quick_shards=8),
    Part("border", _s_border, quick=2400, thorough=120000, quick_shards=8),
    Part("users", _s_users, quick=1200, thorough=50000, quick_shards=8),
    Part("cluster", _s_cluster, quick=480, thorough=20000, quick_shards=8),
    Part("cluster_enum", enumerate=_enum_cluster, exhaustive=True,
         quick_shards=8),
    Part("pp", _s_pp, quick=400, thorough=30000, quick_shards=4),
]


# ----------------------------------------------------------------------------
# oracles (numpy on plain coordinate arrays; no library code)
# ----------------------------------------------------------------------------
def _rect(deg):
    a = math.radians(deg)
    return complex(math.cos(a), math.sin(a))


def _inside(pts, verts):
    """winding number != 0 for each point of `pts` (complex array) with
    respect to the closed polygon `verts` (complex array)"""
    pts = np.atleast_1d(np.asarray(pts, dtype=complex))
    px, py = pts.real, pts.imag
    wn = np.zeros(pts.shape, dtype=int)
    n = len(verts)
    for i in range(n):
        a, b = verts[i], verts[(i + 1) % n]
        isleft = (b.real - a.real) * (py - a.imag) - \
            (px - a.real) * (b.imag - a.imag)
        up = (a.imag <= py) & (b.imag > py) & (isleft > 0)
        dn = (a.imag > py) & (b.imag <= py) & (isleft < 0)
        wn = wn + up.astype(int) - dn.astype(int)
    return wn != 0


def _bdist(pts, verts):
    """distance of each point to the boundary of the closed polygon"""
    pts = np.atleast_1d(np.asarray(pts, dtype=complex))
    best = np.full(pts.shape, np.inf)
    n = len(verts)
    for i in range(n):
        a, b = verts[i], verts[(i + 1) % n]
        ab = b - a
        l2 = ab.real * ab.real + ab.imag * ab.imag
        if l2 == 0.0:
            d = np.abs(pts - a)
        else:
            t = ((pts - a) * np.conj(ab)).real / l2
            t = np.clip(t, 0.0, 1.0)
            d = np.abs(pts - (a + t * ab))
        best = np.minimum(best, d)
    return best


def _line_dist(pt, verts):
    """min distance of pt to the infinite lines through the polygon edges"""
    best = math.inf
    n = len(verts)
    for i in range(n):
        a, b = verts[i], verts[(i + 1) % n]
        ab = b - a
        if abs(ab) == 0:
            continue
        best = min(best, abs(((pt - a) * np.conj(ab)).imag) / abs(ab))
    return best


def _signed_area(verts):
    v = np.asarray(verts, dtype=complex)
    w = np.roll(v, -1)
    return 0.5 * float(np.sum(v.real * w.imag - w.real * v.imag))


def _expected_vertices(cls, pos, R, rot, spec):
    """closed-form vertex SET of a shape (independent of the library)"""
    base = cls.split(":")[-1]
    u = _rect(rot)
    if base in ("Hexagon", "Cell"):
        return [pos + R * _rect(rot + 60.0 * k) for k in range(6)]
    if base == "CellSquare":
        h = R / 2.0
        return [pos + u * complex(sx * h, sy * h)
                for sx, sy in ((-1, -1), (1, -1), (1, 1), (-1, 1))]
    if base == "Rectangle":
        hw, hh = _rect_half_sides(spec)
        return [pos + u * complex(sx * hw, sy * hh)
                for sx, sy in ((-1, -1), (1, -1), (1, 1), (-1, 1))]
    if base == "Cell3Sec":
        sr = R / math.sqrt(3.0)
        pts = []
        for th in (90.0, 210.0, 330.0):
            c = sr * _rect(rot + th)
            for m in range(6):
                pts.append(c + sr * _rect(rot + 30.0 + 60.0 * m))
        out = []
        for q in pts:
            if abs(q) < 1e-6 * R:
                continue
            if any(abs(q - o) < 1e-6 * R for o in out):
                continue
            out.append(q)
        return [pos + q for q in out]
    raise AssertionError(cls)


def _rect_half_sides(spec):
    R, asp = float(spec["R"]), float(spec["asp"])
    return (R / asp, R) if spec["tall"] else (R, R / asp)


# ----------------------------------------------------------------------------
# building library objects from a shape description
# ----------------------------------------------------------------------------
def _spec_pos(spec, key="p"):
    R = float(spec["R"])
    return complex(float(spec[key][0]) * R, float(spec[key][1]) * R)


def _build(spec):
    """-> (object, pos, R, rot); pos/R/rot are the REQUESTED values"""
    from pyphysim.cell import cell, shapes
    cls = spec["cls"]
    R = float(spec["R"])
    pos = _spec_pos(spec)
    rot = float(spec.get("rot", 0.0))
    setter = int(spec.get("setter", 0)) if cls in _SETTER_CLASSES else 0
    # Circle: position and radius setters; Rectangle / CellSquare: only the
    # rotation setter (moving or resizing them is not a documented operation)
    part_setter = int(spec.get("setter", 0)) if cls in (
        "Circle", "Rectangle", "CellSquare") else 0
    if setter:
        pos0, R0, rot0 = 0.5 * pos + R * (0.3 - 0.2j), 0.75 * R, rot + 13.0
    elif part_setter and cls == "Circle":
        pos0, R0, rot0 = 0.5 * pos + R * (0.3 - 0.2j), 0.75 * R, rot
    elif part_setter:
        pos0, R0, rot0 = pos, R, rot + 13.0
    else:
        pos0, R0, rot0 = pos, R, rot

    def mk(name, p_, R_, rot_):
        if name == "Hexagon":
            return shapes.Hexagon(p_, R_, rot_)
        if name == "Cell":
            return cell.Cell(p_, R_, cell_id=1, rotation=rot_)
        if name == "Cell3Sec":
            return cell.Cell3Sec(p_, R_, cell_id=1, rotation=rot_)
        if name == "CellSquare":
            return cell.CellSquare(p_, R_, cell_id=1, rotation=rot_)
        raise AssertionError(name)

    def use_then(obj, **final):
        # the object is used with its first configuration, then changed
        # through the public setters
        obj.is_point_inside_shape(pos0 + 0.3 * R0)
        obj.vertices
        for name, value in final.items():
            setattr(obj, name, value)
        return obj

    if cls == "Circle":
        obj = shapes.Circle(pos0, R0)
        if part_setter:
            order = [("pos", pos), ("radius", R)]
            use_then(obj, **dict(order[::-1] if part_setter % 2 else order))
    elif cls == "Rectangle":
        hw, hh = _rect_half_sides(spec)
        k = int(spec["corner"])
        d = [complex(-hw, -hh), complex(hw, -hh), complex(hw, hh),
             complex(-hw, hh)][k]
        obj = shapes.Rectangle(pos + d, pos - d, rot0)
        if part_setter:
            use_then(obj, rotation=rot)
    elif cls == "CellSquare" and part_setter:
        obj = use_then(mk(cls, pos, R, rot0), rotation=rot)
    elif cls.startswith("CellWrap:"):
        inner = mk(cls.split(":")[1], _spec_pos(spec, "wp"), R, rot)
        obj = cell.CellWrap(pos, inner)
    else:
        obj = mk(cls, pos0, R0, rot0)
        if setter:
            # the object is used before it is moved / resized / rotated
            obj.is_point_inside_shape(pos0 + 0.3 * R0)
            obj.vertices
            if hasattr(obj, "get_border_point"):
                obj.get_border_point(10.0, 1.0)
            final = dict(pos=pos, radius=R, rotation=rot)
            for name in _ORDERS[setter - 1]:
                setattr(obj, name, final[name])
    return obj, pos, R, rot


def _close(ctx, name, err, tol, detail="", tags=None, fail_name=None):
    """like ctx.close, but the error of a FAILING comparison is not recorded
    as an observed rounding error, and the failure may be reported under a
    more specific sub-check name (bucket = root cause)"""
    err = float(err)
    if err <= tol:
        ctx.err(name, err, tol)
        return
    raise Violation(fail_name or name, "error %.3e > tol %.3e %s" %
                    (err, tol, detail), tags)


def _rot_class(rot):
    if rot % 360.0 == 0.0:
        return "rot=0mod360"
    if rot % 90.0 == 0.0:
        return "rot=k*90"
    if rot % 30.0 == 0.0:
        return "rot=k*30"
    return "rot=generic"


def _check_vertices(ctx, obj, spec, pos, R, rot, tags):
    """the shape's own vertices are the declared shape: same vertex set as
    the closed formula and a closed ring with the right edge lengths.
    Returns the library's vertices (complex ndarray)."""
    cls = spec["cls"]
    verts = np.array(obj.vertices, dtype=complex)
    if cls == "Circle":
        return verts
    exp = _expected_vertices(cls, pos, R, rot, spec)
    L = R + abs(pos)
    if len(verts) != len(exp):
        raise Violation("vertex_geometry", "%d vertices, expected %d" %
                        (len(verts), len(exp)), tags)
    worst = 0.0
    for e in exp:
        worst = max(worst, float(np.min(np.abs(verts - e))))
    for v in verts:
        worst = max(worst, min(abs(v - e) for e in exp))
    _close(ctx, "vertex_geometry", worst, RTOL * L,
              "own vertices %r vs closed form %r" % (verts.tolist(), exp),
              tags)
    # ring order: consecutive vertices are neighbours of the expected polygon
    base = cls.split(":")[-1]
    edges = np.abs(np.roll(verts, -1) - verts)
    if base in ("Hexagon", "Cell"):
        want = [R]
    elif base == "CellSquare":
        want = [R]
    elif base == "Cell3Sec":
        want = [R / math.sqrt(3.0)]
    else:
        hw, hh = _rect_half_sides(spec)
        want = [2 * hw, 2 * hh]
    err = max(min(abs(e - w) for w in want) for e in edges)
    _close(ctx, "vertex_ring", err, RTOL * L,
              "edge lengths %r, expected %r" % (edges.tolist(), want), tags)
    return verts


# ----------------------------------------------------------------------------
# part: containment
# ----------------------------------------------------------------------------
def _query_point(q, verts, pos, R, is_circle):
    k = q["k"]
    if k == "polar":
        return pos + float(q["r"]) * R * _rect(float(q["a"]))
    d = 10.0 ** float(q["d"]) * R * int(q["sg"])
    if is_circle:
        ang = 360.0 * float(q.get("s", 0.0)) + 30.0 * int(q["e"])
        return pos + (R + d) * _rect(ang)
    n = len(verts)
    i = int(q["e"]) % n
    a, b = complex(verts[i]), complex(verts[(i + 1) % n])
    if k == "vertex":
        return pos + (a - pos) * (1.0 + d / R)
    ab = b - a
    nrm = ab / abs(ab) * (-1j)              # right of a->b: outward for CCW
    if _signed_area(verts) < 0:
        nrm = -nrm
    return a + float(q["s"]) * ab + d * nrm


def _check_contain(case, ctx):
    spec = case["shape"]
    cls = spec["cls"]
    obj, pos, R, rot = _build(spec)
    rotated = (rot % 360.0 != 0.0) and cls != "Circle"
    tags = dict(cls=cls, rotated=rotated, part="contain",
                setter=int(spec.get("setter", 0)) != 0)
    ctx.label("contain:" + cls, "contain:" + _rot_class(rot))
    if tags["setter"]:
        ctx.label("via_setters")
    verts = _check_vertices(ctx, obj, spec, pos, R, rot, tags)
    is_circle = cls == "Circle"
    L = R + abs(pos)
    rad = R if is_circle else float(obj.radius)
    near = False
    bad = None
    for q in case["q"]:
        pt = complex(_query_point(q, verts, pos, R, is_circle))
        if is_circle:
            dist = math.hypot(pt.real - pos.real, pt.imag - pos.imag)
            want = dist < R
            margin = abs(dist - R)
        else:
            want = bool(_inside(pt, verts)[0])
            margin = float(_bdist(pt, verts)[0])
        if margin < RTOL * L:
            ctx.label("tie_excluded")
            continue
        if margin <= 0.1 * rad:
            near = True
            ctx.label("q:near_boundary_in" if want else
                      "q:near_boundary_out")
        else:
            ctx.label("q:far_in" if want else "q:far_out")
        got = obj.is_point_inside_shape(pt)
        if bool(got) != want and bad is None:
            t = dict(tags, lib=bool(got))
            if not is_circle:
                unrot = pos + np.array(obj.vertices_no_trans_no_rotation,
                                       dtype=complex)
                # the library's answer is the right one for the UNROTATED
                # polygon (or the point is a tie for that polygon)
                t["as_if_unrotated"] = bool(
                    bool(_inside(pt, unrot)[0]) == bool(got) or
                    float(_bdist(pt, unrot)[0]) <= RTOL * L)
            name = "containment"
            if t.get("as_if_unrotated") and rotated:
                name = "containment_as_if_unrotated:" + cls
            bad = Violation(
                name,
                "%s: is_point_inside_shape(%r) = %r but the point is %s the "
                "polygon of the shape's own vertices (distance to boundary "
                "%.3e, R=%r pos=%r rot=%r)" %
                (cls, pt, bool(got), "inside" if want else "outside", margin,
                 R, pos, rot), t)
    ctx.nontrivial(near and (rotated or is_circle))
    if bad is not None:
        raise bad


# ----------------------------------------------------------------------------
# part: border points
# ----------------------------------------------------------------------------
def _check_border(case, ctx):
    spec = case["shape"]
    cls = spec["cls"]
    obj, pos, R, rot = _build(spec)
    is_circle = cls == "Circle"
    rotated = (rot % 360.0 != 0.0) and not is_circle
    square = not (cls == "Rectangle" and float(spec["asp"]) != 1.0)
    tags = dict(cls=cls, rotated=rotated, part="border", square=square,
                setter=int(spec.get("setter", 0)) != 0)
    ctx.label("border:" + cls, "border:" + _rot_class(rot))
    if cls == "Rectangle":
        ctx.label("border:rect_square" if square else "border:rect_elongated")
    verts = _check_vertices(ctx, obj, spec, pos, R, rot, tags)
    L = R + abs(pos)
    ctx.nontrivial(rotated or is_circle)
    later = None
    for ang, ratio in case["q"]:
        ang, ratio = float(ang), float(ratio)
        u = _rect(ang)
        p1 = complex(obj.get_border_point(ang, 1.0))
        p0 = complex(obj.get_border_point(ang))
        pr = complex(obj.get_border_point(ang, ratio))
        _close(ctx, "border_default_ratio", abs(p0 - p1), RATIO_RTOL * L,
                  "ratio=None differs from ratio=1", tags)
        _close(ctx, "border_ratio", abs(pr - (pos + ratio * (p1 - pos))),
                  RATIO_RTOL * L, "angle=%r ratio=%r" % (ang, ratio), tags)
        # direction: exactly `ang` degrees seen from the centre
        q = (p1 - pos) * u.conjugate()
        derr = abs(q.imag) if q.real > 0 else math.inf
        if is_circle:
            berr = abs(math.hypot(p1.real - pos.real, p1.imag - pos.imag) - R)
            t = tags
        else:
            berr = float(_bdist(p1, verts)[0])
            t = dict(tags, on_edge_line=bool(
                _line_dist(p1, verts) <= RTOL * L))
        detail = ("%s R=%r pos=%r rot=%r angle=%r -> %r" %
                  (cls, R, pos, rot, ang, p1))
        fail = None
        if not is_circle and t["on_edge_line"]:
            fail = "border_on_edge_extension:%s:%s" % (
                cls, "square" if square else "elongated")
        try:
            _close(ctx, "border_direction", derr, RTOL * L, detail, t)
            _close(ctx, "border_on_boundary", berr, RTOL * L, detail, t, fail)
        except Violation as v:      # finish the other angles first
            if later is None:
                later = v
    if later is not None:
        raise later


# ----------------------------------------------------------------------------
# part: random users
# ----------------------------------------------------------------------------
PLACEMENT_LIMIT_S = float(os.environ.get("VERIF_C19_PLACEMENT_LIMIT_S", "120"))
# (a placement takes milliseconds)


@contextlib.contextmanager
def _watchdog(tags):
    """Safety net only: the rejection loop of add_random_user has no bound;
    if a change to the library makes it spin forever the case is reported as
    a violation instead of hanging the run."""
    def on_alarm(signum, frame):
        raise Violation("user_placement_does_not_terminate",
                        "random user placement still running after %g s" %
                        PLACEMENT_LIMIT_S, tags)
    try:
        old = signal.signal(signal.SIGALRM, on_alarm)
    except ValueError:          # not in the main thread: no watchdog
        yield
        return
    signal.setitimer(signal.ITIMER_REAL, PLACEMENT_LIMIT_S)
    try:
        yield
    finally:
        signal.setitimer(signal.ITIMER_REAL, 0)
        signal.signal(signal.SIGALRM, old)


def _check_user_positions(ctx, users, centre, rad, ratio, poly, L, tags,
                          unrot_poly=None):
    """min distance first (exact requirement), then inside the polygon"""
    for u in users:
        p = complex(u.pos)
        d = math.hypot(p.real - centre.real, p.imag - centre.imag)
        _close(ctx, "user_min_dist", max(0.0, ratio * rad - d), RATIO_RTOL * L,
                  "user %r at distance %r < %r*%r" % (p, d, ratio, rad), tags)
    pts = np.array([complex(u.pos) for u in users], dtype=complex)
    if len(pts) == 0:
        return
    ins = _inside(pts, poly)
    bd = _bdist(pts, poly)
    for i in range(len(pts)):
        if bd[i] < RTOL * L:
            ctx.label("tie_excluded")
            continue
        if not ins[i]:
            t = dict(tags)
            name = "user_inside"
            if unrot_poly is not None:
                t["as_if_unrotated"] = bool(
                    _inside(pts[i], unrot_poly)[0] or
                    _bdist(pts[i], unrot_poly)[0] <= RTOL * L)
                if t["as_if_unrotated"] and tags.get("rotated"):
                    name = "user_inside_as_if_unrotated:%s" % tags.get("cls")
            raise Violation(name,
                            "random user %r lies outside its cell (distance "
                            "to the boundary %.3e; %r)" %
                            (complex(pts[i]), bd[i], tags), t)


def _check_users(case, ctx):
    spec = case["shape"]
    cls = spec["cls"]
    obj, pos, R, rot = _build(spec)
    n, ratio = int(case["n"]), float(case["ratio"])
    mode = case["mode"]
    if cls != "Cell3Sec" and mode in ("sector", "sectors"):
        mode = "one" if mode == "sector" else "many"
    rotated = rot % 360.0 != 0.0
    tags = dict(cls=cls, rotated=rotated, part="users", mode=mode,
                setter=int(spec.get("setter", 0)) != 0)
    ctx.label("users:" + cls, "users:" + mode, "users:" + _rot_class(rot))
    ctx.label("users:ratio=0" if ratio == 0 else
              ("users:ratio>=0.5" if ratio >= 0.5 else "users:ratio<0.5"))
    verts = _check_vertices(ctx, obj, spec, pos, R, rot, tags)
    L = R + abs(pos)
    np.random.seed(int(case["seed"]))
    sector = int(case["sector"])
    with _watchdog(tags):
        if mode == "one":
            for _ in range(n):
                obj.add_random_user(None, ratio)
        elif mode == "many":
            obj.add_random_users(n, None, ratio)
        elif mode == "sector":
            for _ in range(n):
                obj.add_random_user_in_sector(sector, None, ratio)
        else:
            obj.add_random_users_in_sector(n, sector, None, ratio)
    users = list(obj.users)
    if len(users) != n or obj.num_users != n:
        raise Violation("user_count", "%d users after adding %d" %
                        (len(users), n), tags)
    ctx.nontrivial(rotated and n >= 1)
    if cls in ("Cell", "CellSquare", "Cell3Sec") and n:
        # the populated cell is moved: its users move with it
        off = [complex(u.pos) - pos for u in users]
        newpos = pos + complex(-1.5 * R, 0.75 * R)
        with _watchdog(tags):
            obj.pos = newpos
        ctx.label("users:cell_moved_afterwards")
        for o, u in zip(off, list(obj.users)):
            _close(ctx, "moved_cell_users", abs((complex(u.pos) - newpos) - o),
                   RTOL * (L + abs(newpos)), "user offset %r before, %r after "
                   "moving the cell" % (o, complex(u.pos) - newpos), tags)
        with _watchdog(tags):
            obj.pos = pos
        users = list(obj.users)
    if cls in ("Cell", "CellSquare", "Cell3Sec"):
        # a wrapped copy of the cell that shows its users: a congruent copy,
        # users included (same offsets from the cell centre)
        from pyphysim.cell import cell as _cell
        wpos = pos + complex(3.0 * R, -2.0 * R)
        with _watchdog(tags):
            w = _cell.CellWrap(wpos, obj, include_users_bool=True)
            wu = list(w.users)
        ctx.label("users:wrapped_copy")
        if len(wu) != n:
            raise Violation("wrap_users", "wrapped copy shows %d of %d users"
                            % (len(wu), n), tags)
        if cls != "CellSquare" and int(case["seed"]) % 2:
            # the wrapped cell is resized / turned AFTER the wrap exists: the
            # wrap keeps showing the cell as it is now
            obj.radius = 1.25 * R
            obj.rotation = rot + 17.0
            ctx.label("users:wrapped_cell_changed_afterwards")
            _close(ctx, "wrap_follows_cell", float(np.max(np.abs(
                (np.array(w.vertices) - wpos) -
                (np.array(obj.vertices) - pos)))), RTOL * (L + abs(wpos)),
                "outline of the wrap after the wrapped cell changed", tags)
            obj.radius = R
            obj.rotation = rot
            # ... and moved: the users shown in the wrap keep their offsets
            np_ = pos + complex(0.5 * R, 2.0 * R)
            obj.pos = np_
            for a, b in zip(list(obj.users), list(w.users)):
                _close(ctx, "wrap_follows_cell",
                       abs((complex(b.pos) - wpos) - (complex(a.pos) - np_)),
                       RTOL * (L + abs(wpos) + abs(np_)), "user offsets in "
                       "the wrap after the wrapped cell was moved", tags)
            obj.pos = pos
            users = list(obj.users)
            wu = list(w.users)
        for a, b in zip(users, wu):
            _close(ctx, "wrap_users", abs((complex(b.pos) - wpos) -
                                          (complex(a.pos) - pos)),
                   RTOL * (L + abs(wpos)), "user at offset %r from its cell "
                   "is shown at offset %r in the wrapped copy" %
                   (complex(a.pos) - pos, complex(b.pos) - wpos), tags)
    unrot = pos + np.array(obj.vertices_no_trans_no_rotation, dtype=complex)
    if mode in ("sector", "sectors"):
        sr = R / math.sqrt(3.0)
        c = pos + sr * _rect(rot + {1: 210.0, 2: 330.0, 3: 90.0}[sector])
        hexv = np.array([c + sr * _rect(rot + 30.0 + 60.0 * m)
                         for m in range(6)])
        _check_user_positions(ctx, users, c, sr, ratio, hexv, L,
                              dict(tags, region="sector"))
        _check_user_positions(ctx, users, c, sr, 0.0, verts, L,
                              dict(tags, region="cell"))
    else:
        # "radius" of a square cell of side R is its half diagonal
        rad = R * math.sqrt(2.0) / 2.0 if cls == "CellSquare" else R
        _check_user_positions(ctx, users, pos, rad, ratio, verts, L, tags,
                              unrot)


# ----------------------------------------------------------------------------
# part: clusters
# ----------------------------------------------------------------------------
def _check_cluster(case, ctx):
    from pyphysim.cell import cell
    ctype, N = case["ctype"], int(case["N"])
    R, rot = float(case["R"]), float(case["rot"])
    pos = complex(float(case["p"][0]) * R, float(case["p"][1]) * R)
    rotated = rot % 360.0 != 0.0
    tags = dict(ctype=ctype, N=N, rotated=rotated, part="cluster")
    ctx.label("cluster:%s" % ctype, "cluster:N=%d" % N,
              "cluster:" + _rot_class(rot))
    ctx.nontrivial(N >= 3 and rotated)
    cl = cell.Cluster(cell_radius=R, num_cells=N, pos=pos, cluster_id=1,
                      cell_type=ctype, rotation=rot)
    cells = list(cl)
    want_cls = {"simple": "Cell", "3sec": "Cell3Sec",
                "square": "CellSquare"}[ctype]
    if len(cells) != N or cl.num_cells != N:
        raise Violation("cluster_size", "%d cells, requested %d" %
                        (len(cells), N), tags)
    L = 5.0 * R + abs(pos)
    T = RTOL * L
    cen = np.array([complex(c.pos) for c in cells], dtype=complex)
    spec0 = dict(cls=want_cls, R=R)
    V = []
    for k, c in enumerate(cells):
        if type(c).__name__ != want_cls:
            raise Violation("cluster_cell_class", "cell %d is a %s" %
                            (k, type(c).__name__), tags)
        if complex(c.rotation) != complex(rot):
            raise Violation("cluster_cell_rotation",
                            "cell %d rotation %r, cluster rotation %r" %
                            (k, c.rotation, rot), tags)
        if ctype != "square" and float(c.radius) != R:
            raise Violation("cluster_cell_radius", "cell %d radius %r != %r" %
                            (k, c.radius, R), tags)
        V.append(np.array(c.vertices, dtype=complex))
    # every cell is the declared shape about its own centre (=> congruent)
    for k, c in enumerate(cells):
        exp = _expected_vertices(want_cls, cen[k], R, rot, spec0)
        if len(V[k]) != len(exp):
            raise Violation("cluster_congruent", "cell %d has %d vertices" %
                            (k, len(V[k])), tags)
        worst = max(float(np.min(np.abs(V[k] - e))) for e in exp)
        _close(ctx, "cluster_cell_shape", worst, T, "cell %d" % k, tags)
        _close(ctx, "cluster_congruent",
                  float(np.max(np.abs((V[k] - cen[k]) - (V[0] - cen[0])))),
                  T, "cell %d vs cell 0" % k, tags)
    # centred on the cluster position
    mean = complex(math.fsum(cen.real) / N, math.fsum(cen.imag) / N)
    _close(ctx, "cluster_centred", abs(mean - pos), T,
              "mean of centres %r, cluster pos %r" % (mean, pos), tags)
    # nearest neighbours
    d0 = R if ctype == "square" else math.sqrt(3.0) * R
    if N > 1:
        D = np.abs(cen[:, None] - cen[None, :])
        D[np.arange(N), np.arange(N)] = np.inf
        _close(ctx, "cluster_neighbour_distance",
                  float(np.max(np.abs(D.min(axis=1) - d0))), T,
                  "nearest-neighbour distances %r, expected %r" %
                  (D.min(axis=1).tolist(), d0), tags)
        nshare_min = None
        for i in range(N):
            for j in range(i + 1, N):
                if D[i, j] <= d0 + T:
                    ns = int(np.sum(np.min(np.abs(V[i][:, None] -
                                                  V[j][None, :]),
                                           axis=1) <= T))
                    nshare_min = ns if nshare_min is None else \
                        min(nshare_min, ns)
        if nshare_min is None or nshare_min < 2:
            raise Violation("cluster_touch",
                            "neighbouring cells share %r vertices (< 2)" %
                            nshare_min, tags)
        # no overlap: no vertex / centre / edge midpoint of a cell strictly
        # inside another cell
        for j in range(N):
            others = [i for i in range(N) if i != j]
            pts = np.concatenate(
                [np.concatenate([V[i], 0.5 * (V[i] + np.roll(V[i], -1)),
                                 cen[i:i + 1]]) for i in others])
            ins = _inside(pts, V[j]) & (_bdist(pts, V[j]) > 1e-6 * R)
            if bool(np.any(ins)):
                raise Violation("cluster_overlap",
                                "a vertex/centre of another cell lies inside "
                                "cell %d: %r" % (j, pts[ins][:3].tolist()),
                                tags)
    # users and distance matrices
    bus = [(int(cid) % N + 1, float(ang), float(ratio))
           for cid, ang, ratio in case["busers"]]
    if case.get("busers_ends") and bus:
        # ratio 0 (the centre) and 1 (the border itself)
        bus[0] = (bus[0][0], bus[0][1], 0.0)
        bus[-1] = (bus[-1][0], bus[-1][1], 1.0)
    before = dict((k, list(c.users)) for k, c in enumerate(cells))
    if case.get("busers_form") == "by_cell" and bus:
        # one call per cell: a single cell id with the angles and ratios of
        # all its border users (the order of users inside a cell is kept)
        ctx.label("cluster:border_users_one_call_per_cell")
        for cid in sorted(set(b[0] for b in bus)):
            mine = [b for b in bus if b[0] == cid]
            cl.add_border_users(cid, [b[1] for b in mine],
                                [b[2] for b in mine])
    elif case.get("busers_list") and len(bus) >= 2:
        # one call: a cell id, an angle and a ratio per user
        ctx.label("cluster:border_users_list_call")
        cl.add_border_users([b[0] for b in bus], [b[1] for b in bus],
                            [b[2] for b in bus])
    else:
        for cid, ang, ratio in bus:
            cl.add_border_users(cid, ang, ratio)
    # a border user sits where the cell's border point for that angle and
    # ratio is (that point is judged by the 'border' part)
    newu = dict((k, list(c.users)[len(before[k]):])
                for k, c in enumerate(cells))
    for cid, ang, ratio in bus:
        k = cid - 1
        if not newu[k]:
            raise Violation("border_user", "no user added to cell %d" % cid,
                            tags)
        u = newu[k].pop(0)
        want = complex(cells[k].get_border_point(ang, ratio))
        _close(ctx, "border_user", abs(complex(u.pos) - want),
               RTOL * (R + abs(pos)) * 10, "cell %d angle %r ratio %r: user "
               "at %r, border point %r" % (cid, ang, ratio, complex(u.pos),
                                           want), tags)
    counts = [int(x) for x in case["users"]][:N]
    ratio = float(case["ratio"])
    np.random.seed(int(case["seed"]))
    nb = [c.num_users for c in cells]
    if counts and len(counts) == N and int(case["seed"]) % 3 != 0:
        # the short form: `cell_ids` omitted = all cells, one count for all
        # (every cell then gets the first count), the minimum distance by
        # keyword; every third time with a per-cell list of ratios
        counts = [counts[0]] * N
        ctx.label("cluster:add_random_users_all_cells_form")
        with _watchdog(tags):
            if int(case["seed"]) % 3 == 1:
                cl.add_random_users(num_users=counts[0],
                                    min_dist_ratio=ratio)
            else:
                cl.add_random_users(None, counts, None, [ratio] * N)
    elif counts:
        with _watchdog(tags):
            cl.add_random_users(list(range(1, len(counts) + 1)), counts,
                                None, ratio)
    nuser = sum(counts) + sum(nb)
    ctx.label("cluster:users=0" if nuser == 0 else "cluster:users>0")
    allu = []
    for k, c in enumerate(cells):
        us = list(c.users)
        want_n = nb[k] + (counts[k] if k < len(counts) else 0)
        if len(us) != want_n:
            raise Violation("user_count", "cell %d has %d users, expected %d"
                            % (k, len(us), want_n), tags)
        allu += [complex(u.pos) for u in us]
    if cl.num_users != len(allu):
        raise Violation("user_count", "num_users %d != %d" %
                        (cl.num_users, len(allu)), tags)
    exp = np.zeros((len(allu), N))
    for i, u in enumerate(allu):
        for j in range(N):
            exp[i, j] = math.hypot(u.real - cen[j].real, u.imag - cen[j].imag)
    for name, fn in (("dist_matrix", cl.calc_dist_all_users_to_each_cell),
                     ("dist_matrix_no_wrap",
                      cl.calc_dist_all_users_to_each_cell_no_wrap_around)):
        got = np.asarray(fn())
        if got.shape != exp.shape:
            raise Violation(name, "shape %r, expected %r" %
                            (got.shape, exp.shape), tags)
        if exp.size:
            _close(ctx, name, float(np.max(np.abs(got - exp))), RATIO_RTOL * L,
                      "", tags)
    # random users inside their own cell (last: known finding for rotated
    # square cells must not hide the checks above)
    for k, c in enumerate(cells):
        if k >= len(counts) or counts[k] == 0:
            continue
        us = list(c.users)[nb[k]:]
        unrot = cen[k] + np.array(c.vertices_no_trans_no_rotation,
                                  dtype=complex)
        rad = R * math.sqrt(2.0) / 2.0 if ctype == "square" else R
        _check_user_positions(ctx, us, cen[k], rad, ratio, V[k], L,
                              dict(tags, cls=want_cls), unrot)
    # ring of wrapped cells (only implemented for 19 hexagonal cells): the
    # wrapped cells are congruent to the cell they wrap and continue the
    # lattice: nearest neighbour at 2 apothems, nothing closer
    if case.get("wrap") and N == 19 and ctype != "square":
        ctx.label("cluster:wrap_ring")
        cl.create_wrap_around_cells(include_users_bool=True)
        ws = [cl._wrapped_cells[k] for k in sorted(cl._wrapped_cells)]
        if len(ws) != 42:
            raise Violation("wrap_ring", "%d wrapped cells, expected 42 "
                            "(rings 3 and 4)" % len(ws), tags)
        wp = np.array([complex(w.pos) for w in ws], dtype=complex)
        Lw = 10.0 * R + abs(pos)
        for w in ws:
            src = w._wrapped_cell
            _close(ctx, "wrap_congruent", float(np.max(np.abs(
                (np.array(w.vertices) - w.pos) -
                (np.array(src.vertices) - src.pos)))), RTOL * Lw, "", tags)
        # which cell is shown where: every wrapped cell is its source
        # shifted by one of the six lattice vectors of length sqrt(19) d0
        # (one vector turned by multiples of 60 degrees)
        vec = np.array([complex(w.pos) - complex(w._wrapped_cell.pos)
                        for w in ws])
        _close(ctx, "wrap_shift_length",
               float(np.max(np.abs(np.abs(vec) - math.sqrt(19.0) * d0))),
               RTOL * Lw, "shifts %r" % sorted(set(np.round(
                   np.abs(vec) / d0, 6).tolist())), tags)
        sixth = (vec / vec[0]) ** 6
        _close(ctx, "wrap_shift_direction",
               float(np.max(np.abs(sixth - 1.0))), 1e-6,
               "a wrapped cell is not shifted along one of the six lattice "
               "directions of the ring", tags)
        allp = np.concatenate([cen, wp])
        DD = np.abs(allp[:, None] - allp[None, :])
        DD[np.arange(61), np.arange(61)] = np.inf
        _close(ctx, "wrap_ring",
               float(np.max(np.abs(DD.min(axis=1) - d0))), RTOL * Lw,
               "nearest-neighbour distances over the 19 + 42 cells: %r" %
               sorted(set(np.round(DD.min(axis=1) / R, 6).tolist())), tags)


# ----------------------------------------------------------------------------
# part: point processes
# ----------------------------------------------------------------------------
def _check_pp(case, ctx):
    from pyphysim.pointprocess import pointprocess as pp
    n = int(case["n"])
    np.random.seed(int(case["seed"]))
    ctx.nontrivial(n >= 1)
    if case["kind"] == "circle":
        maxr = float(case["maxr"])
        minf = case["minf"]
        tags = dict(part="pp", kind="circle", has_min=minf is not None)
        ctx.label("pp:circle" if minf is None else "pp:annulus")
        if minf is None:
            pts = pp.generate_random_points_in_circle(n, maxr)
            minr = 0.0
        else:
            minr = float(minf) * maxr
            pts = pp.generate_random_points_in_circle(n, maxr, minr)
        pts = np.asarray(pts)
        if pts.shape != (n,):
            raise Violation("pp_count", "shape %r for %d points" %
                            (pts.shape, n), tags)
        if n:
            r = np.hypot(pts.real, pts.imag)
            _close(ctx, "pp_circle_inside", max(0.0, float(r.max()) - maxr),
                      1e-12 * maxr, "max |p| = %r > %r" % (r.max(), maxr),
                      tags)
            _close(ctx, "pp_circle_min_radius", max(0.0, minr - float(r.min())),
                      1e-12 * maxr, "min |p| = %r < %r" % (r.min(), minr),
                      tags)
    else:
        w, h = float(case["w"]), float(case["h"])
        tags = dict(part="pp", kind="rect")
        ctx.label("pp:rect")
        pts = np.asarray(pp.generate_random_points_in_rectangle(n, w, h))
        if pts.shape != (n,):
            raise Violation("pp_count", "shape %r for %d points" %
                            (pts.shape, n), tags)
        if n:
            _close(ctx, "pp_rect_inside_x",
                      max(0.0, float(np.abs(pts.real).max()) - w / 2.0),
                      1e-12 * w, "", tags)
            _close(ctx, "pp_rect_inside_y",
                      max(0.0, float(np.abs(pts.imag).max()) - h / 2.0),
                      1e-12 * h, "", tags)


def check(case, ctx):
    part = case["part"]
    if part == "contain":
        _check_contain(case, ctx)
    elif part == "border":
        _check_border(case, ctx)
    elif part == "users":
        _check_users(case, ctx)
    elif part in ("cluster", "cluster_enum"):
        _check_cluster(case, ctx)
    elif part == "pp":
        _check_pp(case, ctx)
    else:
        raise AssertionError("unknown part %r" % part)
