"""C08 - multi-user channel matrix views stay coherent across any sequence of
updates (history property).

One interpreter (`Interp.apply`) applies an *op descriptor* (plain JSON) in
lock-step to the real object (MultiUserChannelMatrix / ...ExtInt) and to a
simple model (raw matrix, current path loss, noise variance, filters).  Reads
are ops too, so the lazily cached views (`_H_with_pathloss`,
`_big_H_with_pathloss`, `_big_W`) are read, invalidated and read again on
purpose.  Two drivers feed the same interpreter:

* Part "hist":    st.lists of op descriptors; parameters that depend on the
                  state (user indexes, layouts) are resolved by the interpreter
                  (index modulo current K, ...).
* Part "machine": a hypothesis.stateful.RuleBasedStateMachine whose rules only
                  build a descriptor (drawing state dependent parameters
                  exactly, rules enabled by preconditions on the model) and
                  call the same `apply`.  The executed trace is stored in the
                  case (`case["trace"]`), so a replay is a plain run of the
                  interpreter.
"""
import os

import numpy as np
from hypothesis import strategies as st

from ..core import Part, Violation, derive_seed
from ..gens import fixed, seeds

PROPERTY = "C08"
LEVEL = "exploration"
LEVEL_TEXT = ("Generated operation histories (Hypothesis, seeded, sharded; "
              "lists of op descriptors and a RuleBasedStateMachine driving "
              "the same interpreter) applied in lock-step to the real "
              "multi-user channel object and to an independent model; every "
              "view read and every corrupt_data output is compared with the "
              "model.  Absence of violations is not proven.")
LEVEL_NOTE = ("histories of <= 41 (quick) / 71 (thorough) ops, K <= 4 (5), "
              "<= 4 (6) antennas, <= 2 external sources; float64, views "
              "compared to 1e-12 relative, channel outputs to 1e-11 of the "
              "absolute-value bound")
TECHNIQUE = ("property-based testing (Hypothesis): model-based stateful "
             "testing with op-descriptor histories (lists + "
             "RuleBasedStateMachine)")
RULE = ("a case is a history: class (plain | external interference), seeds, "
        "and a list of op descriptors {randomize, init_matrix, pathloss "
        "(matrix|ones|none), noise_var, post_filter (square | square with real "
        "and complex receivers | rect | none), read "
        "(subset of views, k, l), corrupt (data|concat)}; the first op "
        "initialises the layout (K 1..4, unequal antennas 1..4, 1..2 external "
        "sources).  Non-trivial = the history reads a path-loss dependent "
        "view (or sends data) both before and after a set_pathloss on the "
        "same raw channel (read - mutate - read on the lazy caches); "
        "distinct = SHA-1 of the case description")
RULE += (" Added after the white-box review: "
         "path-loss kinds tiny (1e-14..1e-7) and nearby, re-layout "
         "'users swapped', caller writes into its path-loss array, "
         "refused init with a wrong user count, first data block "
         "real-valued ")
RULE += (" Added after the second white-box review: one antenna count as "
         "an int next to an array for the other; set_pathloss given the "
         "object's own pathloss array; a re-layout that changes K or the "
         "external sources under a path loss, immediately followed by the "
         "new path loss; the real-valued data block in any position. ")

ASSUMPTIONS = [
    "changing the antenna layout or K while a path-loss matrix or post "
    "filters are set is NOT generated (not clearly inside the documented "
    "domain: set_pathloss documents a KxK matrix for the current layout and "
    "nothing says it survives a re-layout); a re-layout is only executed "
    "after the path loss and the filters were removed through the public API",
    "corrupt_data (per-receiver split by antenna count) is only driven with "
    "square Nr_k x Nr_k post filters or none; rectangular filters go through "
    "corrupt_concatenated_data",
    "data and external-interference data are passed as 1-D object arrays of "
    "2-D arrays (the convention of the repository tests); plain lists are "
    "not exercised",
    "the raw (path-loss free) channel after randomize() is observed once "
    "from the private attribute _big_H_no_pathloss (observation point, "
    "copied); the noise is the one reported by last_noise, its distribution "
    "is not part of this property",
    "path-loss entries are strictly positive (10**U(-2,1)) or exactly 1",
]

QUICK_BUDGET_S = 300

PLAIN_VIEWS = ["H", "big_H", "get_Hkl", "get_Hk", "big_W"]
EXT_VIEWS = PLAIN_VIEWS + ["big_H_no_ext_int", "H_no_ext_int",
                           "get_Hk_without_ext_int", "get_Hk_with_ext_int"]
# which lazily filled cache a view goes through (None: recomputed each time)
FAMILY = {
    "plain": {"H": "H", "get_Hkl": "H", "big_H": "big_H", "get_Hk": "big_H",
              "corrupt": "big_H", "big_W": "big_W"},
    "extint": {"H": None, "get_Hkl": None, "big_H": "big_H",
               "get_Hk": "big_H", "big_H_no_ext_int": "big_H",
               "get_Hk_without_ext_int": "big_H",
               "get_Hk_with_ext_int": "big_H", "H_no_ext_int": "H",
               "corrupt": "big_H", "big_W": "big_W"},
}

VIEW_RTOL = 1e-12
OUT_RTOL = 1e-11


# ----------------------------------------------------------------------------
# helpers (independent of the library)
# ----------------------------------------------------------------------------
def _randc(rs, r, c):
    return (rs.standard_normal((r, c)) + 1j * rs.standard_normal((r, c))) \
        / np.sqrt(2.0)


def _obj_array(mats):
    out = np.empty(len(mats), dtype=object)
    for i, m in enumerate(mats):
        out[i] = m
    return out


def _blockdiag(mats):
    r = sum(m.shape[0] for m in mats)
    c = sum(m.shape[1] for m in mats)
    out = np.zeros((r, c), dtype=complex)
    i = j = 0
    for m in mats:
        out[i:i + m.shape[0], j:j + m.shape[1]] = m
        i += m.shape[0]
        j += m.shape[1]
    return out


def _norm_layout(lay, ext):
    Nr = [int(x) for x in lay["Nr"]]
    Nt = [int(x) for x in lay["Nt"]]
    K = min(len(Nr), len(Nt))
    Nr, Nt = Nr[:K], Nt[:K]
    NtE = [int(x) for x in lay.get("NtE", [1])] if ext else []
    if ext and not NtE:
        NtE = [1]
    return dict(Nr=Nr, Nt=Nt, NtE=NtE)


class Interp(object):
    """Applies op descriptors to the real object and to the model."""

    def __init__(self, cls, chan_seed, noise_seed, avoid_known, sweep, ctx):
        from pyphysim.channels import multiuser
        self.cls = cls
        self.ext = cls == "extint"
        self.obj = (multiuser.MultiUserChannelMatrixExtInt() if self.ext
                    else multiuser.MultiUserChannelMatrix())
        self.obj.set_channel_seed(int(chan_seed))
        self.obj.set_noise_seed(int(noise_seed))
        self.avoid_known = bool(avoid_known)
        self.sweep_mode = sweep
        self.ctx = ctx
        # model
        self.lay = None
        self.raw = None
        self.PL = None            # K x (K+E) floats or None
        self.noise_var = None
        self.W = None
        # bookkeeping
        self.states = []          # earlier (raw, PL) states (stale detection)
        self.hot = set()          # cache families filled under a path loss
        self.events = []          # ('r', families) / ('pl', kind) / ('init',)
        self.trace = []
        self.nops = 0

    # ---- model geometry ---------------------------------------------------
    @property
    def K(self):
        return len(self.lay["Nr"])

    @property
    def E(self):
        return len(self.lay["NtE"])

    def _cols(self):
        return self.lay["Nt"] + self.lay["NtE"]

    def _rowslice(self, k):
        c = np.concatenate([[0], np.cumsum(self.lay["Nr"])])
        return slice(int(c[k]), int(c[k + 1]))

    def _colslice(self, l):
        c = np.concatenate([[0], np.cumsum(self._cols())])
        return slice(int(c[l]), int(c[l + 1]))

    def _big(self, raw=None, PL="cur"):
        raw = self.raw if raw is None else raw
        PL = self.PL if isinstance(PL, str) else PL
        if PL is None:
            return raw
        big = np.repeat(np.repeat(PL, self.lay["Nr"], axis=0),
                        self._cols(), axis=1)
        return raw * np.sqrt(big)

    def tags(self, **kw):
        t = dict(cls=self.cls, K=self.K if self.lay else 0,
                 pl_set=self.PL is not None)
        t.update(kw)
        return t

    def _lib(self, tags, fn, *args):
        """call into the library; an exception keeps its own bucket (innermost
        pyphysim frame) and gets the tags of the op"""
        try:
            return fn(*args)
        except Violation:
            raise
        except Exception as exc:  # noqa
            exc.vpbt_tags = dict(tags)
            raise

    # ---- expected value of a view ----------------------------------------
    def _expected(self, view, k, l, raw=None, PL="cur"):
        B = self._big(raw, PL)
        K, sNt = self.K, int(sum(self.lay["Nt"]))
        if view == "big_H":
            return B
        if view == "big_H_no_ext_int":
            return B[:, :sNt]
        if view in ("get_Hk", "get_Hk_with_ext_int"):
            return B[self._rowslice(k), :]
        if view == "get_Hk_without_ext_int":
            return B[self._rowslice(k), :sNt]
        if view == "get_Hkl":
            return B[self._rowslice(k), self._colslice(l)]
        if view in ("H", "H_no_ext_int"):
            ncol = K if (view == "H_no_ext_int" or not self.ext) \
                else K + self.E
            return [[B[self._rowslice(a), self._colslice(b)]
                     for b in range(ncol)] for a in range(K)]
        raise ValueError("unknown view %r" % view)

    @staticmethod
    def _diff(got, exp):
        """(error, scale) or a string describing a structural mismatch"""
        if isinstance(exp, list):
            shape = (len(exp), len(exp[0]))
            if not isinstance(got, np.ndarray) or got.shape != shape:
                return "matrix of matrices has shape %r, expected %r" % (
                    getattr(got, "shape", None), shape)
            err, sc = 0.0, 0.0
            for a in range(shape[0]):
                for b in range(shape[1]):
                    d = Interp._diff(got[a, b], exp[a][b])
                    if isinstance(d, str):
                        return "block (%d,%d): %s" % (a, b, d)
                    err, sc = max(err, d[0]), max(sc, d[1])
            return err, sc
        got = np.asarray(got)
        if got.shape != exp.shape:
            return "shape %r, expected %r" % (got.shape, exp.shape)
        if exp.size == 0:
            return 0.0, 0.0
        return (float(np.max(np.abs(got - exp))),
                float(np.max(np.abs(exp))))

    def _check_view(self, view, k, l, got):
        exp = self._expected(view, k, l)
        d = self._diff(got, exp)
        tags = self.tags(view=view, family=FAMILY[self.cls].get(view))
        if isinstance(d, str):
            raise Violation("view_shape", "%s: %s" % (view, d), tags)
        err, sc = d
        tol = VIEW_RTOL * max(sc, 1e-300)
        if err <= tol:
            self.ctx.err("view_vs_model", err, tol)
            return
        # is it an earlier state of the same object (stale cache)?
        for raw0, PL0 in reversed(self.states):
            if raw0.shape != self.raw.shape:
                continue
            d0 = self._diff(got, self._expected(view, k, l, raw0, PL0))
            if not isinstance(d0, str) and d0[0] <= VIEW_RTOL * max(d0[1],
                                                                    1e-300):
                same_raw = raw0 is self.raw
                tags["stale_of"] = "pathloss" if same_raw else "reinit"
                raise Violation(
                    "view_stale",
                    "%s(k=%d,l=%d) equals the raw channel scaled by an "
                    "EARLIER %s, not the current one (err %.3e, tol %.3e); "
                    "trace=%r" % (view, k, l, "path loss" if same_raw else
                                  "channel matrix", err, tol, self.trace),
                    tags)
        raise Violation("view_mismatch",
                        "%s(k=%d,l=%d) differs from raw*sqrt(current path "
                        "loss): err %.3e > tol %.3e; trace=%r" %
                        (view, k, l, err, tol, self.trace), tags)

    # ---- ops --------------------------------------------------------------
    def apply(self, op):
        self.trace.append(op)
        self.nops += 1
        kind = op["op"]
        if self.lay is None and kind not in ("randomize", "init_matrix"):
            raise ValueError("history must start with an initialisation")
        self._pending_repl = None
        getattr(self, "_op_" + kind)(op)
        if self._pending_repl is not None:
            repl, self._pending_repl = self._pending_repl, None
            self._op_pathloss(dict(
                op="pathloss", kind=("own" if int(op.get("seed", 0)) % 2
                                     and not self.ext else "same")
                if repl == "reset_same"
                else "matrix", seed=int(op.get("seed", 0)) + 17, noarg=False))
        self._cheap_invariant()
        if self.sweep_mode == "every":
            self.sweep()

    def finish(self):
        if self.sweep_mode in ("end", "every"):
            self.sweep()

    def _resolve_layout(self, op):
        """-> layout to use; removes path loss / filters first when the op
        forces a re-layout (public API only)."""
        want = op.get("layout")
        swapped = want == "swap"
        if want == "swap":
            # the same users in another order: same K and antenna totals,
            # another split
            want = None if self.lay is None else dict(
                self.lay, Nr=list(reversed(self.lay["Nr"])),
                Nt=list(reversed(self.lay["Nt"])))
            if want is not None and want != self.lay:
                self.ctx.label("relayout_users_swapped")
        if self.lay is None:
            if want is None:
                raise ValueError("first op needs a layout")
            return _norm_layout(want, self.ext)
        if want is None:
            return self.lay
        want = _norm_layout(want, self.ext)
        if want == self.lay:
            return self.lay
        if self.PL is not None or self.W is not None:
            f = op.get("force")
            if swapped and f != "reset_new":
                # the drop is re-initialised for the re-ordered users and
                # the same path loss values are set again
                f = "reset_same"
            same_KE = len(want["Nr"]) == self.K and \
                len(want.get("NtE") or []) == self.E
            if f == "reset_new" and not same_KE and self.W is None \
                    and self.PL is not None:
                # a user / an external source joins or leaves under a path
                # loss, IMMEDIATELY followed by the new path loss matrix
                self._pending_repl = f
                self.ctx.label("relayout_then_set_pathloss:K_or_E_changed")
                self.ctx.label("relayout")
                self.ctx.label("K_changed")
                return want
            if f in ("reset_same", "reset_new") and self.W is None \
                    and self.PL is not None and same_KE:
                # re-layout while a path loss is set, IMMEDIATELY followed by
                # a new set_pathloss (what the apps do): nothing is observed
                # in between, afterwards every view must be coherent again
                self._pending_repl = f
                self.ctx.label("relayout_then_set_pathloss:" + f)
                self.ctx.label("relayout")
                return want
            if not f:
                self.ctx.label("relayout_suppressed")
                return self.lay
            if self.PL is not None:
                self._op_pathloss(dict(op="pathloss", kind="none",
                                       noarg=False))
            if self.W is not None:
                self._op_post_filter(dict(op="post_filter", kind="none"))
            self.ctx.label("relayout_forced")
        self.ctx.label("relayout")
        if len(want["Nr"]) != self.K:
            self.ctx.label("K_changed")
        return want

    def _layout_args(self, lay, ints, allow_int_N):
        K = len(lay["Nr"])
        Nr, Nt = np.array(lay["Nr"], dtype=int), np.array(lay["Nt"],
                                                          dtype=int)
        if ints and allow_int_N and len(set(lay["Nr"])) == 1 \
                and len(set(lay["Nt"])) == 1:
            # both counts as ints, or (every third time each) only one of
            # them next to an array for the other: documented per argument
            self._n_int_args = getattr(self, "_n_int_args", 0) + 1
            which = self._n_int_args % 3
            if which != 1:
                Nr = int(lay["Nr"][0])
            if which != 2:
                Nt = int(lay["Nt"][0])
            self.ctx.label("int_antenna_args" if which == 0 else
                           "int_and_array_antenna_args")
        args = [Nr, Nt, K]
        if self.ext:
            if ints and len(lay["NtE"]) == 1:
                args.append(int(lay["NtE"][0]))
            else:
                args.append(np.array(lay["NtE"], dtype=int))
        return args

    def _after_init(self, lay, raw):
        if self.lay is not None and lay != self.lay:
            self.states = []      # other geometry: not comparable
        elif self.raw is not None:
            self.states.append((self.raw, self.PL))
        self.lay = lay
        self.raw = raw
        self.hot = set()
        self.events.append(("init",))
        if self.PL is not None:
            self.ctx.label("reinit_with_pathloss_set")

    def _op_randomize(self, op):
        lay = self._resolve_layout(op)
        args = self._layout_args(lay, op.get("ints"), True)
        self._lib(self.tags(op="randomize"), self.obj.randomize, *args)
        self.passed = None
        raw = np.array(self.obj._big_H_no_pathloss, copy=True)
        shape = (sum(lay["Nr"]), sum(lay["Nt"]) + sum(lay["NtE"]))
        if raw.shape != shape:
            raise Violation("raw_shape", "randomize%r gave a %r raw matrix" %
                            (args, raw.shape), self.tags(op="randomize"))
        self._after_init(lay, raw)

    def _op_init_matrix(self, op):
        lay = self._resolve_layout(op)
        rs = np.random.RandomState(int(op["seed"]))
        r, c = sum(lay["Nr"]), sum(lay["Nt"]) + sum(lay["NtE"])
        if op.get("kind") == "int":
            raw = rs.randint(-9, 10, size=(r, c))
        else:
            raw = _randc(rs, r, c)
        self._init_from(lay, raw, op.get("ints"))

    def _init_from(self, lay, raw, ints=False):
        args = self._layout_args(lay, ints, not self.ext)
        # the caller's own array (kept: the caller may try to write to it)
        self.passed = raw.copy()
        self._lib(self.tags(op="init_matrix"),
                  self.obj.init_from_channel_matrix, self.passed, *args)
        self._after_init(lay, raw)

    def _op_rejected_init(self, op):
        """An init_from_channel_matrix call that the library must refuse
        (matrix shape does not match the antenna counts): ValueError, and the
        object is exactly what it was before."""
        lay = _norm_layout(op["layout"], self.ext)
        args = self._layout_args(lay, False, False)
        r, c = sum(lay["Nr"]), sum(lay["Nt"]) + sum(lay["NtE"])
        bad = np.ones((r + 1, c + 2), dtype=complex)
        if op.get("bad") == "K":
            # the matrix fits the antenna counts, but the number of users
            # does not match the number of antenna counts given
            bad = np.ones((r, c), dtype=complex)
            args[2] = len(lay["Nr"]) + 1
        try:
            self.obj.init_from_channel_matrix(bad, *args)
        except ValueError:
            self.ctx.label("rejected_init" if op.get("bad") != "K"
                           else "rejected_init_K")
            return
        raise Violation("bad_init_accepted", "init_from_channel_matrix took "
                        "a %r matrix for antenna counts %r" %
                        (bad.shape, lay), self.tags(op="rejected_init"))

    def _op_poke(self, op):
        """The caller writes into ITS OWN array after handing it to
        init_from_channel_matrix.  The library keeps the views in sync by
        making that memory read-only; so either the write is refused, or it
        succeeds and every view still agrees with the object's global
        matrix (which becomes the model's raw channel)."""
        if op.get("target") == "pl":
            # ... or into the path-loss array it handed to set_pathloss: the
            # path loss of the object stays what was set
            arr = getattr(self, "passed_pl", None)
            if arr is None or self.PL is None:
                self.ctx.label("poke_skipped(no caller array)")
                return
            i = int(op["i"]) % arr.shape[0]
            j = int(op["j"]) % arr.shape[1]
            try:
                arr[i, j] = arr[i, j] * 0.5
                self.ctx.label("poke_pathloss_succeeded")
            except ValueError:
                self.ctx.label("poke_pathloss_refused(read-only)")
            return
        arr = getattr(self, "passed", None)
        if arr is None or arr.size == 0:
            self.ctx.label("poke_skipped(no caller array)")
            return
        i = int(op["i"]) % arr.shape[0]
        j = int(op["j"]) % arr.shape[1]
        try:
            arr[i, j] = arr[i, j] + 1
            wrote = True
        except ValueError:
            wrote = False
        if not wrote:
            self.ctx.label("poke_refused(read-only)")
            return
        self.ctx.label("poke_succeeded")
        raw = np.array(self.obj._big_H_no_pathloss, copy=True)
        self.states = []
        self.raw = raw

    def _op_pathloss(self, op):
        kind = op["kind"]
        if kind == "none":
            if op.get("noarg"):
                self._lib(self.tags(op="pathloss"), self.obj.set_pathloss)
            else:
                self._lib(self.tags(op="pathloss"), self.obj.set_pathloss,
                          None)
            new = None
        else:
            if self.ext and self.avoid_known and self.hot & {"big_H", "H"}:
                # known finding extint-set-pathloss-stale-cache: refresh the
                # caches through the public API (same matrix, same layout)
                self.ctx.count("known_stale_avoided")
                self.ctx.label("known_stale_avoided")
                self._init_from(self.lay, self.raw)
            K, E = self.K, self.E
            user_int = False
            if kind == "same":
                new = np.array(self.PL, dtype=float, copy=True)
            elif kind == "own" and self.PL is not None and not self.ext \
                    and np.shape(self.obj.pathloss) == (K, K + E):
                # chan.set_pathloss(chan.pathloss): what the object reports
                # is handed back (after a re-initialisation: same values)
                new = np.array(self.PL, dtype=float, copy=True)
                self.ctx.label("pathloss_own_array_handed_back")
                self._lib(self.tags(op="pathloss"), self.obj.set_pathloss,
                          self.obj.pathloss)
                self.passed_pl = None
                self.states.append((self.raw, self.PL))
                self.PL = new
                self.events.append(("pl", kind))
                return
            elif kind == "ones":
                new = np.ones((K, K + E))
            elif kind == "near" and self.PL is not None:
                # almost the path loss that is set (a user moved by a metre)
                rs = np.random.RandomState(int(op["seed"]))
                new = np.array(self.PL, dtype=float) * (
                    1.0 + 1e-6 * rs.uniform(-1.0, 1.0, size=(K, K + E)))
                self.ctx.label("pathloss_nearby_values")
            else:
                rs = np.random.RandomState(int(op["seed"]))
                new = 10.0 ** rs.uniform(-2.0, 1.0, size=(K, K + E))
                if kind == "tiny":
                    # linear path loss of real links: 1e-14 .. 1e-7
                    new = 10.0 ** rs.uniform(-14.0, -7.0, size=(K, K + E))
                    self.ctx.label("pathloss_tiny_values")
                if kind == "intmatrix":
                    # whole-number path loss between the users handed over as
                    # an INTEGER array (a literal np.array([[1, 4], [9, 16]]));
                    # external-interference path loss stays fractional
                    new[:, :K] = rs.randint(1, 10, size=(K, K))
                    user_int = True
                    self.ctx.label("pathloss_int_dtype")
            users = new[:, :K].astype(np.int64) if user_int \
                else new[:, :K].copy()
            if self.ext:
                self.passed_pl = users if users.dtype.kind == "f" else None
                self._lib(self.tags(op="pathloss"), self.obj.set_pathloss,
                          users, new[:, K:].copy())
            else:
                arg = users if user_int else new.copy()
                self.passed_pl = arg if arg.dtype.kind == "f" else None
                self._lib(self.tags(op="pathloss"), self.obj.set_pathloss,
                          arg)
        if self.PL is None or np.shape(self.PL) == (self.K, self.K + self.E):
            # (after a K- or E-changing re-layout the old matrix belongs to
            # another geometry: not a state the new views can be stale from)
            self.states.append((self.raw, self.PL))
        self.PL = new
        self.events.append(("pl", kind))

    def _op_noise_var(self, op):
        v = op["value"]
        self.obj.noise_var = None if v is None else float(v)
        self.noise_var = None if v is None else float(v)

    def _op_post_filter(self, op):
        kind = op["kind"]
        if kind == "none":
            self._lib(self.tags(op="post_filter"), self.obj.set_post_filter,
                      None)
            self.W = None
            return
        rs = np.random.RandomState(int(op["seed"]))
        W = []
        for n in self.lay["Nr"]:
            ns = n if kind.startswith("square") else 1 + int(rs.randint(n))
            if kind == "square_mixed":
                # receivers with a real-valued filter (identity = "no
                # filtering for this one", or real weights) next to
                # receivers with a complex one
                t = int(rs.randint(3))
                w = _randc(rs, n, ns)
                W.append(np.eye(n) if t == 0 else
                         (np.ascontiguousarray(w.real) if t == 1 else w))
            else:
                W.append(_randc(rs, n, ns))
        if kind == "square_mixed":
            self.ctx.label("post_filter:real_and_complex_receivers")
        arg = _obj_array([w.copy() for w in W]) if op.get("as_array") \
            else [w.copy() for w in W]
        self._lib(self.tags(op="post_filter"), self.obj.set_post_filter, arg)
        self.W = W

    def _filters_square(self):
        return self.W is None or all(w.shape[0] == w.shape[1]
                                     for w in self.W)

    def _read_one(self, view, k, l):
        o = self.obj
        tags = self.tags(view=view, op="read")
        if view == "big_W":
            got = self._lib(tags, lambda: o.big_W)
            if self.W is None:
                if got is not None:
                    raise Violation("big_W", "big_W is not None without "
                                    "filters", tags)
            else:
                exp = _blockdiag(self.W)
                if got is None or np.asarray(got).shape != exp.shape:
                    raise Violation("big_W", "big_W shape %r expected %r" % (
                        getattr(got, "shape", None), exp.shape), tags)
                err = float(np.max(np.abs(got - exp)))
                self.ctx.close("big_W", err, VIEW_RTOL * float(
                    np.max(np.abs(exp))), "big_W is not the block diagonal "
                    "of the CURRENT filters; trace=%r" % self.trace, tags)
            return "big_W"
        if view == "H_no_ext_int" and self.avoid_known and self.ext \
                and self.PL is not None and self.K >= 2:
            # known finding extint-H_no_ext_int-pathloss (always raises)
            self.ctx.count("known_H_no_ext_int_avoided")
            return None
        if view == "H":
            got = self._lib(tags, lambda: o.H)
        elif view == "big_H":
            got = self._lib(tags, lambda: o.big_H)
        elif view == "big_H_no_ext_int":
            got = self._lib(tags, lambda: o.big_H_no_ext_int)
        elif view == "H_no_ext_int":
            got = self._lib(tags, lambda: o.H_no_ext_int)
        elif view == "get_Hkl":
            got = self._lib(tags, o.get_Hkl, k, l)
        else:
            got = self._lib(tags, getattr(o, view), k)
        self._check_view(view, k, l, got)
        fam = FAMILY[self.cls].get(view)
        if fam is not None and self.PL is not None:
            self.hot.add(fam)
        return fam or "nocache"

    def _op_read(self, op):
        views = EXT_VIEWS if self.ext else PLAIN_VIEWS
        k = int(op.get("k", 0)) % self.K
        ncol = self.K + (self.E if self.ext else 0)
        l = int(op.get("l", 0)) % ncol
        fams = set()
        for v in op["views"]:
            if v not in views:
                continue
            f = self._read_one(v, k, l)
            if f is not None:
                fams.add(f)
        fams.discard("big_W")
        if fams:
            self.events.append(("r", self.PL is not None))

    def sweep(self):
        """read every view for every (k, l)"""
        views = EXT_VIEWS if self.ext else PLAIN_VIEWS
        ncol = self.K + (self.E if self.ext else 0)
        for v in views:
            if v in ("H", "big_H", "big_H_no_ext_int", "H_no_ext_int",
                     "big_W"):
                self._read_one(v, 0, 0)
            elif v == "get_Hkl":
                for k in range(self.K):
                    for l in range(ncol):
                        self._read_one(v, k, l)
            else:
                for k in range(self.K):
                    self._read_one(v, k, 0)
        self.events.append(("r", self.PL is not None))

    def _op_corrupt(self, op):
        lay = self.lay
        n = int(op["nsymb"])
        rs = np.random.RandomState(int(op["seed"]))
        cols = self._cols()
        x = _randc(rs, int(sum(cols)), n)
        mode = op["mode"]
        if mode == "data" and not self._filters_square():
            mode = "concat"
            self.ctx.label("corrupt_data_to_concat(rect_filter)")
        tags = self.tags(op="corrupt", mode=mode,
                         noise=("none" if self.noise_var is None else
                                ("zero" if self.noise_var == 0 else "pos")),
                         filt=("none" if self.W is None else
                               ("square" if self._filters_square()
                                else "rect")))
        if mode == "concat":
            out = self._lib(tags, self.obj.corrupt_concatenated_data,
                            x.copy())
        else:
            ri = int(op.get("seed", 0)) % self.K
            if op.get("real_first") and self.K >= 2:
                # one user (any position) sends real symbols (BPSK), the
                # others complex ones: blocks of different dtypes
                x[self._colslice(ri), :] = x[self._colslice(ri), :].real
                self.ctx.label("corrupt:first_block_real_dtype" if ri == 0
                               else "corrupt:later_block_real_dtype")
            blocks = [x[self._colslice(i), :].copy()
                      for i in range(len(cols))]
            if op.get("real_first") and self.K >= 2:
                blocks[ri] = np.ascontiguousarray(blocks[ri].real)
            data = _obj_array(blocks[:self.K])
            if self.ext:
                out = self._lib(tags, self.obj.corrupt_data, data,
                                _obj_array(blocks[self.K:]))
            else:
                out = self._lib(tags, self.obj.corrupt_data, data)
        ln = self.obj.last_noise
        sNr = int(sum(lay["Nr"]))
        B = self._big()
        y = np.dot(B, x)
        bound = np.dot(np.abs(B), np.abs(x))
        if self.noise_var is None:
            if ln is not None:
                raise Violation("last_noise_none", "noise_var is None but "
                                "last_noise is %r" % type(ln), tags)
        else:
            if not isinstance(ln, np.ndarray) or ln.shape != (sNr, n):
                raise Violation("last_noise_shape", "noise_var=%r but "
                                "last_noise is %r shape %r, expected %r" % (
                                    self.noise_var, type(ln),
                                    getattr(ln, "shape", None), (sNr, n)),
                                tags)
            y = y + ln
            bound = bound + np.abs(ln)
        if self.W is not None:
            Wb = _blockdiag(self.W)
            y = np.dot(Wb.conj().T, y)
            bound = np.dot(np.abs(Wb).T, bound)
        tol = OUT_RTOL * max(float(np.max(bound)), 1e-300)
        if mode == "concat":
            if not isinstance(out, np.ndarray) or out.shape != y.shape:
                raise Violation("corrupt_shape", "concatenated output shape "
                                "%r expected %r" % (getattr(out, "shape",
                                                            None), y.shape),
                                tags)
            err = float(np.max(np.abs(out - y)))
        else:
            if not isinstance(out, np.ndarray) or out.shape != (self.K,):
                raise Violation("corrupt_shape", "corrupt_data returned "
                                "shape %r, expected (%d,)" % (
                                    getattr(out, "shape", None), self.K),
                                tags)
            err = 0.0
            for k in range(self.K):
                e = y[self._rowslice(k), :]
                g = np.asarray(out[k])
                if g.shape != e.shape:
                    raise Violation("corrupt_shape", "receiver %d got shape "
                                    "%r expected %r" % (k, g.shape, e.shape),
                                    tags)
                err = max(err, float(np.max(np.abs(g - e))))
        if err <= tol:
            self.ctx.err("corrupt_vs_model", err, tol)
        else:
            # does it match an earlier path loss (stale big_H)?
            stale = None
            for raw0, PL0 in reversed(self.states):
                if raw0.shape != self.raw.shape:
                    continue
                y0 = np.dot(self._big(raw0, PL0), x)
                if self.noise_var is not None:
                    y0 = y0 + ln
                if self.W is not None:
                    y0 = np.dot(_blockdiag(self.W).conj().T, y0)
                got = out if mode == "concat" else np.vstack(list(out))
                if got.shape == y0.shape and \
                        float(np.max(np.abs(got - y0))) <= tol:
                    stale = "pathloss" if raw0 is self.raw else "reinit"
                    break
            if stale:
                tags.update(stale_of=stale, view="corrupt", family="big_H")
                raise Violation("view_stale", "corrupt_%s used the channel "
                                "scaled by an EARLIER %s (err %.3e tol "
                                "%.3e); trace=%r" % (mode, stale, err, tol,
                                                     self.trace), tags)
            raise Violation("corrupt_mismatch", "output != W^H(big_H x + "
                            "last_noise): err %.3e > tol %.3e; trace=%r" %
                            (err, tol, self.trace), tags)
        if self.PL is not None:
            self.hot.add("big_H")
        self.events.append(("r", self.PL is not None))
        self.ctx.label("corrupt:%s/noise=%s/filt=%s" % (
            mode, tags["noise"], tags["filt"]))

    # ---- invariant that touches no lazy cache ------------------------------
    def _cheap_invariant(self):
        o, lay = self.obj, self.lay
        tags = self.tags(op=self.trace[-1]["op"])
        ok = (int(o.K) == self.K and
              list(np.asarray(o.Nr).astype(int)) == lay["Nr"] and
              list(np.asarray(o.Nt).astype(int)) == lay["Nt"])
        if ok and self.ext:
            ok = (int(o.extIntK) == self.E and
                  list(np.atleast_1d(o.extIntNt).astype(int)) == lay["NtE"])
        if not ok:
            raise Violation("layout", "K/Nr/Nt reported %r/%r/%r, expected "
                            "%r; trace=%r" % (o.K, o.Nr, o.Nt, lay,
                                              self.trace), tags)
        nv = o.noise_var
        if (nv is None) != (self.noise_var is None) or \
                (nv is not None and float(nv) != self.noise_var):
            raise Violation("noise_var", "noise_var %r expected %r" %
                            (nv, self.noise_var), tags)
        pl = o.pathloss
        if self.PL is None:
            if pl is not None:
                raise Violation("pathloss_prop", "pathloss not None after "
                                "removal", tags)
        else:
            exp = self.PL if self.ext else self.PL[:, :self.K]
            if pl is None or np.asarray(pl).shape != exp.shape or \
                    not np.array_equal(pl, exp):
                raise Violation("pathloss_prop", "pathloss property is not "
                                "the current matrix", tags)
        w = o.W
        if (w is None) != (self.W is None) or (w is not None and (
                len(w) != len(self.W) or
                any(not np.array_equal(a, b) for a, b in zip(w, self.W)))):
            raise Violation("W_prop", "W property is not the current filter "
                            "list", tags)

    # ---- classification of the history ------------------------------------
    def classify(self):
        """labels + non-triviality from the event list"""
        ev = self.events
        lab = set()
        seen_read = False        # read since the last (re)initialisation
        seen_read_pl = False     # ... under a path loss
        armed = armed_pl2 = False
        armed_init = False
        any_read = False
        for e in ev:
            if e[0] == "init":
                if any_read:
                    armed_init = True
                seen_read = seen_read_pl = armed = armed_pl2 = False
            elif e[0] == "pl":
                if seen_read:
                    armed = True
                if seen_read_pl and e[1] != "none":
                    armed_pl2 = True
            else:
                any_read = True
                if armed:
                    lab.add("read-setpathloss-read")
                if armed_pl2 and e[1]:
                    lab.add("read(PL1)-setpathloss(PL2)-read")
                if armed_init:
                    lab.add("read-reinit-read")
                seen_read = True
                if e[1]:
                    seen_read_pl = True
        return lab


# ----------------------------------------------------------------------------
# running a history
# ----------------------------------------------------------------------------
def _run_history(case, ops, ctx):
    it = Interp(case["cls"], case["chan_seed"], case["noise_seed"],
                case.get("avoid_known", False), case.get("sweep", "none"),
                ctx)
    try:
        for op in ops:
            it.apply(op)
        it.finish()
    finally:
        _label_history(it, ctx)
    return it


def _label_history(it, ctx):
    if it.lay is None:
        return
    ctx.label("cls=" + it.cls, "sweep=" + str(it.sweep_mode),
              "avoid_known" if it.avoid_known else "natural")
    n = it.nops
    ctx.label("len<=5" if n <= 5 else ("len6-15" if n <= 15 else "len>15"))
    lay = it.lay
    ctx.label("K=%d" % len(lay["Nr"]))
    if len(set(lay["Nr"])) > 1 or len(set(lay["Nt"])) > 1:
        ctx.label("unequal_antennas")
    if it.ext:
        ctx.label("ext_sources=%d" % len(lay["NtE"]))
    pats = it.classify()
    for p in pats:
        ctx.label(p)
    if not pats:
        ctx.label("no_read-mutate-read")
    npl = sum(1 for e in it.events if e[0] == "pl")
    ctx.label("pathloss_ops=%s" % (npl if npl < 3 else ">=3"))
    ctx.nontrivial("read-setpathloss-read" in pats)


def check(case, ctx):
    if case["part"] == "machine" and "trace" not in case:
        return _check_machine(case, ctx)
    ops = case["trace"] if "trace" in case else case["ops"]
    _run_history(case, ops, ctx)


# ----------------------------------------------------------------------------
# Part "hist": lists of op descriptors
# ----------------------------------------------------------------------------
def _layout_st(tier):
    kmax, amax = (4, 4) if tier == "quick" else (5, 6)

    def build(K, Nr, Nt, NtE, eq):
        if eq:
            Nr, Nt = [Nr[0]] * K, [Nt[0]] * K
        return dict(Nr=Nr[:K], Nt=Nt[:K], NtE=NtE)
    ant = st.lists(st.integers(1, amax), min_size=kmax, max_size=kmax)
    ks = [1, 2, 2, 3, 3, 4] + ([] if tier == "quick" else [5])
    return st.builds(build, st.sampled_from(ks), ant, ant,
                     st.lists(st.integers(1, 2), min_size=1, max_size=2),
                     st.sampled_from([False, False, True]))


def _sized_list(elem, sizes):
    return st.sampled_from(sizes).flatmap(
        lambda n: st.lists(elem, min_size=n, max_size=n))


def _ops_st(tier, cls):
    views = EXT_VIEWS if cls == "extint" else PLAIN_VIEWS
    lay = st.one_of(st.none(), st.none(), _layout_st(tier), st.just("swap"))
    force = st.sampled_from([False, True, "reset_same", "reset_new"])
    randomize = fixed(op=st.just("randomize"), layout=lay,
                      force=force, ints=st.booleans(), seed=seeds)
    init_m = fixed(op=st.just("init_matrix"), layout=lay,
                   force=force, ints=st.booleans(), seed=seeds,
                   kind=st.sampled_from(["complex", "complex", "int"]))
    pathloss = fixed(op=st.just("pathloss"),
                     kind=st.sampled_from(["matrix", "matrix", "matrix",
                                           "tiny", "tiny", "near",
                                           "matrix", "intmatrix", "ones",
                                           "own", "none"]),
                     seed=seeds, noarg=st.booleans())
    noise = fixed(op=st.just("noise_var"),
                  value=st.sampled_from([None, 0.0, 1e-3, 0.5, 4.0]))
    filt = fixed(op=st.just("post_filter"),
                 kind=st.sampled_from(["square", "square", "square_mixed",
                                       "rect", "none"]),
                 seed=seeds, as_array=st.booleans())
    read = fixed(op=st.just("read"),
                 views=st.lists(st.sampled_from(views), min_size=1,
                                max_size=3, unique=True),
                 k=st.integers(0, 11), l=st.integers(0, 11))
    corrupt = fixed(op=st.just("corrupt"),
                    mode=st.sampled_from(["data", "concat"]),
                    nsymb=st.integers(1, 4), seed=seeds,
                    real_first=st.sampled_from([False, False, True]))
    poke = st.one_of(
        fixed(op=st.just("poke"), i=st.integers(0, 40), j=st.integers(0, 40),
              target=st.sampled_from(["matrix", "pl"])),
        fixed(op=st.just("rejected_init"), layout=_layout_st(tier),
              bad=st.sampled_from(["shape", "K"])))
    mutate = st.one_of(pathloss, pathloss, pathloss, randomize, init_m,
                       noise, filt, poke)
    observe = st.one_of(read, read, read, corrupt)
    return dict(randomize=randomize, init_matrix=init_m, mutate=mutate,
                observe=observe,
                any=st.one_of(read, read, read, pathloss, pathloss, pathloss,
                              corrupt, randomize, init_m, noise, filt, poke))


def _hist_strategy(tier):
    big = tier != "quick"
    free_sizes = [3, 6, 10, 15, 20, 24] + ([34, 44] if big else [])
    seg_sizes = [2, 3, 4, 5, 6, 8] + ([11, 14] if big else [])

    def for_cls(cls):
        o = _ops_st(tier, cls)
        first = st.one_of(o["randomize"], o["init_matrix"]).flatmap(
            lambda op: _layout_st(tier).map(
                lambda L: dict(op, layout=L)))
        # free interleavings
        free = _sized_list(o["any"], free_sizes)
        # segments: 0..2 observations, a mutation, 1..2 observations - so
        # that the lazily cached views are read around every mutation
        seg = st.tuples(st.lists(o["observe"], max_size=2), o["mutate"],
                        st.lists(o["observe"], min_size=1, max_size=2)).map(
                            lambda t: t[0] + [t[1]] + t[2])
        segs = _sized_list(seg, seg_sizes).map(
            lambda ll: [op for l in ll for op in l])
        return fixed(
            part=st.just("hist"), cls=st.just(cls), chan_seed=seeds,
            noise_seed=seeds,
            avoid_known=st.sampled_from([True, False, False, False]),
            sweep=st.sampled_from(["none", "none", "end", "end", "every"]),
            ops=st.tuples(first, st.one_of(free, segs)).map(
                lambda t: [t[0]] + t[1]))
    return st.one_of(for_cls("plain"), for_cls("extint"))


# ----------------------------------------------------------------------------
# Part "machine": RuleBasedStateMachine driving the same interpreter
# ----------------------------------------------------------------------------
def _machine_cases(tier):
    try:
        vseed = int(os.environ.get("VERIF_SEED", "1"))
    except ValueError:
        vseed = 1
    n = 64 if tier == "quick" else 960
    cases = []
    for i in range(n):
        s = derive_seed(vseed, PROPERTY, "machine", i)
        cases.append(dict(
            part="machine", cls=["plain", "extint"][i % 2],
            mseed=int(s % (2 ** 31 - 1)), chan_seed=int((s >> 8) % 10 ** 6),
            noise_seed=int((s >> 16) % 10 ** 6),
            avoid_known=(i % 4 == 0), sweep=["none", "end", "every"][
                (i // 2) % 3],
            examples=5 if tier == "quick" else 8,
            steps=16 if tier == "quick" else 30,
            shrink=(tier != "quick"), tier=tier))
    return cases


def _make_machine(case, ctx, sink):
    from hypothesis.stateful import (RuleBasedStateMachine, initialize,
                                     precondition, rule)
    tier = case.get("tier", "quick")
    cls = case["cls"]
    views = EXT_VIEWS if cls == "extint" else PLAIN_VIEWS

    class ChannelMachine(RuleBasedStateMachine):
        def __init__(self):
            super().__init__()
            self.it = Interp(cls, case["chan_seed"], case["noise_seed"],
                             case.get("avoid_known", False),
                             case.get("sweep", "none"), ctx)
            self.failed = False
            sink["it"] = self.it
            sink["runs"] = sink.get("runs", 0) + 1

        def _do(self, op):
            try:
                self.it.apply(op)
            except BaseException:
                self.failed = True
                raise

        @initialize(lay=_layout_st(tier), how=st.sampled_from(
            ["randomize", "init_matrix"]), seed=seeds, ints=st.booleans())
        def start(self, lay, how, seed, ints):
            self._do(dict(op=how, layout=lay, force=False, ints=ints,
                          seed=seed, kind="complex"))

        # re-randomise / re-initialise with the SAME layout: always enabled
        @rule(ints=st.booleans())
        def randomize(self, ints):
            self._do(dict(op="randomize", layout=None, force=False,
                          ints=ints))

        @rule(seed=seeds, kind=st.sampled_from(["complex", "int"]),
              ints=st.booleans())
        def init_matrix(self, seed, kind, ints):
            self._do(dict(op="init_matrix", layout=None, force=False,
                          ints=ints, seed=seed, kind=kind))

        # a new layout is only enabled while no path loss / filter is set
        @precondition(lambda self: self.it.PL is None and self.it.W is None)
        @rule(lay=_layout_st(tier), how=st.sampled_from(
            ["randomize", "init_matrix"]), seed=seeds)
        def relayout(self, lay, how, seed):
            self._do(dict(op=how, layout=lay, force=False, ints=False,
                          seed=seed, kind="complex"))

        @rule(kind=st.sampled_from(["matrix", "matrix", "matrix", "ones"]),
              seed=seeds)
        def set_pathloss(self, kind, seed):
            self._do(dict(op="pathloss", kind=kind, seed=seed, noarg=False))

        # (same rule twice: Hypothesis picks uniformly among enabled rules)
        @rule(kind=st.sampled_from(["matrix", "matrix", "matrix", "ones"]),
              seed=seeds)
        def set_pathloss_again(self, kind, seed):
            self._do(dict(op="pathloss", kind=kind, seed=seed, noarg=False))

        @precondition(lambda self: self.it.PL is not None)
        @rule(noarg=st.booleans())
        def remove_pathloss(self, noarg):
            self._do(dict(op="pathloss", kind="none", seed=0, noarg=noarg))

        @rule(value=st.sampled_from([None, 0.0, 1e-3, 0.5, 4.0]))
        def noise_var(self, value):
            self._do(dict(op="noise_var", value=value))

        @rule(kind=st.sampled_from(["square", "square_mixed", "rect"]),
              seed=seeds, as_array=st.booleans())
        def set_filter(self, kind, seed, as_array):
            self._do(dict(op="post_filter", kind=kind, seed=seed,
                          as_array=as_array))

        @precondition(lambda self: self.it.W is not None)
        @rule()
        def remove_filter(self):
            self._do(dict(op="post_filter", kind="none", seed=0))

        @rule(data=st.data(), vs=st.lists(st.sampled_from(views),
                                          min_size=1, max_size=3,
                                          unique=True))
        def read(self, data, vs):
            it = self.it
            k = data.draw(st.integers(0, it.K - 1), label="k")
            ncol = it.K + (it.E if it.ext else 0)
            l = data.draw(st.integers(0, ncol - 1), label="l")
            self._do(dict(op="read", views=vs, k=k, l=l))

        @rule(data=st.data(), v=st.sampled_from(views))
        def read_one(self, data, v):
            self.read(data, [v])

        # corrupt_data splits by antenna count: square filters or none
        @precondition(lambda self: self.it._filters_square())
        @rule(nsymb=st.integers(1, 4), seed=seeds)
        def corrupt_data(self, nsymb, seed):
            self._do(dict(op="corrupt", mode="data", nsymb=nsymb, seed=seed))

        @rule(nsymb=st.integers(1, 4), seed=seeds)
        def corrupt_concat(self, nsymb, seed):
            self._do(dict(op="corrupt", mode="concat", nsymb=nsymb,
                          seed=seed))

        def teardown(self):
            it = self.it
            if it.lay is not None and not self.failed:
                it.finish()
                _label_history(it, ctx)
                pats = it.classify()
                sink["histories"] = sink.get("histories", 0) + 1
                if "read-setpathloss-read" in pats:
                    sink["nontrivial"] = sink.get("nontrivial", 0) + 1

    return ChannelMachine


def _check_machine(case, ctx):
    import hypothesis
    from hypothesis import HealthCheck, Phase, Verbosity, settings
    from hypothesis.stateful import run_state_machine_as_test
    from ..core import Ctx
    sink = {}
    # labels / errors of the machine's histories are collected separately
    # and only merged when the run passes: after a failure Hypothesis
    # re-executes (shrinks) many histories, which would distort the counts
    tmp = Ctx()
    Machine = _make_machine(case, tmp, sink)
    phases = [Phase.generate] + ([Phase.shrink] if case.get("shrink") else [])
    sett = settings(max_examples=int(case["examples"]),
                    stateful_step_count=int(case["steps"]), database=None,
                    deadline=None, derandomize=False, phases=phases,
                    report_multiple_bugs=False, verbosity=Verbosity.quiet,
                    suppress_health_check=list(HealthCheck))
    hypothesis.seed(int(case["mseed"]))(Machine)
    ctx.label("machine_case", "cls=" + case["cls"])
    try:
        run_state_machine_as_test(Machine, settings=sett)
    except Exception:  # noqa  -- re-raised below, only the trace is recorded
        it = sink.get("it")
        if it is not None:
            # the last run is Hypothesis' replay of the (minimal) failing
            # history: make it the replay unit of this case
            case["trace"] = [dict(o) for o in it.trace]
        ctx.label("machine_case_failed")
        raise
    ctx.labels.extend(tmp.labels)
    for k, v in tmp.errs.items():
        ctx.err(k, v[0], v[1])
    for k, v in tmp.extra.items():
        ctx.count(k, v)
    ctx.count("machine_histories", sink.get("histories", 0))
    ctx.count("machine_histories_nontrivial", sink.get("nontrivial", 0))
    ctx.nontrivial(sink.get("nontrivial", 0) > 0)


PARTS = [
    Part("hist", _hist_strategy, quick=1600, thorough=40000,
         quick_shards=8),
    Part("machine", enumerate=_machine_cases, quick_shards=8,
         thorough_shards=16),
]
