"""C09 - block diagonalisation nulls the inter-user interference within the
power budget (BlockDiagonalizer, WhiteningBD, EnhancedBD)."""
import numpy as np
from hypothesis import strategies as st

from ..core import Part, Violation
from ..gens import fl, loguniform, seeds

PROPERTY = "C09"
LEVEL = "exploration"
RULE = ("K users x N antennas per user (quick K 2..4, N 1..3; thorough K 2..6, "
        "N 1..4, K*N <= 16), square full-rank channel built from a drawn seed "
        "(complex Gaussian, or U diag(s) V^H with drawn singular values and "
        "condition number <= 1e3 quick / 1e6 thorough), iPu 1e-3..1e3, noise "
        "1e-4..10; part 'bd': BlockDiagonalizer with / without water-filling "
        "(class and module-level API); part 'extint': WhiteningBD and "
        "EnhancedBD (metric None/naive/fixed/capacity/effective_throughput, "
        "num_streams 1..N with the configuration dictionary optionally "
        "re-used by the caller afterwards, optionally after the same object "
        "was configured for another metric, PSK/QAM/BPSK/QPSK modulators) on a "
        "MultiUserChannelMatrixExtInt with external sources of total rank "
        "1..3 and power pe 1e-3..1e3; part 'grid': every (K, N) layout x "
        "method/metric x stream count x external-source layout once. "
        "Non-trivial = water-filling switched off at least one stream, or "
        "stream reduction active (some user transmits fewer streams than it "
        "has antennas), or an external-interference-aware receive filter was "
        "checked; distinct = SHA-1 of the case description")
RULE += (" Added after the white-box review: "
         "noise and external power optionally x 1e-14..1e-6, settings "
         "dictionary with extra keys, stream count as numpy integer, "
         "never-configured object, attributes assigned between two "
         "runs ")
RULE += (" Added after the second white-box review: the earlier run of a "
         "re-used object may have another antenna count per user (N+1 or "
         "N-1); the metric may be configured between the two runs (run - "
         "configure - run); the reported stream counts must be integers. ")

LEVEL_TEXT = ("Generated-input search (Hypothesis, seeded, sharded) over user "
              "layouts, channels with controlled conditioning, powers, noise, "
              "external interference layouts and every stream-reduction "
              "metric; the returned precoders / receive filters / stream "
              "counts are judged against first-principles post-conditions "
              "computed from the channel matrix (block-diagonality, "
              "per-transmitter power, left-inverse on powered streams, "
              "external-interference nulling). The configuration grid (K, N, "
              "method, metric, stream count, external layout) is enumerated "
              "completely with fixed channel seeds; channels themselves are "
              "sampled. Absence of violations is not proven.")
LEVEL_NOTE = ("numpy float64; tolerances 1e-10 relative to the stated scale "
              "(||H||*sqrt(iPu) for interference, iPu for powers, "
              "||W||*||newH|| resp. ||W_k||*||H_k||*||Ms_k|| for the receive "
              "filters, additionally the "
              "eigen-gap of the interference covariance for the external "
              "nulling); cases whose scale factor exceeds 1e7 / 1e5 are "
              "counted and skipped for that sub-check only")
TECHNIQUE = ("property-based testing (Hypothesis): first-principles "
             "post-condition oracles on generated channels and configurations, "
             "plus complete enumeration of the configuration grid")
ASSUMPTIONS = [
    "channel square (total tx = total rx), equal antennas per user, full rank "
    "with condition number <= 1e3 (quick) / 1e6 (thorough)",
    "'power of a transmitter's precoder block' = squared Frobenius norm of "
    "the column block of Ms that belongs to that user (as in the library "
    "documentation and its unit tests)",
    "a stream 'was given power' iff its column of Ms is not exactly zero "
    "(doWF returns exact zeros); the receive-filter check is skipped (and "
    "counted as near_threshold_excluded) when the largest column norm of "
    "newH exceeds the smallest powered one by more than 1e7 (= condition "
    "number of the powered part), i.e. a stream sits within 1e-14 relative "
    "received power of the water-filling threshold; never observed",
    "ext-int variants: the noise variance is set on the channel object (the "
    "documented way; without it the interference covariance is singular), "
    "pe > 0",
    "'the receive filter inverts the effective channel' is also asserted for "
    "the ext-int variants (W_k H_k Ms_k = I on the transmitted streams), per "
    "DESIGN.md",
    "'enough streams sacrificed' = the user transmits Ns < N streams with "
    "Ns <= N - rank(H_ext,k) and the reduction is interference aware (fixed, "
    "capacity, effective_throughput); judged relative to "
    "||W_k||*||H_ext,k||*(lambda_max(R_k)/eigen-gap); skipped above 1e5",
    "whether WhiteningBD's whitening filter really whitens is NOT part of "
    "this property (C20, calc_whitening_matrix); only a label records it",
]

_MODS = [["BPSK", 2], ["QPSK", 4], ["PSK", 4], ["PSK", 8], ["PSK", 16],
         ["QAM", 4], ["QAM", 16], ["QAM", 64]]
_EXT = [1, 2, [1], [1, 1], [2, 1], 3]
_METRICS = [None, "None", "naive", "fixed", "capacity", "effective_throughput"]


# ----------------------------------------------------------------------------
# generators
# ----------------------------------------------------------------------------
def _layouts(tier):
    if tier == "thorough":
        return [(K, N) for K in range(2, 7) for N in range(1, 5) if K * N <= 16]
    return [(K, N) for K in range(2, 5) for N in range(1, 4)]


def _chan(tier, n):
    kmax = 3.0 if tier == "quick" else 6.0
    # overall magnitude: order one, a few decades around it, or a linear
    # path-loss amplitude down to -200 dB (extreme but valid; every statement
    # of the property is scale free)
    gauss = st.fixed_dictionaries(dict(
        kind=st.just("gauss"), seed=seeds,
        scale=st.one_of(loguniform(-2, 2), loguniform(-2, 2),
                        loguniform(-10, -2))))

    def svd(u):
        return st.fixed_dictionaries(dict(
            kind=st.just("svd"), seed=seeds,
            scale=st.one_of(loguniform(-3, 3), loguniform(-3, 3),
                            loguniform(-10, -3)),
            logk=fl(0.0, kmax), u=u))
    # generic: exponents of the singular values uniform from the seed
    # (u=None); drawn: Hypothesis picks them (boundaries, clusters);
    # degenerate: repeated singular values / unitary channel
    generic = svd(st.none())
    drawn = svd(st.lists(fl(0.0, 1.0), min_size=n, max_size=n).map(
        lambda l: [round(x, 6) for x in l]))
    degenerate = svd(st.lists(st.sampled_from([0.0, 0.0, 0.5, 1.0]),
                              min_size=n, max_size=n))
    return st.one_of(gauss, gauss, generic, generic, drawn, degenerate)


@st.composite
def _bd_cases(draw, tier):
    K, N = draw(st.sampled_from(_layouts(tier)))
    return dict(part="bd", K=K, N=N, chan=draw(_chan(tier, K * N)),
                iPu=draw(loguniform(-3, 3)), noise=draw(loguniform(-4, 1)),
                method=draw(st.sampled_from(["wf", "wf", "nowf"])),
                api=draw(st.sampled_from(["class", "func"])))


@st.composite
def _extint_cases(draw, tier):
    K, N = draw(st.sampled_from(_layouts(tier)))
    variant = draw(st.sampled_from(["whitening", "enhanced", "enhanced",
                                    "enhanced", "enhanced"]))
    case = dict(part="extint", K=K, N=N, chan=draw(_chan(tier, K * N)),
                ext=draw(st.sampled_from(_EXT)), ext_seed=draw(seeds),
                iPu=draw(loguniform(-3, 3)), noise=draw(loguniform(-4, 1)),
                pe=draw(loguniform(-3, 3)), variant=variant,
                # the SAME BD object and the SAME channel object were used
                # before with another channel realisation
                reuse=draw(st.sampled_from([None, None, "init", "randomize"])),
                warm_N=draw(st.sampled_from([None, None, "plus", "minus"])),
                abs_exp=draw(st.sampled_from([0, 0, 0, -14, -12, -9, -6])))
    if variant == "enhanced":
        metric = draw(st.sampled_from(_METRICS + ["fixed", "capacity"]))
        case["metric"] = metric
        if metric in ("naive", "fixed"):
            case["num_streams"] = draw(st.integers(1, N))
            case["cfg_dict_reused"] = draw(st.sampled_from(
                [None, None] + [x for x in range(1, N + 1)]))
        case["union_dict"] = draw(st.sampled_from([False, False, True]))
        case["unconfigured"] = draw(st.booleans())
        # (history) the earlier run used another antenna count, and/or the
        # metric was (re)configured BETWEEN the two runs
        case["warm_N"] = draw(st.sampled_from([None, None, "plus", "minus"]))
        case["cfg_between"] = draw(st.booleans())
        case["prev_metric"] = draw(st.sampled_from(
            [None, None, None, "capacity", "effective_throughput", "naive",
             "fixed", "None"]))
        if metric == "effective_throughput":
            case["mod"] = draw(st.sampled_from(_MODS))
            case["packet_length"] = draw(st.sampled_from([1, 8, 60, 120,
                                                          1000]))
    return case


def _grid(tier):
    """Every configuration once (fixed channel seeds): finite sub-domain."""
    out = []
    seed = 1000
    for (K, N) in _layouts(tier):
        for method in ("wf", "nowf"):
            for api in ("class", "func"):
                for noise in (1e-3, 3.0):
                    seed += 1
                    out.append(dict(
                        part="grid", kind="bd", K=K, N=N,
                        chan=dict(kind="gauss", seed=seed, scale=1.0),
                        iPu=0.7, noise=noise, method=method, api=api))
        for ext in _EXT:
            base = dict(part="grid", kind="extint", K=K, N=N, ext=ext,
                        iPu=0.7, noise=0.05, pe=20.0)
            confs = [dict(variant="whitening")]
            confs += [dict(variant="enhanced", metric=m)
                      for m in (None, "None", "capacity")]
            confs += [dict(variant="enhanced", metric=m, num_streams=ns)
                      for m in ("naive", "fixed") for ns in range(1, N + 1)]
            confs += [dict(variant="enhanced", metric="effective_throughput",
                           mod=mod, packet_length=120) for mod in _MODS]
            for c in confs:
                seed += 1
                d = dict(base)
                d.update(c)
                d["chan"] = dict(kind="gauss", seed=seed, scale=1.0)
                d["ext_seed"] = seed + 7
                out.append(d)
    return out


PARTS = [
    Part("bd", _bd_cases, quick=2500, thorough=120000, quick_shards=4),
    Part("extint", _extint_cases, quick=3500, thorough=200000,
         quick_shards=4),
    Part("grid", enumerate=_grid, exhaustive=True, quick_shards=2,
         thorough_shards=8),
]


# ----------------------------------------------------------------------------
# builders
# ----------------------------------------------------------------------------
def _randc(rs, n, m):
    return (rs.standard_normal((n, m)) +
            1j * rs.standard_normal((n, m))) / np.sqrt(2.0)


def _build_H(chan, n):
    rs = np.random.RandomState(chan["seed"])
    if chan["kind"] == "gauss":
        return chan["scale"] * _randc(rs, n, n)
    U = np.linalg.qr(_randc(rs, n, n))[0]
    V = np.linalg.qr(_randc(rs, n, n))[0]
    u = chan.get("u")
    if u is None:
        u = np.concatenate([[0.0, 1.0], rs.uniform(0.0, 1.0, n)])[:n]
    s = chan["scale"] * 10.0 ** (-chan["logk"] * np.asarray(u, dtype=float))
    return (U * s) @ V.conj().T


def _norm2(A):
    return float(np.linalg.norm(A, 2)) if A.size else 0.0


def _tags(case, **kw):
    t = dict(part=case["part"], K=case["K"], N=case["N"],
             chan=case["chan"]["kind"])
    t.update(kw)
    return t


def _size_labels(ctx, case):
    K, N = case["K"], case["N"]
    ctx.label("K=%d" % K if K <= 4 else "K>=5", "N=%d" % N,
              "chan=" + case["chan"]["kind"])
    if case["chan"]["kind"] == "svd":
        u = case["chan"].get("u")
        if u is None:
            k = case["chan"]["logk"]
        else:
            k = case["chan"]["logk"] * (max(u) - min(u))
            if len(set(u)) < len(u):
                ctx.label("repeated_singular_values")
        ctx.label("cond>=1e4" if k >= 4 else
                  ("cond>=1e2" if k >= 2 else "cond<1e2"))


# ----------------------------------------------------------------------------
# part bd: BlockDiagonalizer
# ----------------------------------------------------------------------------
def _check_bd(case, ctx):
    from pyphysim.comm import blockdiagonalization as bdm
    K, N = case["K"], case["N"]
    n = K * N
    iPu, noise = float(case["iPu"]), float(case["noise"])
    method, api = case["method"], case["api"]
    H = _build_H(case["chan"], n)
    Hlib = H.copy()
    tags = _tags(case, method=method, api=api)
    _size_labels(ctx, case)
    ctx.label("bd:" + method, "api=" + api)

    if case["chan"]["seed"] % 3 == 0:
        # the object was created for other values and its public attributes
        # were then assigned (a power / noise sweep on one object)
        ctx.label("attributes_reassigned")
        bd = bdm.BlockDiagonalizer(K, 7.0 * iPu, 3.0 * noise)
        bd.iPu = iPu
        bd.noise_var = noise
    else:
        bd = bdm.BlockDiagonalizer(K, iPu, noise)
    if method == "wf":
        if api == "func":
            newH, Ms = bdm.block_diagonalize(Hlib, K, iPu, noise)
        else:
            newH, Ms = bd.block_diagonalize(Hlib)
    else:
        newH, Ms = bd.block_diagonalize_no_waterfilling(Hlib)
    newH = np.asarray(newH)
    Ms = np.asarray(Ms)
    if Ms.shape != (n, n) or newH.shape != (n, n):
        raise Violation("bd_shape", "Ms %r newH %r for a %dx%d channel" %
                        (Ms.shape, newH.shape, n, n), tags)
    if not np.array_equal(Hlib, H):
        raise Violation("bd_input_modified", "the channel argument was "
                        "modified in place", tags)

    nH = _norm2(H)
    sq = np.sqrt(iPu)
    E = H @ Ms
    # the reported effective channel is the channel times the precoder
    ctx.close("bd_newH_is_H_Ms", np.max(np.abs(newH - E)) / (nH * sq), 1e-10,
              "", tags)

    # block diagonal: no user receives another user's streams
    worst = 0.0
    for k in range(K):
        rows = slice(k * N, (k + 1) * N)
        for j in range(K):
            if j != k:
                blk = E[rows, j * N:(j + 1) * N]
                worst = max(worst, float(np.linalg.norm(blk)),
                            float(np.linalg.norm(newH[rows,
                                                      j * N:(j + 1) * N])))
    ctx.close("bd_offdiag", worst / (nH * sq), 1e-10,
              "largest off-diagonal block norm %.3e (||H||=%.3e iPu=%.3e)" %
              (worst, nH, iPu), tags)

    # power of every transmitter's block
    pw = np.array([np.linalg.norm(Ms[:, k * N:(k + 1) * N]) ** 2
                   for k in range(K)])
    ctx.close("bd_power_exceeded", max(0.0, float(pw.max()) / iPu - 1.0),
              1e-10, "block powers %r iPu %r" % (pw.tolist(), iPu), tags)
    if method == "wf":
        ctx.close("bd_power_not_reached",
                  max(0.0, 1.0 - float(pw.max()) / iPu), 1e-10,
                  "block powers %r iPu %r" % (pw.tolist(), iPu), tags)
    else:
        ctx.close("bd_power_not_equal", float(np.max(np.abs(pw / iPu - 1.0))),
                  1e-10, "block powers %r iPu %r" % (pw.tolist(), iPu), tags)

    # receive filter inverts the effective channel on the powered streams
    col = np.linalg.norm(Ms, axis=0)
    powered = col > 0
    n_off = int(n - powered.sum())
    ctx.label("wf_some_off" if n_off else "all_streams_on")
    if n_off and method == "nowf":
        raise Violation("bd_nowf_zero_stream", "stream without power although "
                        "water-filling is off: %r" % col.tolist(), tags)
    if n_off:
        users_off = sum(1 for k in range(K)
                        if not powered[k * N:(k + 1) * N].any())
        if users_off:
            ctx.label("wf_whole_user_off")
    ctx.nontrivial(n_off >= 1)
    if api == "func":
        W = bdm.calc_receive_filter(newH)
    else:
        W = bd.calc_receive_filter(newH)
    W = np.asarray(W)
    if W.shape != (n, n):
        raise Violation("bd_rx_shape", "receive filter %r" % (W.shape,), tags)
    g = np.linalg.norm(newH, axis=0)
    ratio = float(g.max() / g[powered].min())
    if ratio > 1e7:
        # a stream within ~1e-14 (relative power) of the water-filling
        # threshold: numerically neither on nor off
        ctx.label("near_threshold_excluded")
        return
    G = W @ newH
    target = np.diag(powered.astype(float))
    err = float(np.max(np.abs(G[powered, :] - target[powered, :])))
    ctx.close("bd_rx_inverts", err / ratio, 1e-11,
              "max |W newH - I| on powered rows = %.3e, gain spread %.3e, "
              "%d streams off" % (err, ratio, n_off), tags)


# ----------------------------------------------------------------------------
# part extint: WhiteningBD / EnhancedBD
# ----------------------------------------------------------------------------
def _modulator(spec):
    from pyphysim.modulators import fundamental
    name, M = spec
    if name == "BPSK":
        return fundamental.BPSK()
    if name == "QPSK":
        return fundamental.QPSK()
    return getattr(fundamental, name)(M)


def _check_extint(case, ctx):
    from pyphysim.channels import multiuser
    from pyphysim.comm import blockdiagonalization as bdm
    K, N = case["K"], case["N"]
    n = K * N
    iPu, noise, pe = float(case["iPu"]), float(case["noise"]), float(case["pe"])
    ge = int(case.get("abs_exp", 0))
    if ge:
        # noise and external interference in Watts: one common factor (the
        # relations judged here are relative)
        noise, pe = noise * 10.0 ** ge, pe * 10.0 ** ge
        ctx.label("noise_and_pe_scaled_1e%d" % ge)
    ext = case["ext"]
    r_tot = int(np.sum(ext))
    variant = case["variant"]
    metric = case.get("metric") if variant == "enhanced" else "whitening"
    mname = "None" if metric is None else str(metric)
    tags = _tags(case, variant=variant, metric=mname, ext_cols=r_tot,
                 num_streams=case.get("num_streams"))
    _size_labels(ctx, case)
    ctx.label("ext:" + variant, "metric=" + mname + ("(obj)" if metric is None
                                                     else ""),
              "ext_cols=%d" % r_tot,
              "ext_sources=%d" % (1 if isinstance(ext, int) else len(ext)))

    Hs = _build_H(case["chan"], n)
    He = _randc(np.random.RandomState(case["ext_seed"]), n, r_tot)
    big = np.hstack([Hs, He])
    mu = multiuser.MultiUserChannelMatrixExtInt()
    Nr = np.ones(K, dtype=int) * N
    Nt = np.ones(K, dtype=int) * N
    mu.init_from_channel_matrix(big.copy(), Nr, Nt, K,
                                ext if isinstance(ext, int) else list(ext))
    mu.noise_var = noise

    reassigned = case["chan"]["seed"] % 3 == 0
    a, b, c = (7.0 * iPu, 3.0 * noise, 0.5 * pe) if reassigned \
        else (iPu, noise, pe)
    if variant == "whitening":
        obj = bdm.WhiteningBD(K, a, b, c)
    else:
        obj = bdm.EnhancedBD(K, a, b, c)
    late = reassigned and bool(case.get("reuse")) and \
        case["chan"]["seed"] % 2 == 0
    if reassigned and not late:
        # a power / noise sweep on one object: public attributes assigned
        ctx.label("attributes_reassigned")
        obj.iPu = iPu
        obj.noise_var = noise
        obj.pe = pe
    ext_arg = ext if isinstance(ext, int) else list(ext)
    warmed = []

    def warm_run(salt, ns_cap=None):
        """the SAME BD object and channel object serve another realisation
        (optionally with another antenna count per user)"""
        Nw = N
        wn = case.get("warm_N")
        if wn == "plus":
            Nw = N + 1
        elif wn == "minus" and N >= 2 and (ns_cap is None or ns_cap < N):
            Nw = N - 1
        if Nw != N:
            ctx.label("reuse:other_antenna_count_before")
        Nrw = np.ones(K, dtype=int) * Nw
        if case["reuse"] == "randomize":
            mu.randomize(Nrw, Nrw.copy(), K, ext_arg)
        else:
            warm = _randc(np.random.RandomState(case["ext_seed"] + 1 + salt),
                          K * Nw, K * Nw + r_tot)
            mu.init_from_channel_matrix(warm, Nrw, Nrw.copy(), K, ext_arg)
        with np.errstate(all="ignore"):
            obj.block_diagonalize_no_waterfilling(mu)
        warmed.append(Nw)

    if variant != "whitening":
        prev = case.get("prev_metric")
        if prev is not None:
            # the object was configured for another metric before (a sweep
            # over metrics on one object): only the last setting counts
            ctx.label("metric_reconfigured_from:" + prev)
            if prev in ("naive", "fixed"):
                obj.set_ext_int_handling_metric(prev, {"num_streams": 1})
            elif prev == "effective_throughput":
                obj.set_ext_int_handling_metric(
                    prev, {"modulator": _modulator(["QPSK", 4]),
                           "packet_length": 60})
            else:
                obj.set_ext_int_handling_metric(prev)
            if case.get("reuse") and case.get("cfg_between"):
                # run - configure - run on one object (a sweep over metrics
                # or stream counts)
                ctx.label("metric_configured_between_runs")
                warm_run(7, ns_cap=1 if prev in ("naive", "fixed") else None)
        if metric in ("naive", "fixed"):
            cfg_dict = {"num_streams": int(case["num_streams"])}
            if case["chan"]["seed"] % 5 == 1:
                # a stream count taken from an integer array
                cfg_dict["num_streams"] = np.int64(case["num_streams"])
                ctx.label("num_streams_numpy_int")
            if case.get("union_dict"):
                # one settings dictionary for a sweep over the metrics
                cfg_dict.update(modulator=_modulator(["QPSK", 4]),
                                packet_length=60)
                ctx.label("settings_dict_with_extra_keys")
            obj.set_ext_int_handling_metric(metric, cfg_dict)
            if case.get("cfg_dict_reused"):
                # the caller prepares the same dictionary for its next
                # object (a loop over stream counts); this object keeps the
                # count it was configured with
                ctx.label("config_dict_reused")
                cfg_dict["num_streams"] = int(case["cfg_dict_reused"])
        elif metric == "effective_throughput":
            et_dict = {"modulator": _modulator(case["mod"]),
                       "packet_length": int(case["packet_length"])}
            if case.get("union_dict"):
                et_dict["num_streams"] = 1
                ctx.label("settings_dict_with_extra_keys")
            obj.set_ext_int_handling_metric(metric, et_dict)
            ctx.label("mod=%s%d" % tuple(case["mod"]))
        elif metric is None and prev is None and case.get("unconfigured"):
            # a default-constructed object: no metric was ever set
            ctx.label("metric_never_configured")
        elif case.get("union_dict"):
            # documented: the dictionary is ignored by the other metrics
            ctx.label("settings_dict_with_extra_keys")
            obj.set_ext_int_handling_metric(
                metric, {"num_streams": 1, "packet_length": 60,
                         "modulator": _modulator(["QPSK", 4])})
        else:
            obj.set_ext_int_handling_metric(metric)
        if obj.metric_name != mname:
            raise Violation("metric_name", "metric_name is %r after "
                            "configuring %r" % (obj.metric_name, metric),
                            tags)
    if case.get("reuse"):
        # history: both objects already served another channel realisation;
        # the result for the CURRENT channel must not depend on that
        ctx.label("reuse:" + case["reuse"])
        if not warmed:
            warm_run(0, ns_cap=case.get("num_streams")
                     if metric in ("naive", "fixed") else None)
        mu.init_from_channel_matrix(big.copy(), Nr, Nt, K, ext_arg)
        if late:
            # ... and the sweep assigns the attributes between two runs
            ctx.label("attributes_reassigned_between_runs")
            obj.iPu = iPu
            obj.noise_var = noise
            obj.pe = pe
    with np.errstate(all="ignore"):
        Ms_all, W_all, Ns_all = obj.block_diagonalize_no_waterfilling(mu)

    if len(Ms_all) != K or len(W_all) != K or len(Ns_all) != K:
        raise Violation("ext_shape", "lengths %d %d %d for K=%d" %
                        (len(Ms_all), len(W_all), len(Ns_all), K), tags)
    nH = _norm2(Hs)
    sq = np.sqrt(iPu)

    # interference-plus-noise covariance per user, from first principles
    R = [pe * He[k * N:(k + 1) * N] @ He[k * N:(k + 1) * N].conj().T +
         noise * np.eye(N) for k in range(K)]
    wfac = 1.0
    if variant == "whitening":
        # the precoder is computed on the whitened channel: the rounding
        # error of the null space is amplified by cond(whitening filter)
        wfac = max(float(np.sqrt(np.linalg.cond(Rk))) for Rk in R)
        Wh = obj.calc_whitening_matrices(mu)
        dev = max(float(np.max(np.abs(Wh[k] @ R[k] @ Wh[k].conj().T -
                                      np.eye(N)))) for k in range(K))
        ctx.label("whitening_filter_whitens" if dev < 1e-6
                  else "whitening_filter_not_white(C20)")

    Ns = []
    reduced = False
    for k in range(K):
        Mk = np.asarray(Ms_all[k])
        Wk = np.asarray(W_all[k])
        nsk = int(Ns_all[k])
        Ns.append(nsk)
        tk = dict(tags, user=k)
        # stream counts match the precoders (and the filters)
        if (Mk.ndim != 2 or Wk.ndim != 2 or Mk.shape[0] != n or
                Wk.shape[1] != N or not 1 <= nsk <= N or
                Mk.shape[1] != nsk or Wk.shape[0] != nsk or
                nsk != Ns_all[k] or
                # documented: "1D numpy array of ints" (callers size and
                # slice arrays with the counts)
                not isinstance(Ns_all[k], (int, np.integer))):
            raise Violation("ext_stream_counts",
                            "user %d: Ns=%r precoder %r filter %r (N=%d)" %
                            (k, Ns_all[k], Mk.shape, Wk.shape, N), tk)
        if metric in ("naive", "fixed") and nsk != case["num_streams"]:
            raise Violation("ext_requested_streams",
                            "user %d transmits %d streams, %d requested" %
                            (k, nsk, case["num_streams"]), tk)
        if metric in ("whitening", None, "None") and nsk != N:
            raise Violation("ext_requested_streams",
                            "user %d transmits %d streams without stream "
                            "reduction (N=%d)" % (k, nsk, N), tk)
        if nsk < N:
            reduced = True
        # every user gets exactly its power
        ctx.close("ext_power", abs(float(np.linalg.norm(Mk)) ** 2 / iPu - 1.0),
                  1e-10, "user %d: ||Ms_k||^2=%r iPu=%r" %
                  (k, float(np.linalg.norm(Mk)) ** 2, iPu), tk)
        # inter-user interference stays null
        for j in range(K):
            if j != k:
                Hj = Hs[j * N:(j + 1) * N]
                ctx.close("ext_interuser_null",
                          float(np.linalg.norm(Hj @ Mk)) / (nH * sq * wfac),
                          1e-10, "precoder of user %d seen by user %d" %
                          (k, j), tk)
        # receive filter inverts the effective channel of the user
        Hk = Hs[k * N:(k + 1) * N]
        A = Hk @ Mk
        # backward-error scale of "W_k is a left inverse of H_k Ms_k":
        # the product H_k Ms_k itself is only known to eps*||H_k||*||Ms_k||
        cnd = max(1.0, _norm2(Wk) * _norm2(Hk) * _norm2(Mk))
        if not np.isfinite(cnd):
            raise Violation("ext_rx_inverts", "receive filter of user %d is "
                            "not finite" % k, tk)
        if cnd * wfac > 1e7:
            ctx.label("rx_illcond_excluded")
        else:
            # (WhiteningBD inverts the whitened channel: wfac as above)
            err = float(np.max(np.abs(Wk @ A - np.eye(nsk))))
            ctx.close("ext_rx_inverts", err / (cnd * wfac), 1e-10,
                      "user %d: max|W_k H_k Ms_k - I| = %.3e, "
                      "||W_k||*||H_k||*||Ms_k|| = %.3e, whitening factor "
                      "%.3e" %
                      (k, err, cnd, wfac), tk)
        # interference-aware stream reduction removes the external
        # interference when enough streams are sacrificed
        Hek = He[k * N:(k + 1) * N]
        rk = min(N, r_tot)
        aware = metric in ("fixed", "capacity", "effective_throughput")
        if aware and nsk < N and nsk <= N - rk:
            sv = np.linalg.svd(Hek, compute_uv=False)
            lam_max = noise + pe * float(sv[0]) ** 2
            gap = pe * float(sv[rk - 1]) ** 2
            c = lam_max / gap
            if c > 1e5:
                ctx.label("ext_null_illcond_excluded")
            else:
                ctx.label("ext_null_checked")
                ctx.nontrivial(True)
                leak = _norm2(Wk @ Hek) / (_norm2(Wk) * _norm2(Hek))
                ctx.close("ext_null", leak / c, 1e-10,
                          "user %d: ||W_k H_ext||/(||W_k|| ||H_ext||) = %.3e "
                          "with %d of %d streams, ext rank %d, "
                          "lambda_max/gap = %.3e" % (k, leak, nsk, N, rk, c),
                          tk)
    ctx.label("streams_reduced" if reduced else "streams_full")
    if metric in ("capacity", "effective_throughput"):
        ctx.label("auto:%s" % ("reduced" if reduced else "full"))
        if len(set(Ns)) > 1:
            ctx.label("auto:users_differ")
    ctx.nontrivial(reduced)


def check(case, ctx):
    kind = case.get("kind", case["part"])
    if kind == "bd":
        _check_bd(case, ctx)
    elif kind == "extint":
        _check_extint(case, ctx)
    else:
        raise ValueError("unknown case kind %r" % (kind,))


# ----------------------------------------------------------------------------
# every direct library call made by this check must leave the arrays handed
# to it unchanged (core.GuardedCalls)
# ----------------------------------------------------------------------------
def _guard_targets():
    from pyphysim.channels import multiuser
    from pyphysim.comm import blockdiagonalization as bdm
    t = [(bdm, n) for n in ("block_diagonalize", "calc_receive_filter")]
    for name in ("BlockDiagonalizer", "BDWithExtIntBase", "WhiteningBD",
                 "EnhancedBD"):
        cls = getattr(bdm, name, None)
        if cls is not None:
            t += [(cls, n) for n in ("block_diagonalize",
                                     "block_diagonalize_no_waterfilling",
                                     "calc_receive_filter")]
    t += [(multiuser.MultiUserChannelMatrix, "init_from_channel_matrix"),
          (multiuser.MultiUserChannelMatrixExtInt,
           "init_from_channel_matrix")]
    return t


_unguarded_check = check


def check(case, ctx):  # noqa: F811
    from ..core import GuardedCalls
    with GuardedCalls(_guard_targets(), dict(part=case.get("part"))):
        return _unguarded_check(case, ctx)
