"""C16 - theoretical error-rate curves are consistent with the emitted
constellation (SER/BER/PER/spectral efficiency of BPSK, QPSK, PSK, QAM)."""
import math

import numpy as np
from hypothesis import strategies as st

from ..core import Part, Violation
from ..gens import fl
from .c01_modulation import _all_cfgs, _build, _cfg_st, _tags

PROPERTY = "C16"
LEVEL = "exploration"
RULE = ("every modulator order (BPSK, QPSK, PSK 2..2^12 "
        "with and without phase offset, QAM 4..4^6) is enumerated on the "
        "complete grid -30..60 dB (step 0.25 dB) plus the 100/200/300 dB "
        "limit; generated cases draw the modulator, 1..32 SNR values in "
        "[-30,60] dB (uniform, aimed at a drawn Q-function argument, or a "
        "grid with steps 1e-12..5 dB), the call form (python/numpy scalar, "
        "1-D/2-D float array, int array) and a packet length 1..10^4 "
        "[10^6 thorough]; non-trivial = M >= 4 and at least one SNR with "
        "SER in (1e-12, 0.5); distinct = SHA-1 of the case description")
RULE += (" Added after the white-box review: "
         "on every generated object also: a returned array overwritten "
         "by the caller and asked again, a second packet length for "
         "the same SNR (array and scalar) ")

LEVEL_TEXT = ("Generated-input search (Hypothesis, seeded, sharded) plus "
              "complete enumeration of all modulator orders on a fixed SNR "
              "grid: range, monotonicity, limit, BER/SER ordering, PER and "
              "spectral-efficiency composition (independent expm1/log1p "
              "evaluation) and SER recomputed from the geometry (Es, d_min, "
              "neighbour count) of the emitted constellation; PSK bound "
              "bracketed by the exact AWGN integral. Absence of violations "
              "is not proven.")
LEVEL_NOTE = ("float64; SER of QAM and all PER/SE values are judged with an "
              "absolute floor (1e-13, resp. 1e-13*L) because 1-(1-x)^n "
              "cancels below 1e-16; PSK exact SER by scipy.integrate.quad "
              "(epsrel 1e-11)")
TECHNIQUE = ("property-based testing (Hypothesis): reference-model oracle "
             "from the emitted constellation + algebraic relations")
ASSUMPTIONS = [
    "Q(x) reference = 0.5*math.erfc(x/sqrt(2)) (C library), independent of "
    "the scipy erfc used by the code under test",
    "SER equality: the library value must lie within the values obtained "
    "from d_min*(1 +- 1e-9) (d_min is measured from float64 points, and in "
    "the tail SER is x^2 times more sensitive than its argument), plus "
    "1e-11 relative, plus a floor of 1e-290 for BPSK/PSK (full relative "
    "accuracy expected) and 1e-13 for QAM (the library evaluates "
    "1-(1-Psc)^2, which cancels below 1e-16)",
    "PER/SE equality: absolute tolerance 1e-13*L (L = packet length; "
    "(1-BER)^L amplifies the rounding of 1-BER L times)",
    "ordering relations (monotonicity, BER<=SER<=k*BER, PSK bracket) carry "
    "a slack of 1e-13 absolute (x L for PER, x L*log2(M) for SE; 1e-15 for "
    "the [0,1] range) + 1e-9 relative",
    "SNR is Es/N0 relative to the nominal unit mean symbol energy (N0 = "
    "1/snr, the noise variance every simulator of the library uses), so a "
    "rescaled constellation changes the implied SER",
    "SNR inputs: python int/float, numpy float64 scalar, float64 arrays of "
    "1 or 2 dimensions, int64 arrays; packet length is a python int >= 1",
    "the two-nearest-neighbour PSK bound is 2Q(d_min/sqrt(2 N0)) also for "
    "M = 2 (where it equals twice the exact error rate)",
]

ABS_ORD = 1e-13
REL_ORD = 1e-9
ARG_REL = 1e-9
SQRT2 = math.sqrt(2.0)


# ----------------------------------------------------------------------------
# strategies
# ----------------------------------------------------------------------------
def _x_to_db(cfg, x):
    """SNR (dB) at which the Q-function argument of the SER formula is x
    (generator heuristic only: aims the draw at the interesting region)."""
    M = cfg["M"]
    if cfg["cls"] == "QAM":
        snr = x * x * (M - 1) / 3.0
    else:
        snr = x * x / (2.0 * math.sin(math.pi / M) ** 2)
    return min(60.0, max(-30.0, 10.0 * math.log10(snr)))


@st.composite
def _curves_st(draw, tier):
    cfg = draw(_cfg_st(tier))
    if cfg["cls"] in ("PSK", "QAM") and cfg.get("set_phi") is None and \
            draw(st.integers(0, 5)) == 0:
        # the modulator object was created for ANOTHER order and given this
        # constellation through the public setConstellation
        cfg = dict(cfg, reinit_from=draw(st.sampled_from(
            [4, 16, 64, 256] if cfg["cls"] == "QAM" else [2, 4, 8, 16, 64])))
    mode = draw(st.sampled_from(["list", "aimed", "aimed", "grid"]))
    if mode == "list":
        snr = dict(mode="list", values=draw(st.lists(
            fl(-30.0, 60.0), min_size=1, max_size=32)))
    elif mode == "aimed":
        xs = draw(st.lists(fl(0.05, 38.0), min_size=1, max_size=16))
        snr = dict(mode="list", values=[_x_to_db(cfg, x) for x in xs])
    else:
        start = draw(st.one_of(fl(-30.0, 60.0),
                               fl(0.3, 8.0).map(lambda x: _x_to_db(cfg, x))))
        snr = dict(mode="grid", start=start,
                   step=draw(st.sampled_from(
                       [1e-12, 1e-9, 1e-6, 1e-3, 0.1, 1.0, 5.0])),
                   n=draw(st.integers(2, 48)))
    lmax = 10 ** 4 if tier == "quick" else 10 ** 6
    L = draw(st.one_of(st.integers(1, 200), st.integers(1, lmax),
                       st.sampled_from([1, 2, 50, 120, 1000, lmax, 10001,
                                        12000, 65536, 10 ** 6])))
    form = draw(st.sampled_from(["array1d", "array1d", "array2d", "pyfloat",
                                 "npfloat", "intarray", "pyint"]))
    return dict(part="curves", cfg=cfg, snr=snr, L=L, form=form,
                exact=draw(st.booleans()))


def _enum_grid(tier):
    cases = []
    # (all orders of the thorough tier: the grid costs milliseconds)
    for cfg in _all_cfgs("thorough"):
        cfgs = [cfg]
        if cfg["cls"] == "PSK":
            cfgs.append(dict(cfg, phi=math.pi / cfg["M"]))
            cfgs.append(dict(cfg, set_phi=0.3))
        for c in cfgs:
            cases.append(dict(part="grid", cfg=c, L=120))
    return cases


PARTS = [
    Part("grid", enumerate=_enum_grid, exhaustive=True, quick_shards=8),
    Part("curves", _curves_st, quick=4000, thorough=200000, quick_shards=8),
]


# ----------------------------------------------------------------------------
# oracles
# ----------------------------------------------------------------------------
def _Q(x):
    return 0.5 * math.erfc(x / SQRT2)


def _geometry(mod):
    """Es, d_min and the mean number of nearest neighbours of the emitted
    constellation (k-d tree, independent of the library)."""
    from scipy.spatial import cKDTree
    # what the modulator EMITS for every label (not the table it keeps)
    c = np.asarray(mod.modulate(np.arange(int(mod.M)))).astype(
        complex).ravel()
    pts = np.column_stack([c.real, c.imag])
    tree = cKDTree(pts)
    d, _ = tree.query(pts, k=2)
    dmin = float(d[:, 1].min())
    pairs = tree.query_pairs(dmin * (1 + 1e-9), output_type="ndarray")
    nbar = 2.0 * len(pairs) / c.size
    es = math.fsum(float(z.real) ** 2 + float(z.imag) ** 2 for z in c) / \
        c.size
    return es, dmin, nbar


def _ser_from_geometry(cls, es, dmin, nbar, snr_lin):
    # SNR is Es/N0 for the NOMINAL unit symbol energy (what C01 establishes
    # and what every simulator of the library assumes when it draws noise of
    # variance 1/snr): N0 = 1/snr, so a rescaled constellation changes the
    # implied error rate.  ``es`` (measured) is only used for labels.
    n0 = 1.0 / snr_lin
    q = _Q(dmin / math.sqrt(2.0 * n0))
    if cls == "BPSK":
        return q
    if cls == "QAM":
        # per-dimension error probability (nbar/2) Q, two independent
        # dimensions
        psc = 0.5 * nbar * q
        return psc * (2.0 - psc)
    return 2.0 * q


def _psk_exact(M, es, dmin, snr_lin):
    """exact AWGN symbol error rate of M-PSK (Craig form), in terms of the
    measured d_min: snr*sin^2(pi/M) = d_min^2/(4 N0), N0 = 1/snr"""
    from scipy.integrate import quad
    a = dmin * dmin * snr_lin / 4.0
    hi = math.pi - math.pi / M

    def f(t):
        s = math.sin(t)
        return math.exp(-a / (s * s)) if s != 0.0 else 0.0
    pts = [math.pi / 2] if hi > math.pi / 2 else None
    val, _ = quad(f, 0.0, hi, epsabs=0.0, epsrel=1e-11, limit=400,
                  points=pts)
    return val / math.pi


def _snr_values(case):
    s = case["snr"]
    if s["mode"] == "list":
        v = sorted(float(x) for x in s["values"])
    elif s["mode"] == "grid":
        v = [s["start"] + i * s["step"] for i in range(s["n"])]
        v = sorted(set(x for x in v if x <= 60.0)) or [60.0]
    else:
        raise AssertionError(s["mode"])
    return v


def _call(fn, values, form, *extra):
    """call fn(SNR, *extra) in the requested form; -> (flat results in the
    order of ``values``, the SNR values really used)"""
    if form in ("intarray", "pyint"):
        values = sorted(set(int(round(x)) for x in values))
    if form in ("pyfloat", "npfloat", "pyint"):
        values = values[:8]
        out = []
        for x in values:
            arg = np.float64(x) if form == "npfloat" else x
            r = fn(arg, *extra)
            if np.shape(r) != ():
                raise Violation("result_shape", "scalar SNR gave a result "
                                "of shape %r" % (np.shape(r),), {})
            out.append(float(r))
        return np.array(out), [float(x) for x in values]
    if form == "intarray":
        arg = np.array(values, dtype=np.int64)
    elif form == "array2d":
        n = len(values)
        a = max(k for k in range(1, int(math.sqrt(n)) + 1) if n % k == 0)
        arg = np.array(values, dtype=float).reshape(a, n // a)
    else:
        arg = np.array(values, dtype=float)
    r = fn(arg, *extra)
    if np.shape(r) != arg.shape:
        raise Violation("result_shape", "SNR of shape %r gave a result of "
                        "shape %r" % (arg.shape, np.shape(r)), {})
    return np.asarray(r, dtype=float).reshape(-1), [float(x) for x in values]


def _le(ctx, name, a, b, detail, tags, scale=1.0):
    """assert a <= b up to the ordering slack (elementwise)"""
    a = np.asarray(a, dtype=float)
    b = np.asarray(b, dtype=float)
    if np.any(np.isnan(a)) or np.any(np.isnan(b)):
        raise Violation(name, "nan value " + detail, tags)
    tol = scale * ABS_ORD + REL_ORD * np.maximum(np.abs(a), np.abs(b))
    excess = a - b
    k = int(np.argmax(excess - tol))
    ctx.err(name, max(float(excess[k]), 0.0), float(tol[k]))
    if excess[k] > tol[k]:
        raise Violation(name, "%s: %.17g > %.17g at position %d" %
                        (detail, a[k], b[k], k), tags)


def _eq(ctx, name, got, ref, tol, detail, tags):
    got = np.asarray(got, dtype=float)
    ref = np.asarray(ref, dtype=float)
    tol = np.broadcast_to(np.asarray(tol, dtype=float), got.shape)
    err = np.abs(got - ref)
    err = np.where(np.isnan(err), np.inf, err)
    k = int(np.argmax(err / tol))
    ctx.err(name, float(err[k]), float(tol[k]))
    if not (err[k] <= tol[k]):
        raise Violation(name, "%s: got %.17g expected %.17g (|diff| %.3e > "
                        "tol %.3e) at position %d" %
                        (detail, got[k], ref[k], err[k], tol[k], k), tags)


def _check_curves(mod, cfg, values, form, L, ctx, do_exact, tags):
    M = cfg["M"]
    k = int(round(math.log2(M)))
    cls = cfg["cls"]

    ser, used = _call(mod.calcTheoreticalSER, values, form)
    ber, _ = _call(mod.calcTheoreticalBER, values, form)
    per, _ = _call(mod.calcTheoreticalPER, values, form, L)
    se, _ = _call(mod.calcTheoreticalSpectralEfficiency, values, form, L)
    se0, _ = _call(mod.calcTheoreticalSpectralEfficiency, values, form)
    snr_lin = np.array([10.0 ** (x / 10.0) for x in used])
    n = len(used)
    where = "%s M=%d SNR(dB)=%s..%s" % (cls, M, used[0], used[-1])

    # 1. probabilities
    for name, v in (("SER", ser), ("BER", ber), ("PER", per)):
        t = dict(tags, which=name)
        _le(ctx, "range_low", np.zeros(n), v, "%s < 0 (%s)" % (name, where),
            t, scale=0.01)
        _le(ctx, "range_high", v, np.ones(n), "%s > 1 (%s)" % (name, where),
            t, scale=0.01)
    # 2. never increase with SNR (values are sorted ascending)
    if n >= 2:
        for name, v, sc in (("SER", ser, 1.0), ("BER", ber, 1.0),
                            ("PER", per, float(L))):
            _le(ctx, "monotone", v[1:], v[:-1], "%s increases with SNR (%s)"
                % (name, where), dict(tags, which=name), scale=sc)
        _le(ctx, "monotone", se[:-1], se[1:], "spectral efficiency "
            "decreases with SNR (%s)" % where, dict(tags, which="SE"),
            scale=float(L) * k)
    # 3. BER <= SER <= k*BER
    _le(ctx, "ber_le_ser", ber, ser, "BER > SER (%s)" % where, tags)
    _le(ctx, "ser_le_k_ber", ser, k * ber, "SER > log2(M)*BER (%s)" % where,
        tags)
    # 4. PER and spectral efficiency (independent evaluation)
    per_ref = -np.expm1(L * np.log1p(-np.minimum(ber, 1.0)))
    tol_per = 1e-13 * L
    _eq(ctx, "per_formula", per, per_ref, tol_per,
        "PER != 1-(1-BER)^L, L=%d (%s)" % (L, where), dict(tags, L=L))
    _eq(ctx, "se_formula", se, k * (1.0 - per_ref), k * tol_per,
        "SE != log2(M)(1-PER), L=%d (%s)" % (L, where), dict(tags, L=L))
    _eq(ctx, "se_formula_no_length", se0, k * (1.0 - ber), k * 1e-13,
        "SE(no packet length) != log2(M)(1-BER) (%s)" % where, tags)
    # 5. SER from the geometry of the emitted constellation
    es, dmin, nbar = _geometry(mod)
    # the formulas count a fixed neighbour structure: 1 nearest neighbour
    # for two points, 2 for every PSK point, 4(1-1/sqrt(M)) on average on a
    # square lattice -- the EMITTED constellation must have it
    want = 1.0 if M == 2 else (2.0 if cls in ("PSK", "QPSK") else
                               4.0 * (1.0 - 1.0 / math.sqrt(M)))
    ctx.err("neighbour_structure", abs(nbar - want), 1e-9)
    if abs(nbar - want) > 1e-9:
        raise Violation("neighbour_structure", "the emitted constellation "
                        "has on average %.6g nearest neighbours at d_min="
                        "%.6g, the error rate formula of %s(M=%d) assumes "
                        "%.6g" % (nbar, dmin, cls, M, want), tags)
    ref = np.array([_ser_from_geometry(cls, es, dmin, nbar, s)
                    for s in snr_lin])
    # tolerance: 1e-9 relative on the Q-function ARGUMENT (d_min measured
    # from float64 points carries eps/d_min; in the tail the value is
    # x^2 times more sensitive than the argument) + 1e-11 relative on the
    # value (erfc implementations) + absolute floor
    lo = np.array([_ser_from_geometry(cls, es, dmin * (1 + ARG_REL), nbar, s)
                   for s in snr_lin])
    hi = np.array([_ser_from_geometry(cls, es, dmin * (1 - ARG_REL), nbar, s)
                   for s in snr_lin])
    floor = 1e-13 if cls == "QAM" else 1e-290
    _eq(ctx, "ser_vs_geometry", ser, ref,
        np.maximum(hi - ref, ref - lo) + 1e-11 * ref + floor,
        "SER differs from the value implied by Es=%.6g d_min=%.6g "
        "neighbours=%.4g (%s)" % (es, dmin, nbar, where), tags)
    # 6. PSK: exact <= bound <= 2 exact
    if cls in ("PSK", "QPSK") and do_exact:
        sel = list(range(n))[:6]
        ex = np.array([_psk_exact(M, es, dmin, snr_lin[i]) for i in sel])
        _le(ctx, "psk_exact_le_bound", ex, ser[sel], "exact PSK SER above "
            "the bound (%s)" % where, tags)
        _le(ctx, "psk_bound_le_2exact", ser[sel], 2.0 * ex, "PSK bound "
            "above twice the exact SER (%s)" % where, tags)
        ctx.label("psk_exact_checked")
    return ser, used


def _labels(cfg, ser, ctx, prefix):
    M = cfg["M"]
    ctx.label("%s:%s" % (prefix, cfg["cls"]),
              "M<=16" if M <= 16 else ("M<=256" if M <= 256 else "M>256"))
    mid = (ser > 1e-12) & (ser < 0.5)
    if mid.any():
        ctx.label("ser_in(1e-12,0.5)")
    if (ser <= 1e-12).any():
        ctx.label("ser<=1e-12")
    if (ser >= 0.5).any():
        ctx.label("ser>=0.5")
    if ((ser > 0) & (ser < 1e-100)).any():
        ctx.label("ser_deep_tail<1e-100")
    ctx.nontrivial(M >= 4 and bool(mid.any()))


def _part_grid(case, ctx):
    cfg = case["cfg"]
    mod = _build(cfg)
    tags = _tags(cfg, form="array1d")
    values = [-30.0 + 0.25 * i for i in range(361)]
    ser, _ = _check_curves(mod, cfg, values, "array1d", case["L"], ctx,
                           False, tags)
    _labels(cfg, ser, ctx, "grid")
    # PSK bracket on a coarse grid
    if cfg["cls"] in ("PSK", "QPSK"):
        es, dmin, nbar = _geometry(mod)
        coarse = list(range(0, 361, 20))
        ex = np.array([_psk_exact(cfg["M"], es, dmin,
                                  10.0 ** (values[i] / 10.0))
                       for i in coarse])
        _le(ctx, "psk_exact_le_bound", ex, ser[coarse],
            "exact PSK SER above the bound (grid)", tags)
        _le(ctx, "psk_bound_le_2exact", ser[coarse], 2.0 * ex,
            "PSK bound above twice the exact SER (grid)", tags)
    # limit: the rates vanish as the SNR grows
    for form in ("array1d", "pyfloat"):
        t = dict(tags, form=form)
        lim = [100.0, 200.0, 300.0]
        for name, fn, extra in (
                ("SER", mod.calcTheoreticalSER, ()),
                ("BER", mod.calcTheoreticalBER, ()),
                ("PER", mod.calcTheoreticalPER, (case["L"],))):
            v, _ = _call(fn, lim, form, *extra)
            _eq(ctx, "limit_zero", v[1:], np.zeros(2), 1e-15,
                "%s does not vanish at 200/300 dB" % name,
                dict(t, which=name))
        v, _ = _call(mod.calcTheoreticalSpectralEfficiency, lim, form,
                     case["L"])
        kk = int(round(math.log2(cfg["M"])))
        _eq(ctx, "limit_se", v[1:], kk * np.ones(2), 1e-13,
            "spectral efficiency does not reach log2(M) at 200/300 dB", t)


def _part_curves(case, ctx):
    cfg = case["cfg"]
    mod = _build(cfg)
    form = case["form"]
    tags = _tags(cfg, form=form)
    values = _snr_values(case)
    ser, used = _check_curves(mod, cfg, values, form, case["L"], ctx,
                              case["exact"], tags)
    _labels(cfg, ser, ctx, "curves")
    ctx.label("form:" + form, "snr:" + case["snr"]["mode"],
              "L=1" if case["L"] == 1 else
              ("L<=200" if case["L"] <= 200 else "L>200"))
    if case["snr"]["mode"] == "grid" and case["snr"]["step"] <= 1e-6:
        ctx.label("snr:fine_grid")
    if cfg.get("set_phi") is not None:
        ctx.label("via_setPhaseOffset")
    if form in ("array1d", "array2d") and len(used) >= 1:
        _buffer_reuse(mod, cfg, used, case["L"], ctx, tags)
        _stateless_history(mod, cfg, used, case["L"], ctx, tags,
                           case["L"] * 7919 + len(used))
    # scalar and array calls agree
    if form in ("array1d", "array2d") and len(used) >= 1:
        i = len(used) // 2
        s = float(mod.calcTheoreticalSER(used[i]))
        _eq(ctx, "scalar_vs_array", [s], [ser[i]],
            [REL_ORD * abs(ser[i]) +
             (1e-13 if cfg["cls"] == "QAM" else 1e-290)],
            "SER(scalar) != SER(array)[i]", tags)


def _stateless_history(mod, cfg, used, L, ctx, tags, seed):
    """The five theoretical quantities are functions of their arguments:
    whatever was asked before on the same modulator, in whatever order, with
    the same SNR array object updated in place or not, and whatever the
    caller did to arrays it got back - every answer equals the one of a
    modulator that has never been asked anything."""
    rs = np.random.RandomState(int(seed) % (2 ** 31 - 1))
    names = ["calcTheoreticalSER", "calcTheoreticalBER", "calcTheoreticalPER",
             "calcTheoreticalSpectralEfficiency",
             "calcTheoreticalSpectralEfficiency"]
    extras = [(), (), (L,), (L,), ()]
    buf = np.array(used, dtype=float)
    prev = None
    for step in range(7):
        k = int(rs.randint(5))
        act = int(rs.randint(4))
        if act == 1:
            buf += float(rs.choice([3.0, -7.5, 0.25]))
            np.clip(buf, -30.0, 60.0, out=buf)
        elif act == 2 and prev is not None and prev.flags.writeable:
            prev *= 100.0                     # the caller re-scales a result
        arg = buf.copy() if act == 3 else buf
        got = np.asarray(getattr(mod, names[k])(arg, *extras[k]))
        ref = np.asarray(getattr(_build(cfg), names[k])(buf.copy(),
                                                        *extras[k]),
                         dtype=float)
        if got.shape != ref.shape or not np.allclose(
                np.asarray(got, dtype=float), ref, rtol=1e-12, atol=0.0):
            raise Violation("stateful_answer", "step %d: %s%r on a used "
                            "modulator differs from a modulator that was "
                            "never asked anything (previous action %d)" %
                            (step, names[k], extras[k], act), tags)
        prev = got if isinstance(got, np.ndarray) and got.ndim else None
    ctx.label("stateless_history_checked")


def _buffer_reuse(mod, cfg, used, L, ctx, tags):
    """The user keeps ONE SNR buffer, updates it in place between queries on
    the same modulator (snr += step).  Every query must answer for the values
    the buffer holds at that moment: compared with a fresh modulator on a
    fresh array."""
    buf = np.array(used, dtype=float)
    fresh = _build(cfg)
    for step in (0.0, 3.0, -7.5):
        buf += step
        now = buf.copy()
        for name, f_obj, f_new, extra in (
                ("SER", mod.calcTheoreticalSER, fresh.calcTheoreticalSER, ()),
                ("BER", mod.calcTheoreticalBER, fresh.calcTheoreticalBER, ()),
                ("PER", mod.calcTheoreticalPER, fresh.calcTheoreticalPER,
                 (L,)),
                ("SE", mod.calcTheoreticalSpectralEfficiency,
                 fresh.calcTheoreticalSpectralEfficiency, (L,))):
            got = np.asarray(f_obj(buf, *extra), dtype=float)
            ref = np.asarray(f_new(now.copy(), *extra), dtype=float)
            if got.shape != ref.shape or not np.allclose(got, ref, rtol=1e-12,
                                                         atol=0.0):
                raise Violation("buffer_reuse", "%s of an SNR buffer that was "
                                "updated in place (step %+.1f dB) differs "
                                "from a fresh evaluation of the same values" %
                                (name, step), tags)
        if not np.array_equal(buf, now):
            raise Violation("snr_array_modified", "a calcTheoretical* call "
                            "changed the SNR array handed to it", tags)
    ctx.label("buffer_reuse_checked")
    # the caller owns what was returned: clipping / scaling a returned array
    # in place (ser[ser < 1e-6] = 1e-6 for a log plot) changes no later
    # answer, and a second packet length on the same object and SNR is
    # answered for that length
    arg = np.array(used, dtype=float)
    L2 = L + 37 if L < 5000 else max(1, L // 3)
    for name, f_obj, f_new, extras in (
            ("SER", mod.calcTheoreticalSER, fresh.calcTheoreticalSER, [()]),
            ("BER", mod.calcTheoreticalBER, fresh.calcTheoreticalBER, [()]),
            ("PER", mod.calcTheoreticalPER, fresh.calcTheoreticalPER,
             [(L,), (L2,), (L,)]),
            ("SE", mod.calcTheoreticalSpectralEfficiency,
             fresh.calcTheoreticalSpectralEfficiency, [(L,), (L2,), (L,)])):
        for extra in extras:
            first = np.asarray(f_obj(arg.copy(), *extra))
            keep = np.array(first, dtype=float, copy=True)
            if first.flags.writeable:
                first[...] = np.nan          # the caller scribbles on it
            again = np.asarray(f_obj(arg.copy(), *extra), dtype=float)
            ref = np.asarray(f_new(arg.copy(), *extra), dtype=float)
            if again.shape != keep.shape or not np.array_equal(again, keep) \
                    or not np.allclose(again, ref, rtol=1e-12, atol=0.0):
                raise Violation("returned_array_shared", "%s%r: the answer "
                                "changed after the caller overwrote the "
                                "array returned before, or differs from a "
                                "fresh object" % (name, extra), tags)
            # scalar SNR, same object
            x0 = float(arg[len(arg) // 2])
            sc = float(f_obj(x0, *extra))
            # (reference: an object that has never been asked anything)
            rf = float(getattr(_build(cfg), f_new.__name__)(x0, *extra))
            if not (sc == rf or abs(sc - rf) <= 1e-12 * abs(rf)):
                raise Violation("scalar_after_other_length", "%s(%r%s) = %r "
                                "on the used object, %r on a fresh one" %
                                (name, x0, "".join(", %r" % e for e in extra),
                                 sc, rf), tags)
    ctx.label("returned_array_and_two_lengths_checked")
    # the SNR values need not be sorted (per-stream SINRs, a descending
    # sweep): every element is answered on its own
    if len(used) >= 2:
        order = list(range(len(used)))
        order = order[::-1] if len(used) % 2 else order[1::2] + order[0::2]
        asc = np.array(used, dtype=float)
        shuf = asc[order]
        for name, f_obj, extra in (
                ("SER", mod.calcTheoreticalSER, ()),
                ("BER", mod.calcTheoreticalBER, ()),
                ("PER", mod.calcTheoreticalPER, (L,)),
                ("SE", mod.calcTheoreticalSpectralEfficiency, (L,))):
            a = np.asarray(f_obj(asc.copy(), *extra), dtype=float)
            b = np.asarray(f_obj(shuf.copy(), *extra), dtype=float)
            if b.shape != a.shape or not np.array_equal(a[order], b):
                raise Violation("unsorted_snr", "%s of an unsorted SNR array "
                                "is not the element-wise %s (order %r)" %
                                (name, name, order[:8]), tags)
        ctx.label("unsorted_snr_checked")


def check(case, ctx):
    if case["part"] == "grid":
        return _part_grid(case, ctx)
    if case["part"] == "curves":
        return _part_curves(case, ctx)
    raise AssertionError("unknown part %r" % case["part"])
