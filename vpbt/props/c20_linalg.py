"""C20 - subspace and linear-algebra kernels satisfy their defining identities.

One Part per kernel family:

  proj       Projection, calcProjectionMatrix, calcOrthogonalProjectionMatrix
  chordal    calc_principal_angles / calc_chordal_distance /
             calc_chordal_distance_2 / calc_chordal_distance_from_principal_angles
  gmd        util.misc.gmd
  whiten     util.misc.calc_whitening_matrix
  invupd     util.misc.update_inv_sum_diag
  selectors  peig / leig / least_right_singular_vectors /
             get_principal_component_matrix
  conv       dB/linear/dBm and SNR/EbN0 conversions (generated)
  conv_grid  the same conversions on a complete integer grid (enumerated)

Matrices come from the condition-number-controlled generator of DESIGN.md
section 3: ``A = U diag(s) V^H`` with U, V seeded Haar (or identity /
permutation) factors and the singular values ``s`` drawn by Hypothesis, so that
repeated / nearly repeated singular values and the conditioning bound are
reached on purpose and a rank deficient input is never produced.
"""
import math

import numpy as np
from hypothesis import strategies as st

from ..core import Part, Violation
from ..gens import fl, seeds

PROPERTY = "C20"
LEVEL = "exploration"
RULE = ("matrices A = U diag(s) V^H, sizes 1..8 (real and complex), U/V seeded "
        "Haar, identity or permutation factors, singular values / eigenvalues "
        "drawn by Hypothesis inside [scale/kappa, scale] (kappa <= 1e3 quick; "
        "1e4 (projection, chordal) or 1e6 (others) thorough) with forced classes "
        "all-equal / clustered / nearly equal (1e-12..1e-6 relative) / at the "
        "conditioning bound; pairs of equal-dimension subspaces (independent, "
        "same subspace in another basis, perturbed by 1e-8..1e-1); Hermitian PD "
        "covariances incl. 'low rank + sigma^2 I' (whitening: also scaled by "
        "1e-30..1e30); diagonal updates d >= 0; "
        "positive reals over 30 decades, dB values in [-150,150], bits per "
        "symbol 1..12.  non-trivial = (largest dimension >= 3 and complex) or a "
        "repeated / nearly repeated singular value or eigenvalue (relative gap "
        "< 1e-4); for the conversions: value != 1 (0 dB) and, for Eb/N0, bits "
        "per symbol >= 2.  distinct = SHA-1 of the case description")
RULE += (" Added after the white-box review: "
         "absolute scale classes (1e-30..1e16) also for the inverse "
         "update, the selectors and gmd; diagonal updates down to "
         "1e-12; real and complex bases mixed in the chordal distances ")
RULE += (" Added after the second white-box review: whitening also of "
         "covariances that are Hermitian up to rounding only (triangles "
         "differ in the last bit) with tolerance 5e-13 kappa (was 1e-9 "
         "kappa); squared chordal distances compared to 2e-14 n + 1e-13 "
         "kappa^2 with kappa of the pair actually compared; more "
         "perturbations of size 1e-6.6..1e-5.5. ")

LEVEL_TEXT = ("Generated-input search (Hypothesis, seeded, sharded) over real "
              "and complex matrices with controlled singular values against "
              "the defining algebraic identities of each kernel (projector "
              "laws, agreement / symmetry / invariance of the three chordal "
              "distance routines, GMD reconstruction, W^H R W = I, true "
              "inverse, eigen / singular equations plus an independent "
              "eigvalsh / svd ordering oracle, round trips of the unit "
              "conversions); the integer conversion grid is enumerated "
              "completely.  Absence of violations is not proven.")
LEVEL_NOTE = ("float64; tolerances are relative to the operand norm and scaled "
              "by kappa (inverse update, whitening), kappa^2 (normal-equation "
              "projector A (A^H A)^-1 A^H, chordal distances) or kappa (gmd); "
              "principal-angle route compared on squared distances (1e-12, "
              "i.e. d < 1e-6 near zero)")
TECHNIQUE = ("property-based testing (Hypothesis): algebraic-identity, "
             "metamorphic (symmetry, change of basis, unitary rotation, round "
             "trip) and reference (eigvalsh / svd / inv) oracles")
ASSUMPTIONS = [
    "condition numbers are bounded (1e3 quick, 1e4/1e6 thorough); errors are "
    "judged relative to kappa (kappa^2 for the normal-equation projector)",
    "chordal distances: the two projector-difference routines are compared "
    "at 1e-12 + 1e-13*kappa^2; every comparison that involves the "
    "principal-angle route is made on squared distances at "
    "1e-12 + 1e-12*kappa^2 (arccos near 1 limits d itself to sqrt(eps)), so "
    "'vanishes for equal subspaces' means d < 1e-6 for that route",
    "gmd: reconstruction and orthonormality of Q are judged at 1e-11*kappa "
    "(the algorithm's second rotation G2 is orthogonal only up to "
    "eps*kappa; observed 3e-14*kappa), P and the diagonal at 1e-12",
    "peig/leig are called with Hermitian positive (semi-)definite matrices "
    "only (their documented domain); linear independence / orthonormality of "
    "the returned eigenvectors is measured (label) but not asserted",
    "update_inv_sum_diag is called with matrices whose Hermitian part is "
    "positive definite and d >= 0, so every rank-one step is invertible; its "
    "error is judged relative to max(|inv A|, |inv(A+D)|) at 1e-13 times the "
    "worst condition number of the intermediate matrices "
    "A + diag(d_1..d_j,0..0) (Sherman-Morrison subtracts corrections from "
    "inv A)",
    "get_principal_component_matrix: 'rank = number of kept components' is "
    "asserted only when the k x k block of right singular vectors it multiplies "
    "with is well conditioned (sigma_min >= 1e-3) and the k-th singular value "
    "is separated from the (k+1)-th (relative gap >= 1e-3)",
]

QUICK_BUDGET_S = 300
THOROUGH_BUDGET_S = 1500


# ----------------------------------------------------------------------------
# strategies (plain data only)
# ----------------------------------------------------------------------------
def _kmax(tier, family):
    if tier == "quick":
        return 3.0
    return 4.0 if family in ("proj", "chordal") else 6.0


def _tvec(k):
    """k exponents in [0,1]: s_i = scale * kappa**(-t_i)."""
    generic = st.lists(fl(0.0, 1.0), min_size=k, max_size=k)
    equal = fl(0.0, 1.0).map(lambda t: [t] * k)
    clusters = st.lists(st.sampled_from([0.0, 0.5, 1.0]), min_size=k,
                        max_size=k)
    near = st.tuples(fl(0.0, 0.999),
                     st.lists(st.sampled_from([0.0, 1e-12, 1e-9, 1e-6]),
                              min_size=k, max_size=k)) \
        .map(lambda t: [t[0] + e for e in t[1]])
    bound = st.lists(fl(0.0, 1.0), min_size=k, max_size=k) \
        .map(lambda l: [0.0] + l[1:-1] + [1.0] if len(l) >= 2 else l)
    return st.one_of(generic, bound, bound, equal, clusters, near)


@st.composite
def _spectrum(draw, k, kmax):
    """k positive floats with max/min <= 10**kmax (Hypothesis chooses them)."""
    logk = draw(st.one_of(fl(0.0, 1.0), fl(0.0, kmax), fl(0.0, kmax),
                          st.just(kmax)))
    sc = draw(st.one_of(st.just(0.0), fl(-3.0, 3.0)))
    t = draw(_tvec(k))
    return [float(10.0 ** (sc - logk * ti)) for ti in t]


_DIM = st.sampled_from([1, 2, 2, 3, 3, 4, 4, 5, 5, 6, 7, 8])


def _count(n):
    """number of selected vectors 0..n, mostly >= 1"""
    return st.integers(0, n) if n == 0 else st.one_of(
        st.integers(1, n), st.integers(1, n), st.integers(0, n))


_FACTOR = st.sampled_from(["haar", "haar", "haar", "haar", "identity", "perm"])


@st.composite
def _matdesc(draw, m, n, kmax, cplx=None):
    k = min(m, n)
    return dict(m=m, n=n,
                cplx=draw(st.booleans()) if cplx is None else cplx,
                seed=draw(seeds), sv=draw(_spectrum(k, kmax)),
                umode=draw(_FACTOR), vmode=draw(_FACTOR))


@st.composite
def _tall_dims(draw):
    m = draw(_DIM)
    n = draw(st.integers(1, m))
    return m, n


def _s_proj(tier):
    @st.composite
    def s(draw):
        m, n = draw(_tall_dims())
        A = draw(_matdesc(m, n, _kmax(tier, "proj")))
        return dict(part="proj", A=A,
                    M=dict(cols=draw(st.integers(0, 3)),   # 0 -> 1-D vector
                           cplx=draw(st.booleans()), seed=draw(seeds),
                           scale_exp=draw(st.sampled_from([0, 0, -3, 3]))))
    return s()


def _s_chordal(tier):
    kmax = _kmax(tier, "chordal")

    @st.composite
    def s(draw):
        m, n = draw(_tall_dims())
        A = draw(_matdesc(m, n, kmax))
        mode = draw(st.sampled_from(["indep", "indep", "indep", "same",
                                     "perturbed"]))
        case = dict(part="chordal", A=A, mode=mode)
        if mode == "indep":
            # (one basis may be real and the other complex)
            case["B"] = draw(_matdesc(m, n, kmax, cplx=draw(st.sampled_from(
                [A["cplx"], A["cplx"], not A["cplx"]]))))
        elif mode == "perturbed":
            case["eps_exp"] = draw(st.one_of(fl(-8.0, -1.0),
                                             fl(-6.6, -5.5)))
            case["pseed"] = draw(seeds)
        # change of basis (kappa(T) <= 100) for A and for B, common rotation
        case["T1"] = draw(_matdesc(n, n, 2.0, cplx=A["cplx"]))
        case["T2"] = draw(_matdesc(n, n, 2.0, cplx=draw(st.sampled_from(
            [A["cplx"], A["cplx"], not A["cplx"]]))))
        case["rot_seed"] = draw(seeds)
        return case
    return s()


def _s_gmd(tier):
    @st.composite
    def s(draw):
        m = draw(_DIM)
        n = draw(st.one_of(st.just(m), _DIM))
        return dict(part="gmd",
                    scale_exp=draw(st.sampled_from([0, 0, 0, -30, -18, -9,
                                                    12])),
                    A=draw(_matdesc(m, n, _kmax(tier, "gmd"))),
                    tol_mode=draw(st.sampled_from(["default", "default",
                                                   "below_min"])))
    return s()


@st.composite
def _hpd(draw, kmax):
    n = draw(_DIM)
    mode = draw(st.sampled_from(["spectral", "spectral", "spectral",
                                 "lowrank_plus_identity"]))
    d = dict(n=n, cplx=draw(st.booleans()), seed=draw(seeds), mode=mode)
    if mode == "spectral":
        d["ev"] = draw(_spectrum(n, kmax))
        d["vmode"] = draw(_FACTOR)
    else:
        # R = pe * H H^H + sigma2 * I, H n x r (r < n  -> sigma2 repeated);
        # "gain" = pe * h_i^2 / sigma2 <= 10**kmax bounds the condition number
        r = draw(st.integers(0, n))
        d["r"] = r
        g = st.one_of(fl(-2.0, kmax), fl(-2.0, kmax), st.sampled_from(
            [0.0, 1.0, kmax])).map(lambda e: float(10.0 ** e))
        d["gain"] = draw(st.lists(g, min_size=r, max_size=r))
        d["sigma2"] = float(10.0 ** draw(st.one_of(st.just(0.0),
                                                   fl(-3.0, 3.0))))
        d["pe"] = float(10.0 ** draw(st.one_of(st.just(0.0), fl(-2.0, 2.0))))
    return d


def _spread(R):
    """make the eigenvalues of a 'spectral' covariance pairwise different
    (ratio >= 1.013 between neighbours after sorting)"""
    if R["mode"] != "spectral":
        return R
    ev = sorted(R["ev"])
    out = [ev[0]]
    for e in ev[1:]:
        out.append(max(e, out[-1] * 1.013))
    return dict(R, ev=out)


def _s_whiten(tier):
    # half of the cases get distinct eigenvalues by construction so that the
    # search continues behind the repeated-eigenvalue finding
    R = _hpd(_kmax(tier, "whiten"))
    # absolute scale of the covariance (receiver noise of -150 dBm is a
    # covariance of order 1e-18; W^H R W = I does not depend on it)
    sc = st.sampled_from([0, 0, 0, 0, -30, -20, -16, -12, -8, 8, 16, 30])
    # a covariance as it is computed (pe H F F^H H^H + s2 I) is Hermitian up
    # to rounding only: optionally the two triangles differ in the last bit
    return st.tuples(st.one_of(R, R.map(_spread)), sc,
                     st.sampled_from([None, None, 1, 2, 3])).map(
        lambda t: dict(part="whiten", R=t[0], scale_exp=t[1], asym=t[2]))


def _s_invupd(tier):
    @st.composite
    def s(draw):
        R = draw(_hpd(_kmax(tier, "invupd")))
        n = R["n"]
        dpos = st.one_of(st.floats(-3.0, 3.0), st.floats(-3.0, 3.0),
                         st.floats(-12.0, -3.0)).map(
                             lambda e: float(10.0 ** e))
        dmode = draw(st.sampled_from(["generic", "generic", "mu_ones",
                                      "zeros", "some_zero", "mixed_sign"]))
        if dmode == "mixed_sign":
            # a correction in both directions: entries in (-0.5, 0.5) times
            # the smallest eigenvalue of A (A + D stays positive definite)
            d = draw(st.lists(st.floats(-0.5, 0.5).map(
                lambda x: round(x, 6)), min_size=n, max_size=n))
        elif dmode == "generic":
            d = draw(st.lists(dpos, min_size=n, max_size=n))
        elif dmode == "mu_ones":
            d = [draw(dpos)] * n
        elif dmode == "zeros":
            d = [0.0] * n
        else:
            d = draw(st.lists(st.one_of(st.just(0.0), dpos), min_size=n,
                              max_size=n))
        return dict(part="invupd", R=R, d=d, dmode=dmode,
                    skew=draw(st.sampled_from([0.0, 0.0, 0.3, 1.0])),
                    skew_seed=draw(seeds),
                    d_rel=draw(st.booleans()),
                    # A and d in other units (one common factor)
                    scale_exp=draw(st.sampled_from(
                        [0, 0, 0, 0, -30, -16, -9, 9, 16])))
    return s()


def _s_selectors(tier):
    kmax = _kmax(tier, "selectors")

    @st.composite
    def s(draw):
        kind = draw(st.sampled_from(["peig", "leig", "lrsv", "pcm"]))
        case = dict(part="selectors", kind=kind)
        if kind in ("peig", "leig"):
            R = draw(_hpd(kmax))
            # callers also pass rank deficient PSD matrices (interference
            # covariance): zero out the smallest eigenvalues
            case["R"] = R
            case["n_zero"] = draw(st.sampled_from([0, 0, 0, 1, 2, 8])) \
                if R["mode"] == "spectral" else 0
            case["k"] = draw(_count(R["n"]))
        else:
            m = draw(_DIM)
            n = draw(st.one_of(st.just(m), _DIM, st.integers(1, m)))
            case["A"] = draw(_matdesc(m, n, kmax))
            case["k"] = draw(_count(n if kind == "lrsv" else min(m, n)))
        case["scale_exp"] = draw(st.sampled_from([0, 0, 0, -30, -16, -13, 13]))
        return case
    return s()


_POS30 = st.floats(-15.0, 15.0).map(lambda e: float(10.0 ** e))
_DB = st.one_of(fl(-150.0, 150.0), st.integers(-150, 150).map(float),
                fl(-1e-3, 1e-3))


def _s_conv(tier):
    @st.composite
    def s(draw):
        form = draw(st.sampled_from(["float", "float", "array", "int"]))
        if form == "int":
            lin = [float(draw(st.integers(1, 10 ** 12)))]
            db = [float(draw(st.integers(-150, 150)))]
        else:
            k = 1 if form == "float" else draw(st.integers(1, 6))
            lin = draw(st.lists(_POS30, min_size=k, max_size=k))
            db = draw(st.lists(_DB, min_size=k, max_size=k))
        return dict(part="conv", form=form, lin=lin, db=db,
                    bits=draw(st.integers(1, 12)))
    return s()


def _enum_conv_grid(tier):
    out = []
    for bits in range(1, 13):
        out.append(dict(part="conv_grid", form="array", bits=bits,
                        db=[float(v) for v in range(-150, 151)],
                        lin=[float(10.0 ** e) for e in range(-15, 16)]))
        for v in (-150, -30, -3, 0, 3, 10, 30, 150):
            out.append(dict(part="conv_grid", form="int", bits=bits,
                            db=[float(v)], lin=[float(10 ** (abs(v) % 13))]))
    return out


PARTS = [
    Part("proj", _s_proj, quick=1600, thorough=60000),
    Part("chordal", _s_chordal, quick=1200, thorough=40000),
    Part("gmd", _s_gmd, quick=1600, thorough=60000),
    Part("whiten", _s_whiten, quick=1600, thorough=60000),
    Part("invupd", _s_invupd, quick=1600, thorough=60000),
    Part("selectors", _s_selectors, quick=2400, thorough=100000),
    Part("conv", _s_conv, quick=2000, thorough=60000),
    Part("conv_grid", enumerate=_enum_conv_grid, exhaustive=True,
         quick_shards=1, thorough_shards=1),
]


# ----------------------------------------------------------------------------
# builders (deterministic: case description -> numpy arrays)
# ----------------------------------------------------------------------------
def _H(X):
    return X.conj().T


def _gauss(rs, shape, cplx):
    G = rs.standard_normal(shape)
    if cplx:
        G = G + 1j * rs.standard_normal(shape)
    return G


def _factor(rs, rows, cols, cplx, mode):
    """rows x cols matrix with orthonormal columns (rows >= cols)."""
    if mode == "identity":
        F = np.eye(rows)[:, :cols]
        # draw anyway so that the stream does not depend on the mode
        _gauss(rs, (rows, cols), cplx)
        return F.astype(complex) if cplx else F
    if mode == "perm":
        _gauss(rs, (rows, cols), cplx)
        p = rs.permutation(rows)
        F = np.eye(rows)[:, p[:cols]]
        return F.astype(complex) if cplx else F
    Q = np.linalg.qr(_gauss(rs, (rows, cols), cplx))[0]
    return Q


def _build_mat(d):
    """-> A, U (m x k), s (k,), V (n x k) with A = U diag(s) V^H."""
    m, n = int(d["m"]), int(d["n"])
    k = min(m, n)
    rs = np.random.RandomState(int(d["seed"]))
    s = np.array([float(x) for x in d["sv"]], dtype=float)
    assert s.shape == (k,) and np.all(s > 0) and np.all(np.isfinite(s))
    U = _factor(rs, m, k, d["cplx"], d.get("umode", "haar"))
    V = _factor(rs, n, k, d["cplx"], d.get("vmode", "haar"))
    A = (U * s).dot(_H(V))
    return A, U, s, V


def _build_hpd(d):
    """-> R (Hermitian PD, exactly Hermitian), ev (ascending eigenvalues)."""
    n = int(d["n"])
    rs = np.random.RandomState(int(d["seed"]))
    if d["mode"] == "spectral":
        ev = np.array([float(x) for x in d["ev"]], dtype=float)
        assert ev.shape == (n,) and np.all(ev > 0)
        V = _factor(rs, n, n, d["cplx"], d.get("vmode", "haar"))
        R = (V * ev).dot(_H(V))
    else:
        r = int(d["r"])
        sigma2, pe = float(d["sigma2"]), float(d["pe"])
        R = sigma2 * np.eye(n)
        if d["cplx"]:
            R = R.astype(complex)
        ev = np.full(n, sigma2)
        if r:
            gain = np.array([float(x) for x in d["gain"]], dtype=float)
            assert gain.shape == (r,) and np.all(gain > 0)
            hs = np.sqrt(gain * sigma2 / pe)
            U = _factor(rs, n, r, d["cplx"], "haar")
            W = _factor(rs, r, r, d["cplx"], "haar")
            Hm = (U * hs).dot(_H(W))
            R = pe * Hm.dot(_H(Hm)) + R
            ev = ev.copy()
            ev[:r] += pe * hs ** 2
    R = (R + _H(R)) / 2.0
    return R, np.sort(ev)


def _relgap_min(vals):
    """smallest relative gap between neighbouring values (inf for one)."""
    v = np.sort(np.asarray(vals, dtype=float))
    if v.size < 2:
        return math.inf
    den = np.maximum(np.abs(v[1:]), np.abs(v[:-1]))
    den = np.where(den > 0, den, 1.0)
    return float(np.min((v[1:] - v[:-1]) / den))


def _gap_class(g):
    if g == 0.0:
        return "repeated"
    if g < 1e-4:
        return "near"
    return "distinct"


def _amax(X):
    X = np.asarray(X)
    if X.size == 0:
        return 0.0
    v = float(np.max(np.abs(X)))
    return v


def _call(tags, fn, *args):
    """Call library code; an exception keeps its library frame (bucket) and
    gets the tags of the case attached (used to match known findings)."""
    try:
        return fn(*args)
    except Exception as exc:  # noqa - re-raised unchanged
        exc.vpbt_tags = dict(tags)
        raise


def _size_label(pref, m, n=None):
    d = m if n is None else max(m, n)
    return "%s:dim=%s" % (pref, "1" if d == 1 else "2" if d == 2 else
                          "3-5" if d <= 5 else "6-8")


def _kappa_label(pref, kap):
    return "%s:kappa=%s" % (pref, "<10" if kap < 10 else "<1e3" if kap < 1e3
                            else ">=1e3")


# ----------------------------------------------------------------------------
# proj
# ----------------------------------------------------------------------------
def _check_proj(case, ctx):
    from pyphysim.subspace import projections as pj
    A, U, s, V = _build_mat(case["A"])
    m, n = A.shape
    kap = float(s.max() / s.min())
    nrm = float(s.max())
    gap = _gap_class(_relgap_min(s))
    tags = dict(part="proj", m=m, n=n, cplx=bool(case["A"]["cplx"]))
    ctx.label("proj", _size_label("proj", m), _kappa_label("proj", kap),
              "proj:" + ("complex" if case["A"]["cplx"] else "real"),
              "proj:square" if m == n else "proj:tall",
              "proj:sv_" + gap)
    ctx.nontrivial((m >= 3 and case["A"]["cplx"]) or
                   (n >= 2 and gap != "distinct"))

    P = pj.calcProjectionMatrix(A)
    Po = pj.calcOrthogonalProjectionMatrix(A)
    obj = pj.Projection(A)
    if P.shape != (m, m) or Po.shape != (m, m):
        raise Violation("proj_shape", "P %r, P_orth %r for A %r" %
                        (P.shape, Po.shape, A.shape), tags)
    Im = np.eye(m)
    # A (A^H A)^-1 A^H : the normal equations square the condition number
    # (observed on the unchanged tree: 1e-16 * kappa^2)
    tol = 2e-13 * kap ** 2
    ctx.close("proj_hermitian", _amax(P - _H(P)), tol, "", tags)
    ctx.close("proj_idempotent", _amax(P.dot(P) - P), tol, "", tags)
    ctx.close("proj_PA_eq_A", _amax(P.dot(A) - A) / nrm, tol, "", tags)
    ctx.close("proj_complementary", _amax(P + Po - Im), 1e-13, "", tags)
    ctx.close("proj_orth_A_eq_0", _amax(Po.dot(A)) / nrm, tol, "", tags)
    ctx.close("proj_trace_eq_dim", abs(complex(np.trace(P)) - n), tol * m,
              "trace %r n %d" % (complex(np.trace(P)), n), tags)
    ctx.close("proj_vs_UUh", _amax(P - U.dot(_H(U))), tol, "", tags)
    ctx.close("proj_obj_Q", max(_amax(obj.Q - P), _amax(obj.oQ - Po)), tol,
              "Projection(A).Q/.oQ differ from the static methods", tags)

    md = case["M"]
    rs = np.random.RandomState(int(md["seed"]))
    shape = (m,) if md["cols"] == 0 else (m, int(md["cols"]))
    M = _gauss(rs, shape, md["cplx"]) * (10.0 ** int(md["scale_exp"]))
    mn = max(_amax(M), 1e-300)
    ctx.label("proj:M_vector" if md["cols"] == 0 else "proj:M_matrix")
    pM, oM = obj.project(M), obj.oProject(M)
    if pM.shape != M.shape or oM.shape != M.shape:
        raise Violation("proj_shape", "project(M) %r for M %r" %
                        (pM.shape, M.shape), tags)
    ctx.close("proj_project_eq_PM", _amax(pM - P.dot(M)) / mn, 1e-13 * m, "",
              tags)
    ctx.close("proj_split", _amax(pM + oM - M) / mn, 1e-13 * m, "", tags)
    ctx.close("proj_project_twice", _amax(obj.project(pM) - pM) / mn,
              tol * m, "", tags)
    ctx.close("proj_oproject_of_project", _amax(obj.oProject(pM)) / mn,
              tol * m, "", tags)
    rr = obj.reflect(obj.reflect(M))
    ctx.close("proj_reflect_twice", _amax(rr - M) / mn, 5 * tol * m, "",
              tags)


# ----------------------------------------------------------------------------
# chordal
# ----------------------------------------------------------------------------
def _three(metrics, X, Y):
    d1 = float(metrics.calc_chordal_distance(X, Y))
    d2 = float(metrics.calc_chordal_distance_2(X, Y))
    pa = metrics.calc_principal_angles(X, Y)
    d3 = float(metrics.calc_chordal_distance_from_principal_angles(pa))
    return (d1, d2, d3), pa


_ROUTINES = ("qr_projectors", "normal_eq_projectors", "principal_angles")


def _check_chordal(case, ctx):
    from pyphysim.subspace import metrics
    A, UA, sA, _ = _build_mat(case["A"])
    m, n = A.shape
    cplx = bool(case["A"]["cplx"])
    mode = case["mode"]
    T1 = _build_mat(case["T1"])[0]
    T2 = _build_mat(case["T2"])[0]
    if mode == "indep":
        B = _build_mat(case["B"])[0]
    elif mode == "same":
        B = A.dot(T2)
    else:
        rs = np.random.RandomState(int(case["pseed"]))
        G = _gauss(rs, (m, n), cplx)
        B = A + (10.0 ** float(case["eps_exp"])) * float(sA.min()) * G / \
            max(float(np.linalg.norm(G, 2)), 1e-300) * 0.5
    rs = np.random.RandomState(int(case["rot_seed"]))
    Qr = np.linalg.qr(_gauss(rs, (m, m), cplx))[0]
    A2, B2 = A.dot(T1), B.dot(T2)
    kap = max(float(np.linalg.cond(X)) for X in (A, B, A2, B2))
    # routines 1 and 2 are linear in the projector error (observed
    # 2e-16 * kappa^2); the principal-angle route returns sqrt(sum sin^2) whose
    # *square* has an absolute error of a few n*eps (arccos near 1), so every
    # comparison that involves it is made on squared distances: 1e-12 on d^2
    # means "d < 1e-6 for equal subspaces", DESIGN.md section 5
    tol_lin = 1e-12 + 1e-13 * kap ** 2
    tol_sq = 2e-14 * n + 1e-13 * kap ** 2
    tags = dict(part="chordal", m=m, n=n, cplx=cplx, mode=mode)
    ctx.label("chordal", "chordal:" + mode, _size_label("chordal", m),
              _kappa_label("chordal", kap),
              "chordal:" + ("complex" if cplx else "real"),
              "chordal:n=m" if n == m else "chordal:n<m")
    ctx.nontrivial((m >= 3 and cplx) or
                   (n >= 2 and _gap_class(_relgap_min(sA)) != "distinct"))

    kap_ab = max(float(np.linalg.cond(X)) for X in (A, B))

    def same(name, i, x, j, y, what, t, k=None):
        """distance x of routine i must equal distance y of routine j (k:
        condition number of the matrices actually compared, when it is
        smaller than the maximum over all four)"""
        if 2 in (i, j):
            ctx.close(name + "_sq", abs(x * x - y * y),
                      tol_sq if k is None else 2e-14 * n + 1e-13 * k ** 2,
                      "(squared distances) " + what, t)
        else:
            ctx.close(name, abs(x - y), tol_lin, what, t)

    d, pa = _three(metrics, A, B)
    if np.shape(pa) != (n,):
        raise Violation("chordal_angles_shape", "%r principal angles for "
                        "%d-dimensional subspaces" % (np.shape(pa), n), tags)
    for v, name in zip(d, _ROUTINES):
        if not (v == v and v >= 0.0):
            raise Violation("chordal_not_a_distance", "%s returned %r" %
                            (name, v), dict(tags, routine=name))
    ctx.label("chordal:d<1e-6" if max(d) < 1e-6 else
              "chordal:d<0.1" if max(d) < 0.1 else "chordal:d>=0.1")
    for i, j in ((0, 1), (0, 2), (1, 2)):
        same("chordal_agree", i, d[i], j, d[j],
             "%s=%r %s=%r" % (_ROUTINES[i], d[i], _ROUTINES[j], d[j]),
             dict(tags, routines="%s/%s" % (_ROUTINES[i], _ROUTINES[j])),
             k=kap_ab)
    ds, _ = _three(metrics, B, A)
    db, _ = _three(metrics, A2, B2)
    dr, _ = _three(metrics, Qr.dot(A), Qr.dot(B))
    d0, _ = _three(metrics, A, A)
    d0b, _ = _three(metrics, A, A2)
    for i, name in enumerate(_ROUTINES):
        t = dict(tags, routine=name)
        same("chordal_symmetric", i, ds[i], i, d[i],
             "%s d(A,B)=%r d(B,A)=%r" % (name, d[i], ds[i]), t)
        same("chordal_basis_invariant", i, db[i], i, d[i],
             "%s d(A,B)=%r d(A T1,B T2)=%r" % (name, d[i], db[i]), t)
        same("chordal_rotation_invariant", i, dr[i], i, d[i],
             "%s d(A,B)=%r d(QA,QB)=%r" % (name, d[i], dr[i]), t)
        same("chordal_zero_same_matrix", i, d0[i], i, 0.0,
             "%s d(A,A)=%r" % (name, d0[i]), t)
        same("chordal_zero_same_subspace", i, d0b[i], i, 0.0,
             "%s d(A,A T)=%r" % (name, d0b[i]), t)
        if mode == "same":
            same("chordal_zero_same_subspace", i, d[i], i, 0.0,
                 "%s d(A,A T)=%r" % (name, d[i]), t)


# ----------------------------------------------------------------------------
# gmd
# ----------------------------------------------------------------------------
def _check_gmd(case, ctx):
    from pyphysim.util import misc
    A, _, s, _ = _build_mat(case["A"])
    m, n = A.shape
    p = min(m, n)
    cplx = bool(case["A"]["cplx"])
    gap = _gap_class(_relgap_min(s))
    kap = float(s.max() / s.min())
    tags = dict(part="gmd", m=m, n=n, cplx=cplx, tol_mode=case["tol_mode"])
    ctx.label("gmd", _size_label("gmd", m, n), _kappa_label("gmd", kap),
              "gmd:" + ("complex" if cplx else "real"),
              "gmd:square" if m == n else "gmd:tall" if m > n else "gmd:wide",
              "gmd:sv_" + gap, "gmd:tol_" + case["tol_mode"])
    ctx.nontrivial((max(m, n) >= 3 and cplx) or (p >= 2 and gap != "distinct"))

    se = int(case.get("scale_exp", 0))
    if se:
        A = A * 10.0 ** se
        ctx.label("gmd:scaled_1e%d" % se)
    # calling convention of the library (mimo.GMDMimo) and of its test
    U, S, V_H = np.linalg.svd(A)
    if case["tol_mode"] == "default":
        Q, R, P = misc.gmd(U, S, V_H)
    else:
        Q, R, P = misc.gmd(U, S, V_H, 0.5 * float(S.min()))
    if Q.shape != (m, m) or R.shape != (m, n) or P.shape != (n, n):
        raise Violation("gmd_shape", "Q %r R %r P %r for A %r" %
                        (Q.shape, R.shape, P.shape, A.shape), tags)
    nrm = float(S.max())
    # Q is rotated by G2 = [[c d1, -s d2], [s d2, c d1]] / sigma_bar, which is
    # orthogonal only up to eps * kappa (observed <= 3e-14 * kappa); P is
    # rotated by exact Givens rotations
    ctx.close("gmd_reconstruct", _amax(Q.dot(R).dot(_H(P)) - A) / nrm,
              1e-11 * kap, "", tags)
    ctx.close("gmd_Q_orthonormal", _amax(_H(Q).dot(Q) - np.eye(m)),
              1e-11 * kap, "", tags)
    ctx.close("gmd_P_orthonormal", _amax(_H(P).dot(P) - np.eye(n)), 1e-12, "",
              tags)
    ctx.close("gmd_R_upper_triangular", _amax(np.tril(R, -1)) / nrm, 1e-14,
              "", tags)
    # geometric mean of the singular values, computed in the log domain
    gm = math.exp(math.fsum(math.log(float(x)) for x in S) / p)
    dg = np.diagonal(R)
    ctx.close("gmd_diag_constant", _amax(dg - dg[0]) / gm, 1e-12,
              "diag %r" % (dg.tolist(),), tags)
    ctx.close("gmd_diag_geometric_mean", _amax(dg - gm) / gm, 1e-12,
              "diag %r geometric mean %r" % (dg.tolist(), gm), tags)


# ----------------------------------------------------------------------------
# whitening
# ----------------------------------------------------------------------------
def _check_whiten(case, ctx):
    from pyphysim.util import misc
    R, ev = _build_hpd(case["R"])
    n = R.shape[0]
    cplx = bool(case["R"]["cplx"])
    kap = float(ev.max() / ev.min())
    gap = _gap_class(_relgap_min(ev))
    tags = dict(part="whiten", n=n, cplx=cplx, ev=gap, mode=case["R"]["mode"])
    se = int(case.get("scale_exp", 0))
    if se:
        R = R * 10.0 ** se
        ctx.label("whiten:scaled_1e%d" % se)
    ctx.label("whiten", _size_label("whiten", n), _kappa_label("whiten", kap),
              "whiten:" + ("complex" if cplx else "real"),
              "whiten:ev_" + gap, "whiten:" + case["R"]["mode"])
    ctx.nontrivial((n >= 3 and cplx) or (n >= 2 and gap != "distinct"))
    if case.get("asym") and n >= 2:
        # relative perturbation of one unit in the last place, independent
        # in the two triangles
        rsa = np.random.RandomState(1000 + int(case["asym"]) + n)
        R = R * (1.0 + 2.220446049250313e-16 *
                 rsa.randint(-1, 2, size=R.shape))
        if not np.array_equal(R, _H(R)):
            ctx.label("whiten:hermitian_up_to_rounding_only")
    W = _call(tags, misc.calc_whitening_matrix, R)
    if np.shape(W) != (n, n):
        raise Violation("whiten_shape", "W %r for R %r" %
                        (np.shape(W), R.shape), tags)
    E = _H(W).dot(R).dot(W) - np.eye(n)
    # two sub-checks (same tolerance): degenerate = an eigenvalue is repeated
    # or nearly repeated (relative gap < 1e-4)
    ctx.close("whiten_WhRW_eq_I" if gap == "distinct" else
              "whiten_WhRW_eq_I_degenerate", _amax(E), 5e-13 * kap,
              "n=%d eigenvalues=%r" % (n, ev.tolist()), tags)


# ----------------------------------------------------------------------------
# inverse update
# ----------------------------------------------------------------------------
def _check_invupd(case, ctx):
    from pyphysim.util import misc
    R, ev = _build_hpd(case["R"])
    n = R.shape[0]
    cplx = bool(case["R"]["cplx"])
    A = R
    skew = float(case["skew"])
    if skew:
        rs = np.random.RandomState(int(case["skew_seed"]))
        K = _gauss(rs, (n, n), cplx)
        K = (K - _H(K)) / 2.0                    # skew-Hermitian part
        kn = float(np.linalg.norm(K, 2))
        if kn > 0:
            A = R + skew * float(ev.max()) * K / kn
    d = np.array([float(x) for x in case["d"]], dtype=float)
    if case["dmode"] == "mixed_sign":
        d = d * float(ev.min())
        A = R       # (Hermitian A: A + D is positive definite by construction)
        ctx.label("invupd:negative_entries" if np.any(d < 0)
                  else "invupd:mixed_sign_all_positive")
    elif case["d_rel"]:
        d = d * float(ev.max())                  # update comparable to A
    assert d.shape == (n,) and (np.all(d >= 0) or
                                case["dmode"] == "mixed_sign")
    se = int(case.get("scale_exp", 0))
    if se:
        A, d, ev = A * 10.0 ** se, d * 10.0 ** se, ev * 10.0 ** se
        ctx.label("invupd:scaled_1e%d" % se)
    tags = dict(part="invupd", n=n, cplx=cplx, dmode=case["dmode"],
                hermitian=(skew == 0.0))
    B = A + np.diag(d)
    kA = float(np.linalg.cond(A))
    # the routine passes through inv(A + diag(d_1..d_j, 0..0)), j = 1..n: its
    # rounding error is governed by the worst conditioned of these
    kmax = kA
    for j in range(1, n + 1):
        dj = d.copy()
        dj[j:] = 0.0
        kmax = max(kmax, float(np.linalg.cond(A + np.diag(dj))))
    ctx.label("invupd", _size_label("invupd", n),
              _kappa_label("invupd", kA),
              "invupd:" + ("complex" if cplx else "real"),
              "invupd:d_" + case["dmode"],
              "invupd:hermitian" if skew == 0.0 else "invupd:non_hermitian")
    ctx.nontrivial(((n >= 3 and cplx) or
                    (n >= 2 and _gap_class(_relgap_min(ev)) != "distinct"))
                   and case["dmode"] != "zeros")
    invA = np.linalg.inv(A)
    new = _call(tags, misc.update_inv_sum_diag, invA, d)
    if np.shape(new) != (n, n):
        raise Violation("invupd_shape", "%r" % (np.shape(new),), tags)
    ref = np.linalg.inv(B)
    # Sherman-Morrison computes inv(B) as inv(A) minus corrections: its
    # rounding error is relative to |inv(A)| (>= |inv(B)| up to the skew part)
    scale = max(float(np.linalg.norm(ref, 2)), float(np.linalg.norm(invA, 2)))
    ctx.close("invupd_eq_true_inverse", _amax(new - ref) / scale,
              1e-13 * kmax, "d=%r" % (d.tolist(),), tags)


# ----------------------------------------------------------------------------
# eigen / singular selectors
# ----------------------------------------------------------------------------
def _check_eigsel(case, ctx):
    from pyphysim.util import misc
    kind = case["kind"]
    R, ev = _build_hpd(case["R"])
    se = int(case.get("scale_exp", 0))
    if se:
        R, ev = R * 10.0 ** se, ev * 10.0 ** se
        ctx.label(kind + ":scaled_1e%d" % se)
    n = R.shape[0]
    cplx = bool(case["R"]["cplx"])
    nz = min(int(case.get("n_zero", 0)), n - 1)
    if nz > 0:
        # rank deficient PSD: remove the nz smallest eigen-directions
        w, V = np.linalg.eigh(R)
        w = w.copy()
        w[:nz] = 0.0
        R = (V * w).dot(_H(V))
        R = (R + _H(R)) / 2.0
    k = int(case["k"])
    ref = np.linalg.eigvalsh(R)                   # ascending
    nrm = float(max(np.abs(ref).max(), 1e-300))
    gap = _gap_class(_relgap_min(ev)) if nz < 2 else "repeated"
    tags = dict(part="selectors", kind=kind, n=n, k=k, cplx=cplx, ev=gap)
    ctx.label(kind, _size_label(kind, n),
              kind + ":" + ("complex" if cplx else "real"),
              kind + ":ev_" + gap,
              kind + (":k=0" if k == 0 else ":k=n" if k == n else ":0<k<n"),
              kind + (":psd_rank_deficient" if nz else ":pd"))
    ctx.nontrivial(k >= 1 and ((n >= 3 and cplx) or
                               (n >= 2 and gap != "distinct")))
    fn = misc.peig if kind == "peig" else misc.leig
    V, D = _call(tags, fn, R, k)
    V, D = np.asarray(V), np.asarray(D)
    if V.shape != (n, k) or D.shape != (k,):
        raise Violation("eigsel_shape", "%s(A %r, %d) -> V %r D %r" %
                        (kind, R.shape, k, V.shape, D.shape), tags)
    if k == 0:
        return
    want = ref[::-1][:k] if kind == "peig" else ref[:k]
    ctx.close("eigsel_eigenvalues_real", _amax(np.imag(D)) / nrm, 1e-11,
              "D=%r" % (D.tolist(),), tags)
    # eigenvalues returned are the k largest / smallest, in that order
    ctx.close("eigsel_selected_eigenvalues", _amax(np.real(D) - want) / nrm,
              1e-11, "returned %r, %s %d of eigvalsh %r" %
              (np.real(D).tolist(), "largest" if kind == "peig" else
               "smallest", k, ref.tolist()), tags)
    # every column is a (non-zero) eigenvector for its eigenvalue
    norms = np.sqrt(np.sum(np.abs(V) ** 2, axis=0))
    if not (np.all(np.isfinite(norms)) and np.all(norms > 0)):
        raise Violation("eigsel_zero_column", "column norms %r" %
                        (norms.tolist(),), tags)
    ctx.close("eigsel_eigen_equation",
              _amax((R.dot(V) - V * D) / norms) / nrm, 1e-11, "", tags)
    # measured, not asserted (see ASSUMPTIONS)
    ctx.label(kind + (":V_orthonormal" if
                      _amax(_H(V).dot(V) - np.eye(k)) < 1e-8 else
                      ":V_not_orthonormal"))
    if float(np.linalg.svd(V / norms, compute_uv=False).min()) < 1e-3:
        ctx.label(kind + ":V_nearly_dependent")


def _check_lrsv(case, ctx):
    from pyphysim.util import misc
    A, _, s, _ = _build_mat(case["A"])
    se = int(case.get("scale_exp", 0))
    if se:
        A, s = A * 10.0 ** se, s * 10.0 ** se
        ctx.label("lrsv:scaled_1e%d" % se)
    m, n = A.shape
    k = int(case["k"])
    cplx = bool(case["A"]["cplx"])
    gap = _gap_class(_relgap_min(s))
    shape = "square" if m == n else "tall" if m > n else "wide"
    # wide matrix: n - m right singular vectors belong to singular value 0
    remaining_in_nullspace = (n - k) > min(m, n)
    tags = dict(part="selectors", kind="lrsv", m=m, n=n, k=k, cplx=cplx,
                shape=shape, remaining_in_nullspace=remaining_in_nullspace)
    ctx.label("lrsv", _size_label("lrsv", m, n),
              "lrsv:" + ("complex" if cplx else "real"), "lrsv:" + shape,
              "lrsv:sv_" + gap,
              "lrsv" + (":k=0" if k == 0 else ":k=n" if k == n else ":0<k<n"))
    if remaining_in_nullspace:
        ctx.label("lrsv:remaining_in_nullspace")
    ctx.nontrivial(0 < k and ((max(m, n) >= 3 and cplx) or
                              (min(m, n) >= 2 and gap != "distinct")))
    V0, V1, S = _call(tags, misc.least_right_singular_vectors, A, k)
    V0, V1, S = np.asarray(V0), np.asarray(V1), np.asarray(S)
    if V0.shape != (n, k) or V1.shape != (n, n - k) or S.shape != (n - k,):
        raise Violation("lrsv_shape", "A %r n=%d -> V0 %r V1 %r S %r" %
                        (A.shape, k, V0.shape, V1.shape, S.shape), tags)
    full = np.zeros(n)
    sv = np.linalg.svd(A, compute_uv=False)
    full[:sv.size] = sv                           # descending, zero padded
    nrm = float(sv.max())
    Vall = np.hstack([V0, V1])
    ctx.close("lrsv_V0_V1_unitary", _amax(_H(Vall).dot(Vall) - np.eye(n)),
              1e-11, "", tags)
    g0 = np.sqrt(np.sum(np.abs(A.dot(V0)) ** 2, axis=0))
    g1 = np.sqrt(np.sum(np.abs(A.dot(V1)) ** 2, axis=0))
    # gains of the selected vectors = the k smallest singular values
    ctx.close("lrsv_V0_least_singular_values",
              _amax(np.sort(g0) - np.sort(full)[:k]) / nrm, 1e-11,
              "|A v| = %r, singular values %r" % (g0.tolist(), full.tolist()),
              tags)
    # ... and they are right singular vectors: A^H A v = s^2 v
    AhA = _H(A).dot(A)
    ctx.close("lrsv_V0_singular_vectors",
              _amax(AhA.dot(V0) - V0 * g0 ** 2) / nrm ** 2, 1e-11, "", tags)
    ctx.close("lrsv_V1_singular_vectors",
              _amax(AhA.dot(V1) - V1 * g1 ** 2) / nrm ** 2, 1e-11, "", tags)
    # S = singular values of the remaining vectors, column by column
    ctx.close("lrsv_S_matches_V1", _amax(S - g1) / nrm, 1e-11,
              "S=%r |A v1|=%r" % (S.tolist(), g1.tolist()), tags)
    ctx.close("lrsv_S_remaining_singular_values",
              _amax(np.sort(S) - np.sort(full)[k:]) / nrm, 1e-11,
              "S=%r singular values %r" % (S.tolist(), full.tolist()), tags)


def _check_pcm(case, ctx):
    from pyphysim.util import misc
    A, _, s, _ = _build_mat(case["A"])
    se = int(case.get("scale_exp", 0))
    if se:
        A, s = A * 10.0 ** se, s * 10.0 ** se
        ctx.label("pcm:scaled_1e%d" % se)
    m, n = A.shape
    p = min(m, n)
    k = int(case["k"])
    cplx = bool(case["A"]["cplx"])
    shape = "square" if m == n else "tall" if m > n else "wide"
    tags = dict(part="selectors", kind="pcm", m=m, n=n, k=k, cplx=cplx,
                shape=shape)
    U, S, V_H = np.linalg.svd(A, full_matrices=False)   # oracle side
    nrm = float(S.max())
    gap_k = math.inf if k in (0, p) else float((S[k - 1] - S[k]) / S[k - 1])
    ctx.label("pcm", _size_label("pcm", m, n),
              "pcm:" + ("complex" if cplx else "real"), "pcm:" + shape,
              "pcm" + (":k=0" if k == 0 else ":k=min(m,n)" if k == p
                       else ":0<k<min"),
              "pcm:gap_at_k" if gap_k >= 1e-3 else "pcm:tie_at_k")
    ctx.nontrivial(0 < k and ((max(m, n) >= 3 and cplx) or
                              (p >= 2 and
                               _gap_class(_relgap_min(s)) != "distinct")))
    out = np.asarray(_call(tags, misc.get_principal_component_matrix, A,
                           k))
    if out.shape != (m, k):
        raise Violation("pcm_shape", "A %r, %d components -> %r" %
                        (A.shape, k, out.shape), tags)
    if k == 0:
        return
    # column space inside the span of the dominant left singular vectors
    # (enlarged to the end of a cluster of tied singular values)
    j = k
    while j < p and (S[j - 1] - S[j]) < 1e-3 * S[j - 1]:
        j += 1
    Uj = U[:, :j]
    # a singular subspace is determined up to eps * |A| / (absolute gap)
    tolj = 1e-11 if j == p else 1e-11 * nrm / float(S[j - 1] - S[j])
    ctx.close("pcm_in_dominant_span",
              _amax(out - Uj.dot(_H(Uj).dot(out))) / nrm, tolj, "", tags)
    if gap_k >= 1e-3:
        tolk = 1e-11 if k == p else 1e-11 * nrm / float(S[k - 1] - S[k])
        # = first k columns of the best rank-k approximation of A
        Ak = (U[:, :k] * S[:k]).dot(V_H[:k, :])
        ctx.close("pcm_vs_truncated_svd", _amax(out - Ak[:, :k]) / nrm, tolk,
                  "", tags)
        blk = float(np.linalg.svd(V_H[:k, :k], compute_uv=False).min())
        if blk >= 1e-3:
            ctx.label("pcm:rank_checked")
            so = float(np.linalg.svd(out, compute_uv=False).min())
            if not so >= 0.5 * float(S[k - 1]) * blk:
                raise Violation("pcm_rank", "smallest singular value of the "
                                "result %r: rank < %d" % (so, k), tags)
        else:
            ctx.label("pcm:rank_not_defined")


# ----------------------------------------------------------------------------
# conversions
# ----------------------------------------------------------------------------
def _as_form(vals, form):
    if form == "array":
        return np.array(vals, dtype=float)
    if form == "int":
        return int(vals[0])
    return float(vals[0])


def _check_conv(case, ctx):
    from pyphysim.util import conversion as cv
    form = case["form"]
    bits = int(case["bits"])
    lin = _as_form(case["lin"], form)
    db = _as_form(case["db"], form)
    linv = np.array(case["lin"], dtype=float) if form == "array" else \
        np.array([float(lin)])
    dbv = np.array(case["db"], dtype=float) if form == "array" else \
        np.array([float(db)])
    tags = dict(part=case["part"], form=form, bits=bits)
    ctx.label(case["part"], "conv:" + form, "conv:bits=%d" % bits)
    ctx.label("conv:lin<1e-5" if linv.min() < 1e-5 else
              "conv:lin>1e5" if linv.max() > 1e5 else "conv:lin_mid")
    ctx.nontrivial(bool(np.any(linv != 1.0)) and bool(np.any(dbv != 0.0))
                   and bits >= 2)

    def rel(got, want):
        got = np.atleast_1d(np.asarray(got, dtype=float))
        if got.shape != want.shape:
            raise Violation("conv_shape", "%r for input %r" %
                            (got.shape, want.shape), tags)
        return float(np.max(np.abs(got - want) / np.abs(want)))

    def absd(got, want):
        got = np.atleast_1d(np.asarray(got, dtype=float))
        if got.shape != want.shape:
            raise Violation("conv_shape", "%r for input %r" %
                            (got.shape, want.shape), tags)
        return float(np.max(np.abs(got - want) / (10.0 + np.abs(want))))

    ctx.close("conv_dB2Linear_of_linear2dB",
              rel(cv.dB2Linear(cv.linear2dB(lin)), linv), 1e-12,
              "x=%r" % (case["lin"],), tags)
    ctx.close("conv_linear2dB_of_dB2Linear",
              absd(cv.linear2dB(cv.dB2Linear(db)), dbv), 1e-13,
              "dB=%r" % (case["db"],), tags)
    ctx.close("conv_dBm2Linear_of_linear2dBm",
              rel(cv.dBm2Linear(cv.linear2dBm(lin)), linv), 1e-12,
              "x=%r" % (case["lin"],), tags)
    ctx.close("conv_linear2dBm_of_dBm2Linear",
              absd(cv.linear2dBm(cv.dBm2Linear(db)), dbv), 1e-13,
              "dBm=%r" % (case["db"],), tags)
    ctx.close("conv_SNR_of_EbN0",
              absd(cv.EbN0_dB_to_SNR_dB(cv.SNR_dB_to_EbN0_dB(db, bits), bits),
                   dbv), 1e-13, "dB=%r bits=%d" % (case["db"], bits), tags)
    ctx.close("conv_EbN0_of_SNR",
              absd(cv.SNR_dB_to_EbN0_dB(cv.EbN0_dB_to_SNR_dB(db, bits), bits),
                   dbv), 1e-13, "dB=%r bits=%d" % (case["db"], bits), tags)
    if form == "array":
        # "mutually inverse" is judged by the user against the array he
        # passed in: it must still hold his values after the conversions
        if not (np.array_equal(np.asarray(lin, dtype=float), linv) and
                np.array_equal(np.asarray(db, dtype=float), dbv)):
            raise Violation("conv_modified_its_argument", "a conversion "
                            "changed the array handed to it: %r -> %r, "
                            "%r -> %r" % (case["lin"],
                                          np.asarray(lin).tolist(),
                                          case["db"], np.asarray(db).tolist()),
                            tags)


# ----------------------------------------------------------------------------
def _guard_targets():
    from pyphysim.subspace import metrics, projections
    from pyphysim.util import conversion, misc
    t = [(projections, n) for n in ("calcProjectionMatrix",
                                    "calcOrthogonalProjectionMatrix")]
    t += [(projections.Projection, n) for n in ("project", "oProject",
                                                "reflect", "__init__")]
    t += [(metrics, n) for n in ("calc_principal_angles",
                                 "calc_chordal_distance",
                                 "calc_chordal_distance_2",
                                 "calc_chordal_distance_from_principal_angles")]
    t += [(misc, n) for n in ("gmd", "calc_whitening_matrix",
                              "update_inv_sum_diag", "peig", "leig",
                              "least_right_singular_vectors",
                              "get_principal_component_matrix")]
    t += [(conversion, n) for n in ("dB2Linear", "linear2dB", "dBm2Linear",
                                    "linear2dBm", "SNR_dB_to_EbN0_dB",
                                    "EbN0_dB_to_SNR_dB")]
    return t


def check(case, ctx):
    from ..core import GuardedCalls
    with GuardedCalls(_guard_targets(), dict(part=case["part"])):
        return _check(case, ctx)


def _check(case, ctx):
    part = case["part"]
    if part == "proj":
        return _check_proj(case, ctx)
    if part == "chordal":
        return _check_chordal(case, ctx)
    if part == "gmd":
        return _check_gmd(case, ctx)
    if part == "whiten":
        return _check_whiten(case, ctx)
    if part == "invupd":
        return _check_invupd(case, ctx)
    if part == "selectors":
        if case["kind"] in ("peig", "leig"):
            return _check_eigsel(case, ctx)
        if case["kind"] == "lrsv":
            return _check_lrsv(case, ctx)
        return _check_pcm(case, ctx)
    if part in ("conv", "conv_grid"):
        return _check_conv(case, ctx)
    raise AssertionError("unknown part %r" % (part,))
