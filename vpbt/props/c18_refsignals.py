"""C18 - reference sequences are CAZAC; pilot-based channel estimation is exact.

Parts
-----
sizes      exhaustive sweep over every requested size 12, 24, 25..1200:
           * what="table"  (12, 24): the 30 tabulated sequences have unit
             amplitude and the requested length;
           * what="prime"  (25..1200): base length == largest prime <= size
             (own sieve), sequence length == size, extension is the cyclic
             repetition of the un-extended sequence, |seq| == 1;
           * what="cazac"  (25..1200): for sampled root indexes 1..Nzc-1 the
             base sequence has unit amplitude, zero cyclic autocorrelation
             at every non-zero lag and a flat spectrum;
           * what="shifts" (sizes that are multiples of 8 / 12): the 8 SRS /
             12 DMRS user sequences are mutually orthogonal.
extension  generated: explicit (Nzc, size) pairs, including size > 2*Nzc.
est        generated: CazacBasedChannelEstimator (plain / comb, SRS / DMRS
           sequences, 1..4 antennas, normalisation on/off) with 0..3
           simultaneous users on other cyclic shifts.
occ        generated: CazacBasedWithOCCChannelEstimator (cover codes of
           length 2, both array layouts, 1..4 antennas).
ls         generated: compute_ls_estimation for kappa-controlled full row rank
           pilot matrices, the three calling conventions.
"""
import math
import random

import numpy as np
from hypothesis import strategies as st

from ..core import Part, Violation
from ..gens import fl, seeds

PROPERTY = "C18"
LEVEL = "exploration"
RULE = ("sizes: every requested size 12, 24, 25..1200 enumerated (table / "
        "prime-selection+extension / CAZAC identities for sampled roots / "
        "orthogonality of all cyclic shifts); generated: explicit (Nzc, size) "
        "extensions, CAZAC estimators (SRS N=8m, DMRS N=12m, m up to 1200/D, "
        "root, shift, normalisation, comb factor, 0-4 antennas, taps "
        "L<=K+1<=N/D, 0-3 users on other shifts with L_u<=N/D, cover codes "
        "+-1 of length 2, both layouts) and LS estimation with pilot matrices "
        "U diag(s) V^H of condition number <= 1e3 (1e4 thorough), optionally "
        "with 1..3 exactly-zero pilot instants. "
        "non-trivial = sizes: size > 24; extension: size > Nzc; est/occ: "
        "(>= 2 channel taps and >= 1 interfering user) or size > 1009; "
        "ls: >= 2 transmit antennas. distinct = SHA-1 of the case description")
RULE += (" Added after the white-box review: "
         "channel gains down to 1e-12, real pilots with a complex "
         "channel ")

RULE += (" Added after the second white-box review: up to two shift "
         "windows of kept taps (and channels longer than N/D) when the "
         "occupied shifts leave room; profiles 'steep' (last tap 1e-5..1e-9 "
         "of the first) and 'antgain' (every further antenna 1e-2..1e-4 "
         "weaker) with a per-antenna error bound; the user's sequence is "
         "re-read after the estimator used it; the same observation is "
         "estimated twice; keyword defaults (normalize, extra_dimension) "
         "are left to the library in part of the cases. ")

LEVEL_TEXT = ("Exhaustive enumeration of all requested sizes 12, 24, 25..1200 "
              "for the prime selection, cyclic extension and shift "
              "orthogonality (CAZAC identities for sampled roots per size), "
              "plus generated-input search (Hypothesis, seeded, sharded) over "
              "estimator configurations and channels against a first-"
              "principles oracle: estimate == DFT of the true impulse "
              "response. Absence of violations is exhaustive only for the "
              "size sweep; the generated parts are a search.")
LEVEL_NOTE = ("float64: CAZAC identities judged at 1e-6 (relative to N, "
              "sqrt(N)) because the quadratic phase reaches 1e9 rad at "
              "N~1200 (observed <= 8e-10); estimator exactness at 1e-10 of "
              "the summed channel norms; LS at 1e-13*kappa^2")
TECHNIQUE = ("property-based testing (Hypothesis) + exhaustive enumeration of "
             "the finite size domain; first-principles reference oracles "
             "(sieve, FFT identities, DFT of the generating impulse response)")
ASSUMPTIONS = [
    "valid root indexes are 0..29 for the tabulated sizes 12/24 and "
    "1..Nzc-1 (Nzc = largest prime <= size) for every other size",
    "'delay spread fits in the kept taps' is read as: last non-zero tap index "
    "<= num_taps_to_keep (the code and the unit tests keep taps "
    "0..num_taps_to_keep); interfering users fit their shift window when they "
    "have <= N/D taps, and num_taps_to_keep+1 <= N/D",
    "interfering users transmit the library's own user sequences for their "
    "shift, with the same normalisation flag; the direction of the cyclic "
    "shift is therefore not observable (a globally flipped shift sign is "
    "equivalent w.r.t. this property)",
    "OCC: a user on the SAME shift with an orthogonal cover code is expected "
    "to cancel exactly (purpose of the cover code; reported under its own "
    "sub-check est_occ_same_shift)",
    "CAZAC identities are checked for sampled roots per size (all roots only "
    "for base lengths < 64 in the thorough tier)",
    "LS exactness is numerically limited by the normal equations: tolerance "
    "1e-13 * kappa(s)^2 * ||H||_F, kappa <= 1e3 (quick) / 1e4 (thorough)",
]

QUICK_BUDGET_S = 300
THOROUGH_BUDGET_S = 1500

MAX_SIZE = 1200
COVERS = [[1, 1], [1, -1], [-1, 1], [-1, -1]]
# cover codes over four reference symbols (rows of a Hadamard matrix)
COVERS4 = [[1, 1, 1, 1], [1, -1, 1, -1], [1, 1, -1, -1], [1, -1, -1, 1]]


def _cover(idx, nc):
    return COVERS[idx] if nc == 2 else COVERS4[idx]


# ----------------------------------------------------------------------------
# oracles
# ----------------------------------------------------------------------------
def _sieve(n):
    s = bytearray([1]) * (n + 1)
    s[0] = s[1] = 0
    for i in range(2, int(math.isqrt(n)) + 1):
        if s[i]:
            for j in range(i * i, n + 1, i):
                s[j] = 0
    return s


_IS_PRIME = _sieve(4 * MAX_SIZE)
_PRIMES = [i for i in range(len(_IS_PRIME)) if _IS_PRIME[i]]


def _largest_prime_le(n):
    while not _IS_PRIME[n]:
        n -= 1
    return n


def _size_class(n):
    if n <= 24:
        return "N<=24(table)"
    if n <= 100:
        return "N=25..100"
    if n <= 1009:
        return "N=101..1009"
    return "N>1009"


class _tagged(object):
    """Attach tags to an exception escaping library code (it stays a library
    failure bucketed by the innermost pyphysim frame)."""
    def __init__(self, tags):
        self.tags = tags

    def __enter__(self):
        return self

    def __exit__(self, et, exc, tb):
        if exc is not None and not isinstance(exc, Violation):
            try:
                exc.vpbt_tags = dict(self.tags)
            except Exception:  # noqa
                pass
        return False


# ----------------------------------------------------------------------------
# enumerated part: all sizes
# ----------------------------------------------------------------------------
def _roots_for(size, want, k):
    """Deterministic sample of valid root indexes 1..want-1 for `size`:
    always 1 and want-1, plus k pseudo-random ones (different for the
    different sizes that share a base length)."""
    rnd = random.Random(1000003 * size + 17)
    roots = {1, want - 1}
    for _ in range(k):
        roots.add(rnd.randint(1, want - 1))
    return sorted(roots)


def _enum_sizes(tier):
    k = 3 if tier == "quick" else 24
    cases = [dict(part="sizes", what="table", size=12),
             dict(part="sizes", what="table", size=24)]
    for size in range(25, MAX_SIZE + 1):
        want = _largest_prime_le(size)
        cases.append(dict(part="sizes", what="prime", size=size,
                          root=1 + size % 22))
        if tier != "quick" and want < 64:
            roots = list(range(1, want))
        else:
            roots = _roots_for(size, want, k)
        cases.append(dict(part="sizes", what="cazac", size=size, roots=roots))
    for size in [12, 24] + list(range(25, MAX_SIZE + 1)):
        if size % 8 == 0 or size % 12 == 0:
            root = size % 30 if size <= 24 else 1 + size % 22
            cases.append(dict(part="sizes", what="shifts", size=size,
                              root=root))
    # contiguous chunks go to the shards: mix the sizes to balance the load
    random.Random(18).shuffle(cases)
    return cases


def _check_table(case, ctx):
    from pyphysim.reference_signals.root_sequence import RootSequence
    size = case["size"]
    ctx.label("sizes:table", _size_class(size))
    for root in range(30):
        tags = dict(what="table", size=size, root=root)
        with _tagged(tags):
            rs = RootSequence(root_index=root, size=size)
            a = np.asarray(rs.seq_array())
            rsize = rs.size
        if a.shape != (size,) or rsize != size:
            raise Violation("sequence_size", "size %d root %d: seq shape %r, "
                            ".size %r" % (size, root, a.shape, rsize), tags)
        ctx.close("unit_amplitude", np.max(np.abs(np.abs(a) - 1.0)), 1e-12,
                  "size %d root %d" % (size, root), tags)


def _base_sequence(root, nzc):
    """the un-extended Zadoff-Chu sequence of base length nzc as the library
    produces it (RootSequence only accepts lengths 12, 24 and > 24, so short
    base lengths come from calcBaseZC directly)"""
    from pyphysim.reference_signals.root_sequence import RootSequence
    from pyphysim.reference_signals.zadoffchu import calcBaseZC
    if nzc > 24:
        return np.asarray(RootSequence(root_index=root, Nzc=nzc).seq_array())
    return np.asarray(calcBaseZC(nzc, root))


def _check_prime(case, ctx):
    from pyphysim.reference_signals.root_sequence import RootSequence
    size, root = case["size"], case["root"]
    want = _largest_prime_le(size)
    tags = dict(what="prime", size=size, root=root, want=want)
    ctx.label("sizes:prime", _size_class(size))
    if size == want:
        ctx.label("size_is_prime")
    ctx.nontrivial(True)
    with _tagged(tags):
        rs = RootSequence(root_index=root, size=size)
        got = int(rs.Nzc)
        seq = np.asarray(rs.seq_array())
        rsize = rs.size
    tags["got"] = got
    if seq.shape != (size,) or rsize != size:
        raise Violation("sequence_size", "size %d: seq shape %r, .size %r" %
                        (size, seq.shape, rsize), tags)
    ctx.close("unit_amplitude", np.max(np.abs(np.abs(seq) - 1.0)), 1e-12,
              "size %d root %d" % (size, root), tags)
    if not (1 <= got <= size):
        raise Violation("prime_selection", "size %d: Nzc=%d outside 1..size"
                        % (size, got), tags)
    # extension = cyclic repetition of the un-extended sequence of the same
    # base length (judged with the library's own base length so that this is
    # still checked behind a wrong prime selection)
    if root < got:
        with _tagged(tags):
            base = _base_sequence(root, got)
        if base.shape != (got,):
            raise Violation("sequence_size", "un-extended sequence Nzc=%d has "
                            "shape %r" % (got, base.shape), tags)
        err = np.max(np.abs(seq - base[np.arange(size) % got]))
        ctx.close("cyclic_extension", err, 1e-12,
                  "size %d Nzc %d root %d" % (size, got, root), tags)
    # the prime selection itself comes last: the other sub-checks are still
    # evaluated for a size whose base length is wrong
    if got != want:
        raise Violation("prime_selection",
                        "size %d: base length Nzc=%d, largest prime <= size "
                        "is %d" % (size, got, want), tags)


def _cazac_errors(a):
    """(amplitude error, max |autocorrelation| at non-zero lags / N,
    max | |DFT| - sqrt(N) | / sqrt(N), direct-lag error / N)"""
    n = a.size
    amp = float(np.max(np.abs(np.abs(a) - 1.0)))
    A = np.fft.fft(a)
    R = np.fft.ifft(np.abs(A) ** 2)
    ac = float(np.max(np.abs(R[1:]))) / n if n > 1 else 0.0
    flat = float(np.max(np.abs(np.abs(A) - math.sqrt(n)))) / math.sqrt(n)
    direct = 0.0
    for lag in sorted({1, 2, n // 2, n - 1}):
        if 0 < lag < n:
            direct = max(direct, abs(np.vdot(a, np.roll(a, lag))) / n)
    return amp, ac, flat, direct


def _check_cazac(case, ctx):
    from pyphysim.reference_signals.root_sequence import RootSequence
    size = case["size"]
    want = _largest_prime_le(size)
    ctx.label("sizes:cazac", _size_class(size))
    ctx.nontrivial(True)
    ctx.count("cazac_roots", len(case["roots"]))
    for root in case["roots"]:
        tags = dict(what="cazac", size=size, root=root, want=want)
        with _tagged(tags):
            rs = RootSequence(root_index=root, size=size)
            nzc = int(rs.Nzc)
            a = np.asarray(rs.seq_array())[:nzc]
        tags["got"] = nzc
        amp, ac, flat, direct = _cazac_errors(a)
        d = "size %d Nzc %d root %d" % (size, nzc, root)
        ctx.close("unit_amplitude", amp, 1e-12, d, tags)
        ctx.close("cazac_autocorrelation", ac, 1e-6, d + " (relative to N)",
                  tags)
        ctx.close("cazac_autocorrelation", direct, 1e-6,
                  d + " (direct sum, relative to N)", tags)
        ctx.close("cazac_flat_spectrum", flat, 1e-6,
                  d + " (relative to sqrt N)", tags)


def _user_seq(kind, root_seq, n_cs, normalize, cover=None):
    from pyphysim.reference_signals.dmrs import DmrsUeSequence
    from pyphysim.reference_signals.srs import SrsUeSequence
    if normalize is False and n_cs % 2 == 1:
        # the documented default (normalize=False) left to the library
        if kind == "srs":
            return SrsUeSequence(root_seq, n_cs)
        if cover is None:
            return DmrsUeSequence(root_seq, n_cs)
        return DmrsUeSequence(root_seq, n_cs, cover_code=np.array(cover))
    if kind == "srs":
        return SrsUeSequence(root_seq, n_cs, normalize=normalize)
    if cover is None:
        return DmrsUeSequence(root_seq, n_cs, normalize=normalize)
    return DmrsUeSequence(root_seq, n_cs, cover_code=np.array(cover),
                          normalize=normalize)


def _check_shifts(case, ctx):
    from pyphysim.reference_signals.root_sequence import RootSequence
    size, root = case["size"], case["root"]
    ctx.label("sizes:shifts", _size_class(size))
    ctx.nontrivial(size > 24)
    for kind, D in (("srs", 8), ("dmrs", 12)):
        if size % D:
            continue
        ctx.label("shifts:" + kind)
        for normalize in (False, True):
            tags = dict(what="shifts", size=size, root=root, kind=kind,
                        normalize=normalize)
            with _tagged(tags):
                rs = RootSequence(root_index=root, size=size)
                rows = [np.asarray(_user_seq(kind, rs, n, normalize)
                                   .seq_array()) for n in range(D)]
            for r in rows:
                if r.shape != (size,):
                    raise Violation("sequence_size", "user sequence shape %r "
                                    "for size %d" % (r.shape, size), tags)
            R = np.array(rows)
            G = R @ R.conj().T
            energy = 1.0 if normalize else float(size)
            off = G - np.diag(np.diag(G))
            d = "%s size %d root %d normalize=%r" % (kind, size, root,
                                                     normalize)
            ctx.close("shift_orthogonality",
                      float(np.max(np.abs(off))) / energy, 1e-9,
                      d + " (max |<r_a,r_b>| relative to the energy)", tags)
            ctx.close("shift_energy",
                      float(np.max(np.abs(np.diag(G) - energy))) / energy,
                      1e-9, d, tags)


# ----------------------------------------------------------------------------
# generated: explicit extension
# ----------------------------------------------------------------------------
@st.composite
def _extension_cases(draw, tier):
    nzc = draw(st.sampled_from([p for p in _PRIMES if 3 <= p <= 1193]))
    lo = max(25, nzc)
    hi = max(lo, min(4 * nzc + 7, 2400))
    size = draw(st.one_of(
        st.integers(lo, hi),
        st.sampled_from([s for s in (nzc, nzc + 1, 2 * nzc - 1, 2 * nzc,
                                     2 * nzc + 1, 3 * nzc, 3 * nzc + 2)
                         if lo <= s <= hi] or [lo])))
    root = draw(st.integers(1, nzc - 1))
    n = draw(st.integers(1, 9))
    return dict(part="extension", Nzc=nzc, size=size, root=root, n=n,
                k=draw(st.integers(0, 30)))


def _check_extension(case, ctx):
    from pyphysim.reference_signals.root_sequence import RootSequence
    from pyphysim.reference_signals.zadoffchu import get_extended_ZF
    nzc, size, root = case["Nzc"], case["size"], case["root"]
    tags = dict(Nzc=nzc, size=size, root=root)
    reps = size // nzc
    ctx.label("ext:repeats=%s" % (reps if reps < 3 else ">=3"))
    if size % nzc == 0:
        ctx.label("ext:whole_repeats")
    ctx.nontrivial(size > nzc)
    with _tagged(tags):
        base = _base_sequence(root, nzc)
        rs = RootSequence(root_index=root, size=size, Nzc=nzc)
        seq = np.asarray(rs.seq_array())
        got_nzc, got_size = int(rs.Nzc), int(rs.size)
    if base.shape != (nzc,) or seq.shape != (size,) or got_nzc != nzc \
            or got_size != size:
        raise Violation("sequence_size", "Nzc=%d size=%d: base %r seq %r "
                        ".Nzc=%r .size=%r" % (nzc, size, base.shape,
                                              seq.shape, got_nzc, got_size),
                        tags)
    ctx.close("cyclic_extension",
              np.max(np.abs(seq - base[np.arange(size) % nzc])), 1e-12,
              "explicit Nzc=%d size=%d root=%d" % (nzc, size, root), tags)
    # the extension function on a plain integer array (exact)
    n, total = case["n"], case["n"] + case["k"]
    with _tagged(dict(n=n, total=total)):
        out = np.asarray(get_extended_ZF(np.arange(n), total))
    if out.shape != (total,) or \
            not np.array_equal(out, np.arange(total) % n):
        raise Violation("cyclic_extension", "get_extended_ZF(arange(%d), %d)"
                        " = %r" % (n, total, out.tolist()),
                        dict(n=n, total=total))


# ----------------------------------------------------------------------------
# generated: estimators
# ----------------------------------------------------------------------------
def _m_strategy(mmin, mmax, D):
    big = 1009 // D + 1            # first m with D*m > 1009
    return st.one_of(st.integers(mmin, mmax),
                     st.integers(mmin, min(mmax, mmin + 8)),
                     st.integers(big, mmax))


@st.composite
def _seq_params(draw, kind):
    D = 8 if kind == "srs" else 12
    m = draw(_m_strategy(3 if kind == "srs" else 1, MAX_SIZE // D, D))
    N = D * m
    if N <= 24:
        root = draw(st.integers(0, 29))
    else:
        q = _largest_prime_le(N)
        lowq = min(q - 1, 300)
        root = draw(st.one_of(st.integers(1, q - 1), st.integers(1, lowq),
                              st.integers(1, lowq), st.integers(1, 22),
                              st.integers(1, lowq), st.just(q - 1)))
    return D, m, N, root


_PROFILES = ["gauss", "gauss", "edge", "last", "decay", "steep", "antgain"]


def _chan(draw, lmax, tight_at=None):
    L = draw(st.one_of(st.just(lmax if tight_at is None else tight_at),
                       st.integers(1, lmax)))
    return dict(L=L, seed=draw(seeds),
                profile=draw(st.sampled_from(_PROFILES)),
                scale_exp=draw(st.sampled_from([0, 0, 0, -3, -1, 1, 3, -6,
                                                -9, -12])))


def _keep_st(W, D, dshifts):
    """number of kept taps minus one.  One shift window (N/D taps) when a
    neighbouring shift is occupied; up to two windows when the occupied
    shifts leave room (an interferer d shifts away fills taps from d*W or
    from (D-d)*W on, whatever the direction of the shift)."""
    gap = min([min(d, D - d) for d in dshifts] + [D])
    hi = min(gap, 2) * W - 1
    base = st.one_of(st.just(W - 1), st.integers(0, W - 1))
    N = W * D
    every = st.sampled_from([N - 1, N - 1, N, N + 3]) if not dshifts \
        else None       # "keep every tap": legal when nobody else transmits
    if hi > W - 1:
        opts = [base, base, st.integers(W, hi), st.just(hi)]
    else:
        opts = [base, base, base]
    if every is not None:
        opts.append(every)
    return st.one_of(*opts)


@st.composite
def _est_cases(draw, tier):
    kind = draw(st.sampled_from(["srs", "dmrs"]))
    D, m, N, root = draw(_seq_params(kind))
    W = N // D
    nmax = 3 if tier == "quick" else D - 1
    dshifts = draw(st.lists(st.integers(1, D - 1), unique=True, min_size=0,
                            max_size=nmax))
    K = draw(_keep_st(W, D, dshifts))
    normalize = draw(st.booleans())
    return dict(
        part="est", kind=kind, N=N, root=root, n_cs=draw(st.integers(0, D - 1)),
        normalize=normalize,
        as_array=(not normalize) and draw(st.booleans()),
        mult=draw(st.sampled_from([1, 2, None])),
        nr=draw(st.sampled_from([0, 0, 1, 2, 3, 4])),
        K=K, chan=_chan(draw, min(K + 1, N)),
        others=[dict(dshift=d, **_chan(draw, W)) for d in dshifts])


@st.composite
def _occ_cases(draw, tier):
    D, m, N, root = draw(_seq_params("dmrs"))
    W = N // D
    nmax = 3 if tier == "quick" else 8
    keys = draw(st.lists(st.tuples(st.integers(0, D - 1), st.integers(0, 3)),
                         unique=True, min_size=0, max_size=nmax))
    K = draw(_keep_st(W, D, [d for d, _ in keys if d]))
    others = []
    for d, c in keys:
        lmax = W if d else min(N, 2 * W + 3)
        others.append(dict(dshift=d, cover=c, **_chan(draw, lmax)))
    return dict(
        part="occ", N=N, root=root, n_cs=draw(st.integers(0, D - 1)),
        cover=draw(st.integers(0, 3)), normalize=draw(st.booleans()),
        nr=draw(st.sampled_from([0, 0, 1, 2, 3, 4])),
        extra_dimension=draw(st.booleans()),
        # number of reference symbols the cover code spans (LTE: 2)
        cover_len=draw(st.sampled_from([2, 2, 2, 4])),
        K=K, chan=_chan(draw, min(K + 1, N)), others=others)


def _taps(ch, nr):
    """deterministic impulse response, shape (nr, L); last tap non-zero"""
    L = ch["L"]
    rs = np.random.RandomState(ch["seed"])
    h = (rs.randn(nr, L) + 1j * rs.randn(nr, L)) / math.sqrt(2.0)
    prof = ch["profile"]
    if prof == "edge" and L > 2:
        h[:, 1:L - 1] = 0
    elif prof == "last" and L > 1:
        h[:, :L - 1] = 0
    elif prof == "decay":
        h = h * np.exp(-np.arange(L) / (1.0 + L / 4.0))[np.newaxis, :]
    elif prof == "steep" and L > 1:
        # the last tap is 1e-5 .. 1e-9 of the first one
        d = (5.0 + ch["seed"] % 5) / (L - 1)
        h = h * (10.0 ** (-d * np.arange(L)))[np.newaxis, :]
    elif prof == "antgain":
        # every further antenna is 1e-2 .. 1e-4 of the one before
        d = 2.0 + ch["seed"] % 3
        h = h * (10.0 ** (-d * np.arange(nr)))[:, np.newaxis]
    return h * (10.0 ** ch["scale_exp"])


def _other_cover(user_cover, idx, nc=2):
    """cover code of a same-shift user: orthogonal to the user's"""
    if nc == 4:
        sg = 1 if idx % 2 == 0 else -1
        return [sg * x for x in COVERS4[(user_cover + 1 + idx % 3) % 4]]
    a, b = COVERS[user_cover]
    s = 1 if idx % 2 == 0 else -1
    return [s * a, -s * b]


def _est_labels(ctx, part, case, W):
    N = case["N"]
    L = case["chan"]["L"]
    n_int = len(case["others"])
    ctx.label(part, _size_class(N), "%s:nr=%d" % (part, case["nr"]),
              "%s:interferers=%d" % (part, min(n_int, 4)),
              "%s:normalize=%r" % (part, case["normalize"]),
              "%s:profile=%s" % (part, case["chan"]["profile"]))
    if L == case["K"] + 1:
        ctx.label(part + ":L=K+1(tight)")
    if case["K"] + 1 == W:
        ctx.label(part + ":K+1=N/D(tight)")
    if case["K"] + 1 > W:
        ctx.label(part + ":K+1>N/D(neighbour shifts free)")
        if L > W:
            ctx.label(part + ":L>N/D")
    if any(o["L"] == W and o["dshift"] for o in case["others"]):
        ctx.label(part + ":interferer_fills_window")
    if L == 1:
        ctx.label(part + ":flat_channel")
    ctx.nontrivial((L >= 2 and n_int >= 1) or N > 1009)


def _after_estimate(ctx, part, r0_before, r0_after, out, again, tags):
    """the user's sequence is the same after the estimator used it (the
    next pilot slot is built from it), and the same observation gives the
    same estimate again"""
    if r0_after.shape != r0_before.shape or \
            not np.array_equal(r0_after, r0_before):
        raise Violation("user_sequence_modified", "the user sequence "
                        "(seq_array()) differs after the estimator was "
                        "built from it and used: amplitude %.6g -> %.6g" %
                        (float(np.abs(r0_before).max()),
                         float(np.abs(r0_after).max())), tags)
    if again is not None:
        ctx.label(part + ":same_observation_twice")
        if again.shape != out.shape or not np.array_equal(again, out):
            raise Violation("estimate_not_repeatable", "the same observation "
                            "and tap count gave another estimate the second "
                            "time (max difference %.3e)" %
                            (float(np.max(np.abs(again - out)))
                             if again.shape == out.shape else math.nan), tags)


def _per_antenna(ctx, name, out, want, srow, tags):
    """the estimator works antenna by antenna: every antenna's estimate is
    exact relative to what that antenna received"""
    if out.ndim != 2:
        return
    err = np.linalg.norm(out - want, axis=1)
    a = int(np.argmax(err - 1e-10 * srow))
    ctx.close(name, float(err[a]), 1e-10 * float(srow[a]),
              "antenna %d of %d (that antenna's scale %.3e, all %.3e)" %
              (a, out.shape[0], float(srow[a]), float(srow.sum())), tags)


def _check_est(case, ctx):
    from pyphysim.reference_signals.channel_estimation import \
        CazacBasedChannelEstimator
    from pyphysim.reference_signals.root_sequence import RootSequence
    kind, N, root = case["kind"], case["N"], case["root"]
    D = 8 if kind == "srs" else 12
    W = N // D
    K, nr, mult = case["K"], case["nr"], case["mult"]
    m = 2 if mult is None else mult
    nrr = max(nr, 1)
    tags = dict(kind=kind, size=N, root=root, mult=m, nr=nr,
                normalize=case["normalize"], n_interf=len(case["others"]),
                want=_largest_prime_le(N))
    _est_labels(ctx, "est", case, W)
    ctx.label("est:%s" % kind, "est:mult=%r" % mult)
    if case["as_array"]:
        ctx.label("est:seq_as_ndarray")

    # the normalisation flag as the caller has it: a Python bool, or a truthy
    # / falsy value from a parameter grid (numpy bool, int).  Whatever the
    # library makes of it, sequence and estimator must agree (est_exact).
    flag_kind = ["bool", "bool", "np.bool_", "int"][(root + N + K) % 4]
    norm_flag = {"bool": bool, "np.bool_": np.bool_, "int": int}[flag_kind](
        case["normalize"])
    ctx.label("est:normalize_flag=" + flag_kind)
    with _tagged(tags):
        root_seq = RootSequence(root_index=root, size=N)
        useq = _user_seq(kind, root_seq, case["n_cs"], norm_flag)
        r0 = np.asarray(useq.seq_array())
    h0 = _taps(case["chan"], nrr)
    H0_full = np.fft.fft(h0, m * N, axis=1)
    Y = H0_full[:, ::m] * r0[np.newaxis, :]
    scale = float(np.linalg.norm(H0_full))
    srow = np.linalg.norm(H0_full, axis=1)
    r0_before = r0.copy()
    for o in case["others"]:
        n_u = (case["n_cs"] + o["dshift"]) % D
        with _tagged(tags):
            ru = np.asarray(_user_seq(kind, root_seq, n_u,
                                      norm_flag).seq_array())
        hu = _taps(o, nrr)
        Hu_full = np.fft.fft(hu, m * N, axis=1)
        Y = Y + Hu_full[:, ::m] * ru[np.newaxis, :]
        scale += float(np.linalg.norm(Hu_full))
        srow = srow + np.linalg.norm(Hu_full, axis=1)

    # the root sequence object was shared by all users built above: it must
    # still have unit amplitude, and every user sequence the documented
    # amplitude (1, or 1/sqrt(N) when normalised)
    root_amp = np.abs(np.asarray(root_seq.seq_array()))
    ctx.close("root_amplitude_after_users",
              float(np.max(np.abs(root_amp - 1.0))), 1e-12,
              "the root sequence no longer has unit amplitude after user "
              "sequences were derived from it (amplitudes %.6g .. %.6g)" %
              (float(root_amp.min()), float(root_amp.max())), tags)
    if flag_kind == "bool":
        want_amp = 1.0 / math.sqrt(N) if case["normalize"] else 1.0
        ctx.close("user_amplitude",
                  float(np.max(np.abs(np.abs(r0) - want_amp))), 1e-12,
                  "user sequence amplitude %.6g, documented %.6g" %
                  (float(np.abs(r0).max()), want_amp), tags)

    with _tagged(tags):
        ref = r0 if case["as_array"] else useq
        if mult is None:
            est = CazacBasedChannelEstimator(ref)
        else:
            est = CazacBasedChannelEstimator(ref, size_multiplier=mult)
        Yin = np.ascontiguousarray(Y[0] if nr == 0 else Y)
        if (root + N) % 3 == 0 and K + 1 < W:
            # the SAME estimator object served another observation before,
            # keeping MORE taps (K shrinks from call to call)
            ctx.label("est:estimator_reused_with_more_taps_before")
            rsw = np.random.RandomState(root * 7919 + N)
            Yw = (rsw.randn(*Yin.shape) + 1j * rsw.randn(*Yin.shape)) * \
                float(np.max(np.abs(Yin)) + 1.0)
            est.estimate_channel_freq_domain(Yw, W - 1)
        out = np.asarray(est.estimate_channel_freq_domain(Yin, K))
        again = None
        if (root + K) % 3 == 0:
            out = out.copy()
            again = np.asarray(est.estimate_channel_freq_domain(Yin, K))
        r0_after = np.asarray(useq.seq_array())
    want = H0_full[0] if nr == 0 else H0_full
    if out.shape != want.shape:
        raise Violation("est_shape", "estimate shape %r, expected %r" %
                        (out.shape, want.shape), tags)
    _after_estimate(ctx, "est", r0_before, r0_after, out, again, tags)
    _per_antenna(ctx, "est_exact_per_antenna", out, want, srow, tags)
    ctx.close("est_exact", float(np.linalg.norm(out - want)), 1e-10 * scale,
              "%s N=%d root=%d shift=%d mult=%r nr=%d K=%d L=%d others=%r "
              "(scale %.3e)" % (kind, N, root, case["n_cs"], mult, nr, K,
                                case["chan"]["L"],
                                [(o["dshift"], o["L"])
                                 for o in case["others"]], scale), tags)


def _check_occ(case, ctx):
    from pyphysim.reference_signals.channel_estimation import \
        CazacBasedWithOCCChannelEstimator
    from pyphysim.reference_signals.root_sequence import RootSequence
    N, root, D = case["N"], case["root"], 12
    W = N // D
    K, nr = case["K"], case["nr"]
    nrr = max(nr, 1)
    same = [o for o in case["others"] if o["dshift"] == 0]
    tags = dict(kind="occ", size=N, root=root, nr=nr,
                normalize=case["normalize"], cover=case["cover"],
                extra_dimension=case["extra_dimension"],
                n_interf=len(case["others"]), same_shift_occ=bool(same),
                want=_largest_prime_le(N))
    _est_labels(ctx, "occ", case, W)
    nc = int(case.get("cover_len", 2))
    ctx.label("occ:cover=%r" % (_cover(case["cover"], nc),),
              "occ:extra_dimension=%r" % case["extra_dimension"])
    if same:
        ctx.label("occ:same_shift_orthogonal_cover")

    with _tagged(tags):
        root_seq = RootSequence(root_index=root, size=N)
        useq = _user_seq("dmrs", root_seq, case["n_cs"], case["normalize"],
                         _cover(case["cover"], nc))
        r0 = np.asarray(useq.seq_array())          # (nc, N)
    if r0.shape != (nc, N):
        raise Violation("sequence_size", "cover-code sequence shape %r" %
                        (r0.shape,), tags)
    h0 = _taps(case["chan"], nrr)
    H0 = np.fft.fft(h0, N, axis=1)                 # (nrr, N)
    Y = H0[:, np.newaxis, :] * r0[np.newaxis, :, :]
    scale = float(np.linalg.norm(H0))
    srow = np.linalg.norm(H0, axis=1)
    r0_before = r0.copy()
    for i, o in enumerate(case["others"]):
        n_u = (case["n_cs"] + o["dshift"]) % D
        cov = _cover(o["cover"], nc) if o["dshift"] else \
            _other_cover(case["cover"], o["cover"], nc)
        with _tagged(tags):
            ru = np.asarray(_user_seq("dmrs", root_seq, n_u,
                                      case["normalize"], cov).seq_array())
        Hu = np.fft.fft(_taps(o, nrr), N, axis=1)
        Y = Y + Hu[:, np.newaxis, :] * ru[np.newaxis, :, :]
        scale += float(np.linalg.norm(Hu))
        srow = srow + np.linalg.norm(Hu, axis=1)

    if nr == 0:
        Yin = Y[0]
        if not case["extra_dimension"]:
            Yin = Yin.reshape(-1)
    else:
        Yin = Y
        if not case["extra_dimension"]:
            Yin = Yin.reshape(nr, -1)
    Yin = np.ascontiguousarray(Yin)
    with _tagged(tags):
        est = CazacBasedWithOCCChannelEstimator(useq)
        if case["extra_dimension"] and (root + K) % 2 == 0:
            # the documented default layout, keyword left to the library
            ctx.label("occ:extra_dimension_default_omitted")
            out = np.asarray(est.estimate_channel_freq_domain(Yin, K))
        else:
            out = np.asarray(est.estimate_channel_freq_domain(
                Yin, K, extra_dimension=case["extra_dimension"]))
        again = None
        if (root + K) % 3 == 0:
            out = out.copy()
            again = np.asarray(est.estimate_channel_freq_domain(
                Yin, K, extra_dimension=case["extra_dimension"]))
        r0_after = np.asarray(useq.seq_array())
    want = H0[0] if nr == 0 else H0
    if out.shape != want.shape:
        raise Violation("est_shape", "OCC estimate shape %r, expected %r" %
                        (out.shape, want.shape), tags)
    _after_estimate(ctx, "occ", r0_before, r0_after, out, again, tags)
    _per_antenna(ctx, "est_occ_per_antenna", out, want, srow, tags)
    name = "est_occ_same_shift" if same else "est_occ_exact"
    ctx.close(name, float(np.linalg.norm(out - want)), 1e-10 * scale,
              "N=%d root=%d shift=%d cover=%r nr=%d K=%d L=%d extra_dim=%r "
              "others=%r (scale %.3e)" %
              (N, root, case["n_cs"], _cover(case["cover"], nc), nr, K,
               case["chan"]["L"], case["extra_dimension"],
               [(o["dshift"], o["cover"], o["L"]) for o in case["others"]],
               scale), tags)


# ----------------------------------------------------------------------------
# generated: least squares
# ----------------------------------------------------------------------------
def _ls_cases(tier):
    ntmax = 4 if tier == "quick" else 8
    kmax = 3.0 if tier == "quick" else 4.0
    return st.fixed_dictionaries(dict(
        part=st.just("ls"),
        Nt=st.integers(1, ntmax),
        extra=st.one_of(st.just(0), st.integers(0, 12)),
        Nr=st.integers(1, 4),
        kappa_exp=st.one_of(st.just(0.0), fl(0.0, kmax), st.just(kmax)),
        fracs=st.lists(fl(0.0, 1.0).map(lambda x: round(x, 4)),
                       min_size=8, max_size=8),
        scale_exp=st.sampled_from([0, 0, -3, -1, 1, 3]),
        seed=seeds,
        # pilot instants on which nothing is sent (comb / punctured pilots):
        # exactly-zero columns, the matrix keeps full row rank
        zero_cols=st.sampled_from([0, 0, 1, 2, 3]),
        conv=st.sampled_from(["2d", "3d_shared", "3d_per"]),
        nreal=st.integers(1, 3),
        real=st.sampled_from([False, False, False, True]),
        # real pilots (Hadamard / BPSK) with a complex channel
        real_pilots=st.sampled_from([False, False, True]),
    ))


def _pilot_matrix(rs, Nt, Np, sv, real, nzero=0):
    def g(*shape):
        if real:
            return rs.randn(*shape)
        return rs.randn(*shape) + 1j * rs.randn(*shape)
    Nu = Np - nzero                          # instants that carry a pilot
    U = np.linalg.qr(g(Nt, Nt))[0]
    V = np.linalg.qr(g(Nu, Nt))[0]           # Nu x Nt, orthonormal columns
    s = U @ np.diag(sv) @ V.conj().T         # Nt x Nu, singular values sv
    if nzero:
        full = np.zeros((Nt, Np), dtype=s.dtype)
        keep = np.sort(rs.permutation(Np)[:Nu])
        full[:, keep] = s
        s = full
    return s


def _check_ls(case, ctx):
    from pyphysim.channel_estimation.estimators import compute_ls_estimation
    Nt, Nr, Np = case["Nt"], case["Nr"], case["Nt"] + case["extra"]
    kappa = 10.0 ** case["kappa_exp"]
    real, conv, nreal = case["real"], case["conv"], case["nreal"]
    f = [0.0] + list(case["fracs"][:max(Nt - 2, 0)]) + [1.0]
    sv = np.array([kappa ** (-x) for x in f[:Nt]]) if Nt > 1 \
        else np.array([1.0])
    if Nt > 1:
        sv[-1] = 1.0 / kappa
    sv = sv * 10.0 ** case["scale_exp"]
    tags = dict(kind="ls", Nt=Nt, Nr=Nr, Np=Np, conv=conv, real=real)
    ctx.label("ls", "ls:conv=%s" % conv, "ls:Nt=%d" % Nt,
              "ls:real" if real else "ls:complex",
              "ls:square_pilots" if Np == Nt else "ls:wide_pilots",
              "ls:kappa<10" if kappa < 10 else
              ("ls:kappa<100" if kappa < 100 else "ls:kappa>=100"))
    nz = min(int(case.get("zero_cols", 0)), Np - Nt)
    if nz:
        ctx.label("ls:zero_pilot_instants")
    ctx.nontrivial(Nt >= 2 or nz > 0)
    rs = np.random.RandomState(case["seed"])
    real_p = real or bool(case.get("real_pilots"))
    if real_p and not real:
        ctx.label("ls:real_pilots_complex_channel")

    def chan():
        if real:
            return rs.randn(Nr, Nt)
        return (rs.randn(Nr, Nt) + 1j * rs.randn(Nr, Nt)) / math.sqrt(2.0)

    if conv == "2d":
        s = _pilot_matrix(rs, Nt, Np, sv, real_p, nz)
        H = chan()
        Y = H @ s
    elif conv == "3d_shared":
        s = _pilot_matrix(rs, Nt, Np, sv, real_p, nz)
        H = np.array([chan() for _ in range(nreal)])
        Y = H @ s
    else:
        s = np.array([_pilot_matrix(rs, Nt, Np, sv, real_p, nz)
                      for _ in range(nreal)])
        H = np.array([chan() for _ in range(nreal)])
        Y = H @ s
    with _tagged(tags):
        out = np.asarray(compute_ls_estimation(Y, s))
    if out.shape != H.shape:
        raise Violation("ls_shape", "estimate shape %r, expected %r" %
                        (out.shape, H.shape), tags)
    ctx.close("ls_exact", float(np.linalg.norm(out - H)),
              1e-13 * kappa ** 2 * float(np.linalg.norm(H)),
              "Nt=%d Np=%d Nr=%d kappa=%.3g conv=%s real=%r" %
              (Nt, Np, Nr, kappa, conv, real), tags)


# ----------------------------------------------------------------------------
PARTS = [
    Part("sizes", enumerate=_enum_sizes, exhaustive=True, quick_shards=8,
         thorough_shards=16),
    Part("extension", _extension_cases, quick=1200, thorough=40000,
         quick_shards=4),
    Part("est", _est_cases, quick=3200, thorough=160000, quick_shards=8),
    Part("occ", _occ_cases, quick=2400, thorough=120000, quick_shards=8),
    Part("ls", _ls_cases, quick=1600, thorough=80000, quick_shards=4),
]

_SIZES_CHECKS = dict(table=_check_table, prime=_check_prime,
                     cazac=_check_cazac, shifts=_check_shifts)


def check(case, ctx):
    part = case["part"]
    if part == "sizes":
        return _SIZES_CHECKS[case["what"]](case, ctx)
    if part == "extension":
        return _check_extension(case, ctx)
    if part == "est":
        return _check_est(case, ctx)
    if part == "occ":
        return _check_occ(case, ctx)
    if part == "ls":
        return _check_ls(case, ctx)
    raise AssertionError("unknown part %r" % (part,))


# ----------------------------------------------------------------------------
# every direct library call made by this check must leave the arrays handed
# to it unchanged (core.GuardedCalls)
# ----------------------------------------------------------------------------
def _guard_targets():
    from pyphysim.channel_estimation import estimators
    from pyphysim.reference_signals import channel_estimation as ce
    t = [(estimators, "compute_ls_estimation")]
    for name in ("CazacBasedChannelEstimator",
                 "CazacBasedWithOCCChannelEstimator"):
        t += [(getattr(ce, name), n) for n in ("__init__",
                                               "estimate_channel_freq_domain")]
    return t


_unguarded_check = check


def check(case, ctx):  # noqa: F811
    from ..core import GuardedCalls
    with GuardedCalls(_guard_targets(), dict(part=case.get("part"))):
        return _unguarded_check(case, ctx)
