"""C17 - saving and loading simulation parameters / results loses nothing
(JSON and pickle, strings and files, file names derived from templates)."""
import functools
import json
import math
import os
import shutil
import tempfile

import numpy as np
from hypothesis import strategies as st

from ..core import Part, Violation

PROPERTY = "C17"
LEVEL = "exploration"
RULE = ("Part 'params': SimulationParameters with 1..6 parameters drawn "
        "recursively from the supported values (Python ints of any size, "
        "finite floats incl. -0.0/subnormals, numpy scalars int32/int64/"
        "float32/float64 and - as a labelled minority - the other widths, "
        "unicode strings, nested lists, sets of hashable scalars, real arrays "
        "of 1..3 dimensions in eight dtypes (float arrays may contain +-inf), "
        "empty arrays), any subset of the "
        "iterable parameters marked unpacked, up to 3 unpacked children (first two, last); "
        "targets to_dict/from_dict, to_json/from_json (two generations), "
        "pickle file.  Part 'results': SimulationResults with such parameters, "
        "1..3 named results x 1..3 stored Result objects of all four types "
        "with 1..6 updates, accumulation on/off, runned_reps, current_rep; "
        "targets to_dict, to_json, save_to_file/load_from_file for .pickle, "
        ".json and no extension with a template embedding scalar/array "
        "parameters, each Result alone.  Part 'filename': template names for "
        "equal values and for one changed scalar (fields '{n}', '{n!s}' or "
        "'{n!s:>{fw}}').  non-trivial = the object "
        "contains a numpy scalar, array or set AND has >= 1 unpacked "
        "parameter (filename part: >= 2 embedded parameters); distinct = "
        "SHA-1 of the case.")
RULE += (" Added after the white-box review: "
         "histories may end with a merge with a non-empty result; "
         "names without extension are also loaded without it; embedded "
         "strings may contain non-ASCII letters ")
RULE += (" Added after the second white-box review: results objects may "
         "hold an unpacked CHILD of the parameters (one combination); the "
         "images compared before/after a round trip also contain what the "
         "objects themselves hold (values, totals, update counts, "
         "parameter values, unpack index, number of variations), not only "
         "the library's to_dict(); the '{n:d}' spec must succeed for "
         "Python and numpy integers and give format(int(v), 'd'). ")

LEVEL_TEXT = ("Generated-input search (Hypothesis, seeded, sharded) over "
              "parameter dictionaries, unpacked marks, result histories and "
              "file-name templates; oracle = inverse (load(save(x)) == x) "
              "judged by the library's == AND an independent field-by-field "
              "deep comparison, second-generation fixed point, and "
              "injectivity/determinism of template file names. Absence of "
              "violations is not proven.")
LEVEL_NOTE = ("exact comparisons only; dtype widening (int32 -> int, float32 "
              "-> float64 array) is not counted as a loss, a change of "
              "integer-ness/float-ness, container type, shape, order or value "
              "is; NaN, complex, bool, None, tuples and dicts are outside the "
              "listed domain; longdouble scalars only with float64-"
              "representable values")
TECHNIQUE = ("property-based testing (Hypothesis): round-trip (inverse) "
             "oracle with independent deep comparison, idempotence of the "
             "second generation, metamorphic file-name relation")
ASSUMPTIONS = [
    "values are restricted to the types listed in the statement; lists hold "
    "scalars/strings/lists, sets hold hashable scalars/strings, arrays are "
    "top-level parameter values",
    "np.longdouble scalars carry float64-representable values (JSON has no "
    "wider number)",
    "dtype widening is not a loss; number kind (integer vs float), container "
    "type, array shape, list order and every value must survive",
    "JSON texts are compared structurally (set members sorted), not byte for "
    "byte, because set iteration order is not part of the value",
    "file-name injectivity is only demanded for two values of the SAME "
    "scalar type that compare unequal; names derived from a re-loaded object "
    "are compared only for embedded Python int/float/str, np.int32/int64/"
    "float64 scalars and int64/float64 1-D arrays",
    "embedded strings are ASCII alphanumerics, embedded ints below 1e30 "
    "(file-system limits)",
    "every stored Result has >= 1 update (Result.create always updates once)",
]

NP_COMMON = ("int32", "int64", "float32", "float64")
NP_EXOTIC = ("int8", "int16", "uint8", "uint16", "uint32", "uint64",
             "float16", "longdouble")
_HANDLED = set(NP_COMMON) | {"longdouble"}
_FLOAT_NARROW = ("float16", "float32", "longdouble")
_FLOAT_WIDTH = {"float16": 16, "float32": 32, "float64": 64,
                "longdouble": 64}
ARRAY_DTYPES = ("int8", "int16", "int32", "int64", "uint8", "uint64",
                "float32", "float64")


# ----------------------------------------------------------------------------
# value descriptors (plain data) and their strategies
# ----------------------------------------------------------------------------
@functools.lru_cache(maxsize=None)
def _np_value(dtype, small=False):
    if dtype in _FLOAT_WIDTH:
        if small:
            return st.integers(-64, 64).map(lambda k: k / 8.0)
        return st.floats(width=_FLOAT_WIDTH[dtype], allow_nan=False,
                         allow_infinity=False)
    info = np.iinfo(dtype)
    lo, hi = int(info.min), int(info.max)
    if small:
        return st.integers(max(lo, -10), min(hi, 10))
    return st.one_of(st.integers(lo, hi), st.integers(max(lo, -5), 5),
                     st.sampled_from([lo, hi]))


@functools.lru_cache(maxsize=None)
def _np_scalar(dtypes, small=False):
    return st.sampled_from(dtypes).flatmap(
        lambda dt: _np_value(dt, small).map(
            lambda v: dict(t="np", dtype=dt, v=v)))


@functools.lru_cache(maxsize=None)
def _py_int(big=True):
    if big:
        s = st.one_of(st.integers(-2**70, 2**70), st.integers(-1000, 1000),
                      st.sampled_from([2**31, 2**63, -2**63 - 1, 2**64]))
    else:
        s = st.integers(-10**12, 10**12)
    return s.map(lambda v: dict(t="int", v=v))


@functools.lru_cache(maxsize=None)
def _py_float(wide=True):
    if wide:
        s = st.one_of(
            st.floats(allow_nan=False, allow_infinity=False),
            st.sampled_from([-0.0, 0.0, 5e-324, 2.2250738585072014e-308,
                             1.7976931348623157e308, 0.1, 0.75, 1e22, 1e-7]))
    else:
        s = st.floats(min_value=-1e6, max_value=1e6, allow_nan=False)
    return s.map(lambda v: dict(t="float", v=v))


@functools.lru_cache(maxsize=None)
def _text():
    return st.one_of(st.text(max_size=8),
                     st.text(alphabet="abcXYZ019 _-", max_size=6)).map(
                         lambda v: dict(t="str", v=v))


@functools.lru_cache(maxsize=None)
def _scalar(exotic):
    opts = [_py_int(), _py_float(), _np_scalar(NP_COMMON),
            _np_scalar(NP_COMMON), _text()]
    if exotic:
        opts.append(_np_scalar(NP_EXOTIC))
    return st.one_of(*opts)


@functools.lru_cache(maxsize=None)
def _list(exotic):
    sc = _scalar(exotic)
    inner = st.recursive(
        sc, lambda ch: st.lists(ch, max_size=4).map(
            lambda v: dict(t="list", v=v)), max_leaves=8)
    return st.lists(inner, max_size=5).map(lambda v: dict(t="list", v=v))


@functools.lru_cache(maxsize=None)
def _set(exotic):
    return st.lists(_scalar(exotic), max_size=5).map(
        lambda v: dict(t="set", v=v))


@functools.lru_cache(maxsize=None)
def _array(dtypes=ARRAY_DTYPES, one_d=False, min_len=0):
    return _array_c(dtypes, one_d, min_len)


@st.composite
def _array_c(draw, dtypes, one_d, min_len):
    dt = draw(st.sampled_from(dtypes))
    kind = draw(st.sampled_from(["1d", "1d", "2d", "3d", "empty",
                                 "zero_dim"]))
    if one_d:
        kind = "1d"
    if kind == "empty":
        shape = [0]
    elif kind == "zero_dim":
        shape = draw(st.sampled_from([[0, 3], [2, 0], [1, 0, 2]]))
    else:
        nd = int(kind[0])
        shape = [draw(st.integers(max(1, min_len), 6 if nd == 1 else 3))
                 for _ in range(nd)]
    size = 1
    for s in shape:
        size *= s
    mode = draw(st.sampled_from(["any", "range", "small"]))
    if mode == "range" and size:
        a0 = draw(st.integers(0, 20))
        stp = draw(st.integers(1, 5))
        vals = [a0 + stp * i for i in range(size)]
        if dt in ("int8", "uint8"):
            vals = [v % 100 for v in vals]
        if dt in _FLOAT_WIDTH:
            vals = [v / 2.0 for v in vals]
    else:
        vals = draw(st.lists(_np_value(dt, small=(mode == "small")),
                             min_size=size, max_size=size))
        if dt in _FLOAT_WIDTH and size and draw(st.integers(0, 5)) == 0:
            # a sweep that ends in (or contains) an infinite value
            vals = list(vals)
            vals[-1] = math.inf
            if size >= 2 and draw(st.booleans()):
                vals[draw(st.integers(0, size - 2))] = -math.inf
    # memory layout of the array handed to the library: C order, Fortran
    # order, a transposed view or a strided view (same logical values)
    layout = "C"
    if len(shape) >= 2 and size:
        layout = draw(st.sampled_from(["C", "C", "F", "T", "strided"]))
    elif len(shape) == 1 and size:
        layout = draw(st.sampled_from(["C", "C", "C", "strided"]))
    return dict(t="array", dtype=dt, shape=shape, v=vals, layout=layout)


@functools.lru_cache(maxsize=None)
def _value(exotic):
    return st.one_of(_scalar(exotic), _scalar(exotic), _list(exotic),
                     _set(exotic), _array(), _array())


_PNAMES = ["snr", "Alpha", "zeta", "M", "mod_name", "x1", "beta", "N0",
           "unicode_é", "k"]


def _iterable_len(d):
    t = d["t"]
    if t == "str":
        return len(d["v"])
    if t == "list":
        return len(d["v"])
    if t == "set":
        return None            # size after de-duplication: decided at build
    if t == "array":
        return d["shape"][0]
    return -1                  # not iterable


@st.composite
def _param_dict(draw, max_params=6, exotic=None):
    if exotic is None:
        exotic = draw(st.sampled_from([False, False, False, False, True]))
    n = draw(st.integers(1, max_params))
    names = draw(st.permutations(_PNAMES))[:n]
    params = []
    for nm in names:
        d = draw(_value(exotic))
        want = draw(st.sampled_from([False, True, True]))
        params.append(dict(name=nm, value=d, unpack=bool(
            want and _iterable_len(d) != -1)))
    return dict(params=params, exotic=exotic,
                use_create=draw(st.booleans()))


def _params_case(tier):
    return _param_dict().map(lambda p: dict(part="params", **p))


# ---- results -----------------------------------------------------------------
_RNAMES = ["ber", "ser", "Count", "misc_val", "choice", "zz"]
_TYPES = ("SUM", "RATIO", "MISC", "CHOICE")


@functools.lru_cache(maxsize=None)
def _obs(typ, choice_num, exotic, family=None):
    if typ == "SUM":
        # one numeric family per result: mixing e.g. an unsigned numpy
        # scalar with a negative Python int is an arithmetic error of the
        # caller, not a serialisation question
        if family == "pyint":
            v = _py_int(False)
        elif family == "pyfloat":
            v = _py_float(False)
        elif family == "pymixed":
            v = st.one_of(_py_int(False), _py_float(False))
        else:
            v = _np_scalar((family,), small=True)
        return st.tuples(v, st.none()).map(list)
    if typ == "RATIO":
        py = st.tuples(st.integers(0, 1000).map(lambda v: dict(t="int", v=v)),
                       st.integers(1, 1000).map(lambda v: dict(t="int", v=v)))
        npy = st.tuples(
            st.integers(0, 50).map(lambda v: dict(t="np", dtype="int64",
                                                  v=v)),
            st.integers(1, 50).map(lambda v: dict(t="np", dtype="int64",
                                                  v=v)))
        # a rate per elapsed time / a weighted count: float value and total
        # (quarters: sums stay exact)
        pyf = st.tuples(
            st.integers(0, 400).map(lambda v: dict(t="float", v=v / 4.0)),
            st.integers(1, 400).map(lambda v: dict(t="float", v=v / 4.0)))
        return st.one_of(py, py, npy, pyf).map(list)
    if typ == "CHOICE":
        idx = st.integers(0, choice_num - 1)
        return st.tuples(st.one_of(
            idx.map(lambda v: dict(t="int", v=v)),
            idx.map(lambda v: dict(t="int", v=v)),
            idx.map(lambda v: dict(t="np", dtype="int64", v=v))),
            st.none()).map(list)
    return st.tuples(st.one_of(_scalar(exotic), _list(exotic), _set(exotic)),
                     st.none()).map(list)


@st.composite
def _result_spec(draw, name, nvar, exotic, tier):
    typ = draw(st.sampled_from(_TYPES))
    choice_num = draw(st.integers(1, 6)) if typ == "CHOICE" else None
    nmax = 6 if tier == "quick" else 12
    family = None
    if typ == "SUM":
        fams = ["pyint", "pyfloat", "pymixed"] + list(NP_COMMON)
        if exotic:
            fams += list(NP_EXOTIC) * 2
        family = draw(st.sampled_from(fams))
    hist = [draw(st.lists(_obs(typ, choice_num, exotic, family), min_size=1,
                          max_size=nmax)) for _ in range(nvar)]
    # a result that was never updated (what combine_simulation_results leaves
    # for a parameter value without source) and a result whose last operation
    # was a merge with such an empty result
    if draw(st.integers(0, 9)) == 0:
        hist[draw(st.integers(0, nvar - 1))] = []
    return dict(name=name, type=typ, choice_num=choice_num,
                acc=draw(st.booleans()), create=draw(st.booleans()),
                histories=hist,
                tail=draw(st.sampled_from([None, None, None, "merge_empty",
                                           "merge_other", "merge_other"])))



def _embeddable(p):
    d = p["value"]
    if d["t"] == "int":
        return abs(d["v"]) < 10**30
    if d["t"] == "float":
        return True
    if d["t"] == "np":
        return d["dtype"] in ("int32", "int64", "float64")
    if d["t"] == "str":
        return d["v"].isalnum() and d["v"].isascii()
    if d["t"] == "array":
        return (d["dtype"] in ("int64", "float64") and len(d["shape"]) == 1
                and d["shape"][0] >= 1
                and all(abs(x) < 1e15 for x in d["v"]))
    return False


@st.composite
def _results_case(draw, tier):
    pd = draw(_param_dict(max_params=4))
    exotic = pd["exotic"]
    # make sure file-name templates have something to embed
    extra = draw(st.lists(st.tuples(
        st.sampled_from(["age", "temp", "factor", "label", "grid"]),
        st.one_of(st.integers(-10**6, 10**6).map(lambda v: dict(t="int",
                                                                 v=v)),
                  _py_float(),
                  st.text(alphabet="abcXYZ019", min_size=1, max_size=6).map(
                      lambda v: dict(t="str", v=v)),
                  _np_scalar(("int32", "int64", "float64")),
                  _array(dtypes=("int64", "float64"), one_d=True,
                         min_len=1))), max_size=3, unique_by=lambda t: t[0]))
    for nm, d in extra:
        pd["params"].append(dict(name=nm, value=d, unpack=False))
    cand = [p["name"] for p in pd["params"] if _embeddable(p)]
    embed = [nm for nm in cand if draw(st.booleans())]
    nvar = draw(st.sampled_from([1, 1, 2, 3]))
    nres = draw(st.integers(1, 3))
    names = draw(st.permutations(_RNAMES))[:nres]
    results = [draw(_result_spec(nm, nvar, exotic, tier)) for nm in names]
    rr = draw(st.sampled_from(["none", "int", "list", "list"]))
    if rr == "none":
        runned = None
    elif rr == "int":
        runned = draw(st.integers(0, 10**6))
    else:
        runned = draw(st.lists(st.integers(0, 10**6), min_size=nvar,
                               max_size=nvar))
    cur = draw(st.one_of(st.just(-1), st.just(-1), st.integers(0, 10**5)))
    # the results may belong to ONE combination of the unpacked parameters
    # (what the runner stores per variation): index into the children
    child = draw(st.one_of(st.none(), st.integers(0, 11)))
    return dict(part="results", params=pd["params"], exotic=exotic,
                use_create=pd["use_create"], results=results,
                runned_reps=runned, current_rep=cur, embed=embed,
                child=child)


# ---- filename ------------------------------------------------------------------
@st.composite
def _scalar_pair(draw, ints_only=False):
    """two descriptors of the same scalar type; second may equal the first"""
    kind = draw(st.sampled_from(["int", "np"] if ints_only else
                                ["int", "float", "str", "np"]))
    if kind == "int":
        g = st.integers(-10**29, 10**29).map(lambda v: dict(t="int", v=v))
        near = lambda d: dict(t="int", v=d["v"] + 1)            # noqa
    elif kind == "float":
        g = _py_float()
        near = lambda d: dict(t="float", v=math.nextafter(    # noqa
            d["v"], math.inf))
    elif kind == "str":
        # (labels such as 'ZF:SIC', 'MMSE|ZF', 'ML*': characters some file
        # systems dislike are part of the value like any other)
        g = st.text(alphabet="abcXYZ019\u03b1\u03b2\u00e9\u00fc:|*?_<>",
                    min_size=1, max_size=8).map(
            lambda v: dict(t="str", v=v))

        def near(d):
            v = d["v"]
            for i, ch in enumerate(v):
                if ch in ":|*?<>":
                    # the same label written with an underscore
                    return dict(t="str", v=v[:i] + "_" + v[i + 1:])
            return dict(t="str", v=v[:-1] + (
                "\u03b2" if v[-1] == "\u03b1" else "\u03b1"))
    else:
        dt = draw(st.sampled_from(("int32", "int64", "int16", "uint64",
                                   "uint8") if ints_only else
                                  NP_COMMON + ("float16", "int16",
                                               "uint64")))
        g = _np_value(dt).map(lambda v: dict(t="np", dtype=dt, v=v))
        near = None
    a = draw(g)
    how = draw(st.sampled_from(["other", "near", "same"]))
    if how == "near" and near is not None:
        b = near(a)
        if b["t"] == "float" and (b["v"] == float("inf")):
            b = a
    elif how == "same":
        b = dict(a)
    else:
        b = draw(g)
    return [a, b]


@st.composite
def _filename_case(draw, tier):
    n = draw(st.integers(1, 4))
    names = draw(st.permutations(["age", "temp", "factor", "label", "M",
                                  "snr"]))[:n]
    spec = draw(st.sampled_from([None, None, "conv_s", "nested_width",
                                 "int_d", "int_d"]))
    # a numeric spec is mostly used with integer parameters (Python or
    # numpy integers: elements of an unpacked integer array)
    ints = spec == "int_d" and draw(st.integers(0, 3)) > 0
    base = [dict(name=nm, pair=draw(_scalar_pair(ints_only=ints)))
            for nm in names]
    arr = draw(st.one_of(st.none(), _array(dtypes=("int64", "float64",
                                                   "int32", "float32"),
                                           one_d=True, min_len=1)))
    changed = draw(st.integers(0, n - 1))
    return dict(part="filename", scalars=base, array=arr, changed=changed,
                ext=draw(st.sampled_from([".pickle", ".json", ""])),
                sep=draw(st.sampled_from(["_", "-", "_x_"])),
                # how the scalars are referenced: '{name}', '{name!s}', or
                # right-aligned in a field whose width is another parameter
                # ('{name!s:>{fw}}': nested replacement field of str.format)
                spec=spec)


PARTS = [
    Part("params", _params_case, quick=1600, thorough=40000),
    Part("results", _results_case, quick=1400, thorough=35000),
    Part("filename", _filename_case, quick=800, thorough=20000),
]


# ----------------------------------------------------------------------------
# building objects from descriptors
# ----------------------------------------------------------------------------
def _build(d):
    t = d["t"]
    if t == "int":
        return int(d["v"])
    if t == "float":
        return float(d["v"])
    if t == "str":
        return str(d["v"])
    if t == "np":
        return getattr(np, d["dtype"])(d["v"])
    if t == "list":
        return [_build(x) for x in d["v"]]
    if t == "set":
        return set(_build(x) for x in d["v"])
    if t == "array":
        a = np.array(d["v"], dtype=d["dtype"]).reshape(d["shape"])
        layout = d.get("layout", "C")
        if layout == "F":
            a = np.asfortranarray(a)
        elif layout == "T":
            # a transposed VIEW with the same logical content
            a = np.ascontiguousarray(a.T).T
        elif layout == "strided":
            big = np.zeros(tuple(2 * n for n in a.shape), dtype=a.dtype)
            view = big[tuple(slice(None, None, 2) for _ in a.shape)]
            view[...] = a
            a = view
        return a
    raise AssertionError(t)


def _np_types_in(obj, out):
    """names of the numpy SCALAR types reachable in obj (incl. the elements
    an unpacked 1-D array hands to its children)"""
    if isinstance(obj, np.generic):
        out.add(type(obj).__name__)
    elif isinstance(obj, (list, set, tuple)):
        for x in obj:
            _np_types_in(x, out)
    elif isinstance(obj, dict):
        for x in obj.values():
            _np_types_in(x, out)
    return out


def _flags(objs, unpacked_arrays=()):
    names = set()
    for o in objs:
        _np_types_in(o, names)
    for a in unpacked_arrays:
        if a.ndim == 1:
            names.add(a.dtype.type.__name__)
    norm = set("longdouble" if n in ("float128", "longdouble") else n
               for n in names)
    return dict(
        has_unhandled_np_scalar=bool(norm - _HANDLED),
        has_narrow_np_float=bool(norm & set(_FLOAT_NARROW)))


def _make_params(SimulationParameters, plist, use_create):
    values = [(p["name"], _build(p["value"])) for p in plist]
    if use_create:
        sp = SimulationParameters.create(dict(values))
    else:
        sp = SimulationParameters()
        for nm, v in values:
            sp.add(nm, v)
    total = 1
    marked = []
    for p in plist:
        if not p["unpack"]:
            continue
        ln = len(sp[p["name"]])
        if total * max(ln, 1) > 24:
            continue
        total *= max(ln, 1)
        sp.set_unpack_parameter(p["name"])
        marked.append(p["name"])
    return sp, marked


def _make_result(Result, spec, hist):
    code = getattr(Result, spec["type"] + "TYPE")
    acc = bool(spec["acc"])
    obs = [(_build(v), None if t is None else _build(t)) for v, t in hist]
    start = 0
    if spec["create"] and obs:
        v, t = obs[0]
        if spec["type"] == "CHOICE":
            r = Result.create(spec["name"], code, v, spec["choice_num"],
                              accumulate_values=acc)
        elif spec["type"] == "RATIO":
            r = Result.create(spec["name"], code, v, t,
                              accumulate_values=acc)
        else:
            r = Result.create(spec["name"], code, v, accumulate_values=acc)
        start = 1
    else:
        r = Result(spec["name"], code, accumulate_values=acc,
                   choice_num=spec["choice_num"])
    for v, t in obs[start:]:
        if spec["type"] == "RATIO":
            r.update(v, t)
        else:
            r.update(v)
    if spec.get("tail") == "merge_empty":
        r.merge(Result(spec["name"], code, accumulate_values=acc,
                       choice_num=spec["choice_num"]))
    if spec.get("tail") == "merge_other" and obs:
        # what the runner builds on every repetition: a result that was
        # merged with another NON-empty result (here: one holding the same
        # observations again)
        other = Result(spec["name"], code, accumulate_values=acc,
                       choice_num=spec["choice_num"])
        for v, t in obs:
            if spec["type"] == "RATIO":
                other.update(v, t)
            else:
                other.update(v)
        r.merge(other)
    return r


# ----------------------------------------------------------------------------
# independent deep comparison
# ----------------------------------------------------------------------------
def _kind(x):
    if isinstance(x, (bool, np.bool_)):
        return "bool"
    if isinstance(x, (int, np.integer)):
        return "int"
    if isinstance(x, (float, np.floating)):
        return "float"
    if isinstance(x, str):
        return "str"
    if isinstance(x, list):
        return "list"
    if isinstance(x, (set, frozenset)):
        return "set"
    if isinstance(x, np.ndarray):
        return "array"
    if isinstance(x, dict):
        return "dict"
    if x is None:
        return "none"
    return "other:" + type(x).__name__


def _num_eq(a, b):
    """exact comparison of two numbers of the same kind.  Not ``a == b``:
    numpy would first round a Python float to the width of a float32 scalar
    (np.float32(0) == 5e-324 is True)."""
    if _kind(a) == "int":
        return int(a) == int(b)
    return float(a) == float(b)


def _leaf_eq(x, y):
    return _num_eq(x, y) if _kind(x) in ("int", "float") else x == y


def _tname(x):
    n = type(x).__name__
    return "longdouble" if n == "float128" else n


def _set_key(x):
    k = _kind(x)
    if k == "int":
        return (k, int(x))
    if k == "float":
        return (k, float(x))
    return (k, str(x))


class Diff(object):
    """collects every difference between an original and a re-loaded image"""
    def __init__(self, strict):
        self.strict = strict
        self.items = []

    def add(self, path, reason, a, b, info):
        field = [p for p in path if isinstance(p, str)]
        self.items.append(dict(
            path="/".join(str(p) for p in path), reason=reason,
            orig_type=_tname(a), got_type=_tname(b),
            orig=repr(a)[:80], got=repr(b)[:80],
            orig_size0=bool(isinstance(a, np.ndarray) and a.size == 0),
            set_has_narrow_float=bool(
                isinstance(a, (set, frozenset)) and
                any(_tname(x) in _FLOAT_NARROW for x in a)),
            orig_dtype=str(a.dtype) if isinstance(a, np.ndarray) else None,
            field=field[-1] if field else "", rtype=info.get("rtype"),
            racc=info.get("racc")))

    def walk(self, a, b, path, info):
        ka, kb = _kind(a), _kind(b)
        if ka != kb:
            self.add(path, "kind", a, b, info)
            return
        if self.strict and type(a) is not type(b):
            self.add(path, "type", a, b, info)
            return
        if ka in ("int", "float"):
            if not _num_eq(a, b):
                self.add(path, "value", a, b, info)
        elif ka in ("str", "bool"):
            if a != b:
                self.add(path, "value", a, b, info)
        elif ka == "list":
            if len(a) != len(b):
                self.add(path, "length", a, b, info)
                return
            for i, (x, y) in enumerate(zip(a, b)):
                self.walk(x, y, path + [i], info)
        elif ka == "set":
            if len(a) != len(b):
                self.add(path, "length", a, b, info)
                return
            # members that survived unchanged are matched first, so that one
            # changed member is reported as exactly one difference
            rest = sorted(b, key=_set_key)
            left = []
            for x in sorted(a, key=_set_key):
                for j, y in enumerate(rest):
                    if _kind(x) == _kind(y) and _leaf_eq(x, y) and (
                            not self.strict or type(x) is type(y)):
                        del rest[j]
                        break
                else:
                    left.append(x)
            for i, (x, y) in enumerate(zip(left, rest)):
                self.walk(x, y, path + [i], info)
        elif ka == "array":
            if a.shape != b.shape:
                self.add(path, "shape", a, b, info)
                return
            if a.dtype.kind not in "iuf" or b.dtype.kind not in "iuf":
                self.add(path, "dtype", a, b, info)
                return
            if self.strict and a.dtype != b.dtype:
                self.add(path, "dtype", a, b, info)
                return
            if a.size and (a.dtype.kind == "f") != (b.dtype.kind == "f"):
                self.add(path, "kind", a, b, info)
                return
            if a.size and not all(x == y for x, y in
                                  zip(a.ravel().tolist(),
                                      b.ravel().tolist())):
                self.add(path, "value", a, b, info)
        elif ka == "dict":
            if "update_type_code" in a and "accumulate_values_bool" in a:
                info = dict(info, rtype=_TYPES_BY_CODE.get(
                    a["update_type_code"], "?"),
                    racc=bool(a["accumulate_values_bool"]))
            if set(a.keys()) != set(b.keys()):
                self.add(path, "keys", sorted(a), sorted(b), info)
                return
            for k in sorted(a.keys()):
                self.walk(a[k], b[k], path + [k], info)
        elif ka == "none":
            pass
        else:
            self.add(path, "unsupported", a, b, info)


_TYPES_BY_CODE = {0: "SUM", 1: "RATIO", 2: "MISC", 3: "CHOICE"}
_STRUCT_FIELDS = {
    "value_list", "total_list", "value", "total", "result_sum",
    "result_squared_sum", "num_updates", "name", "update_type_code",
    "accumulate_values_bool", "current_rep", "runned_reps", "unpack_index",
    "unpacked_parameters_set", "original_filename", "original_sim_params"}


def _priority(item):
    """differences that are NOT explained by an already recorded defect come
    first, so that the search continues behind those"""
    known = 0
    if item["orig_type"] in _FLOAT_NARROW:
        known = 1
    elif item["reason"] == "length" and item["set_has_narrow_float"]:
        known = 1
    elif item["reason"] == "shape" and item["orig_size0"]:
        known = 5
    elif item["reason"] == "kind" and item["orig_dtype"] == "uint64":
        known = 6
    elif item["field"] == "current_rep":
        known = 2
    elif item["field"] == "value_list" and item["rtype"] == "CHOICE":
        known = 3
    elif item["rtype"] is not None and item["field"] in (
            "result_sum", "result_squared_sum", "value") and \
            item["orig_type"] in _FLOAT_NARROW:
        known = 4
    return known


def _exc_suspect(exc):
    """exceptions explained by an already recorded defect sort last"""
    t = getattr(exc, "vpbt_tags", {})
    if isinstance(exc, TypeError) and t.get("has_unhandled_np_scalar"):
        return 1
    if isinstance(exc, (ValueError, IndexError, AssertionError)) and \
            t.get("has_unnameable_array_param"):
        return 1
    return 0


class Run(object):
    """comparison stages of one case.  A difference that looks like an
    already recorded defect (see _priority) is kept pending and raised at the
    end, so that the later stages of the same case are still examined; any
    other difference is raised at once."""
    def __init__(self):
        self.pending = []
        self.deferred = []

    def stage(self, fn, tags):
        """run one group of targets.  A Violation propagates at once; an
        exception raised by the library is annotated, kept and RE-RAISED by
        finish() (never swallowed) so that the remaining, independent
        targets of the same case are still examined."""
        try:
            fn()
        except Violation:
            raise
        except Exception as exc:      # noqa
            exc.vpbt_tags = dict(tags)
            self.deferred.append(exc)

    def compare(self, stage, a_img, b_img, strict, tags):
        d = Diff(strict)
        d.walk(a_img, b_img, [], {})
        if not d.items:
            return True
        it = sorted(d.items, key=_priority)[0]
        # the sub-check name carries the signature of the difference, so
        # that differences with different root causes never share a bucket
        name = "%s_%s_%s" % (stage.split("_")[0], it["reason"],
                             it["orig_type"])
        if it["field"] in _STRUCT_FIELDS:
            name += "_" + it["field"]
            if it["rtype"] is not None:
                name += "_" + it["rtype"]
        v = Violation(name, "%s: %s differs (%s): original %s %s, re-loaded "
                      "%s %s [%d difference(s) in this object]" % (
                          stage, it["path"], it["reason"], it["orig_type"],
                          it["orig"], it["got_type"], it["got"],
                          len(d.items)),
                      dict(tags, stage=stage, reason=it["reason"],
                           orig_type=it["orig_type"], field=it["field"],
                           rtype=it["rtype"], racc=it["racc"],
                           orig_size0=it["orig_size0"],
                           set_has_narrow_float=it["set_has_narrow_float"],
                           orig_dtype=it["orig_dtype"]))
        if _priority(it) == 0:
            raise v
        self.pending.append(v)
        return False

    def finish(self):
        if self.deferred:
            self.deferred.sort(key=_exc_suspect)
            raise self.deferred[0]
        if self.pending:
            raise self.pending[0]


def _img_params(p):
    """public image of a SimulationParameters object: what to_dict() shows
    plus what the object itself holds (a lossy normalisation inside the
    library's own to_dict would otherwise hide on both sides)"""
    d = dict(p.to_dict())
    d["observed_parameters"] = dict(p.parameters)
    d["observed_unpack_index"] = p.unpack_index
    d["observed_num_variations"] = p.get_num_unpacked_variations()
    d["observed_unpacked_names"] = sorted(p.unpacked_parameters)
    return d


def _img_result(r):
    d = dict(r.to_dict())
    d["observed"] = dict(value=r._value, total=r._total,
                         num_updates=r.num_updates,
                         value_list=list(r._value_list),
                         total_list=list(r._total_list))
    return d


def _img_results(s):
    d = dict(s.to_dict())
    d["current_rep"] = s.current_rep
    d["observed_results"] = dict(
        (nm, [_img_result(r)["observed"] for r in s[nm]])
        for nm in s.get_result_names())
    if s.params is not None:
        d["observed_params"] = _img_params(s.params)
    return d


def _canon_json(text):
    def canon(x):
        if isinstance(x, dict):
            if x.get("_is_set") is True:
                data = [canon(v) for v in x["data"]]
                return {"_is_set": True,
                        "data": sorted(data, key=lambda v: (type(v).__name__,
                                                            repr(v)))}
            return {k: canon(v) for k, v in x.items()}
        if isinstance(x, list):
            return [canon(v) for v in x]
        return x
    return canon(json.loads(text))


def _lib_eq(stage, a, b, tags):
    if not (a == b) or (a != b):
        raise Violation("library_eq", "%s: the library's == says the "
                        "re-loaded object differs from the original although "
                        "the field-by-field comparison found no difference" %
                        stage, dict(tags, stage=stage))


def _roundtrips(run, stage_prefix, obj, img, cls, tags):
    """dict and JSON targets of one JsonSerializable object.  Returns the
    first-generation JSON-loaded object."""
    o1 = cls.from_dict(obj.to_dict())
    if run.compare("dict_roundtrip" + stage_prefix, img(obj), img(o1), False,
                   tags):
        _lib_eq("dict_roundtrip" + stage_prefix, obj, o1, tags)
    text = obj.to_json()
    if not isinstance(text, str):
        raise Violation("json_not_text", "to_json returned %r" % type(text),
                        tags)
    j1 = cls.from_json(text)
    if run.compare("json_roundtrip" + stage_prefix, img(obj), img(j1), False,
                   tags):
        _lib_eq("json_roundtrip" + stage_prefix, obj, j1, tags)
    text1 = j1.to_json()
    j2 = cls.from_json(text1)
    if run.compare("json_second_generation" + stage_prefix, img(j1), img(j2),
                   True, tags):
        _lib_eq("json_second_generation" + stage_prefix, j1, j2, tags)
    text2 = j2.to_json()
    if _canon_json(text1) != _canon_json(text2):
        raise Violation("json_text_not_fixed_point" + stage_prefix,
                        "to_json of the 2nd generation differs from the 1st: "
                        "%s ... vs %s ..." % (text1[:200], text2[:200]), tags)
    return j1


# ----------------------------------------------------------------------------
# part: params
# ----------------------------------------------------------------------------
def _label_values(ctx, plist, prefix):
    seen = set()

    def rec(d):
        t = d["t"]
        if t == "np":
            seen.add("np_" + ("exotic" if d["dtype"] in NP_EXOTIC else
                              d["dtype"]))
        elif t == "array":
            shp = d["shape"]
            size = 1
            for s in shp:
                size *= s
            seen.add("array_%dd" % len(shp) if size else
                     ("array_empty1d" if len(shp) == 1 else "array_zero_dim"))
            seen.add("array_" + d["dtype"])
        elif t in ("list", "set"):
            seen.add(t if d["v"] else "empty_" + t)
            for x in d["v"]:
                if t == "list" and x["t"] == "list":
                    seen.add("nested_list")
                rec(x)
        elif t == "int":
            seen.add("int_big" if abs(d["v"]) >= 2**63 else "int")
        elif t == "float":
            v = d["v"]
            seen.add("float_negzero" if (v == 0 and str(v)[0] == "-") else
                     "float_subnormal" if 0 < abs(v) < 2.3e-308 else "float")
        else:
            seen.add(t)
    for p in plist:
        rec(p["value"])
    for s in sorted(seen):
        ctx.label(prefix + s)
    return seen


def _has_np(seen):
    return any(s.startswith(("np_", "array_")) or s in ("set", "empty_set")
               for s in seen)


def _check_params(case, ctx):
    from pyphysim.simulations.parameters import SimulationParameters
    sp, marked = _make_params(SimulationParameters, case["params"],
                              case["use_create"])
    seen = _label_values(ctx, case["params"], "p:")
    ctx.label("params:unpacked=%d" % min(len(marked), 3))
    nvar = sp.get_num_unpacked_variations()
    ctx.nontrivial(_has_np(seen) and len(marked) >= 1)
    unp_arrays = [sp[n] for n in marked if isinstance(sp[n], np.ndarray)]
    tags = dict(part="params", obj="params",
                **_flags([sp.parameters], unp_arrays))
    img0 = _img_params(sp)
    run = Run()

    tmp = tempfile.mkdtemp(prefix="vpbt_c17_")
    try:
        # pickle file
        fn = os.path.join(tmp, "params.pickle")
        sp.save_to_pickled_file(fn)
        pk = SimulationParameters.load_from_pickled_file(fn)
        if run.compare("pickle_roundtrip", img0, _img_params(pk), True, tags):
            _lib_eq("pickle_roundtrip", sp, pk, tags)

        # unpacked children (first three and last three)
        children = sp.get_unpacked_params_list() if marked else []
        if marked and len(children) != nvar:
            raise Violation("children_count", "%d children, %d variations" %
                            (len(children), nvar), tags)
        pick = sorted(set(list(range(len(children)))[:2] +
                          list(range(len(children)))[-1:]))
        if pick:
            ctx.label("params:children")
        for ci in pick:
            ch = children[ci]
            fnc = os.path.join(tmp, "child%d.pickle" % ci)
            ch.save_to_pickled_file(fnc)
            chp = SimulationParameters.load_from_pickled_file(fnc)
            if run.compare("pickle_roundtrip_child", _img_params(ch),
                           _img_params(chp), True, tags):
                _lib_eq("pickle_roundtrip_child", ch, chp, tags)
            if chp.unpack_index != ci or \
                    chp.get_num_unpacked_variations() != nvar:
                raise Violation("pickle_roundtrip_child", "unpack index %r / "
                                "variations %r, expected %d / %d" % (
                                    chp.unpack_index,
                                    chp.get_num_unpacked_variations(), ci,
                                    nvar), tags)

        # dict + JSON
        def json_targets():
            j1 = _roundtrips(run, "", sp, _img_params, SimulationParameters,
                             tags)
            # derived quantities are only judged when the field-by-field
            # comparison found nothing (otherwise they repeat that finding)
            if run.pending:
                pass
            elif list(j1.unpacked_parameters) != sorted(marked):
                raise Violation("json_roundtrip", "unpacked marks %r, "
                                "expected %r" % (j1.unpacked_parameters,
                                                 sorted(marked)), tags)
            elif j1.get_num_unpacked_variations() != nvar:
                raise Violation("json_roundtrip", "number of variations %r, "
                                "expected %r" % (
                                    j1.get_num_unpacked_variations(), nvar),
                                tags)
            for ci in pick:
                ch = children[ci]
                c1 = _roundtrips(run, "_child", ch, _img_params,
                                 SimulationParameters, tags)
                if not run.pending and (
                        c1.unpack_index != ci or
                        c1.get_num_unpacked_variations() != nvar):
                    raise Violation("json_roundtrip_child", "unpack index %r "
                                    "/ variations %r, expected %d / %d" % (
                                        c1.unpack_index,
                                        c1.get_num_unpacked_variations(), ci,
                                        nvar), tags)
        run.stage(json_targets, tags)
        run.finish()
    finally:
        shutil.rmtree(tmp, ignore_errors=True)


# ----------------------------------------------------------------------------
# part: results
# ----------------------------------------------------------------------------
def _nameable(v):
    """arrays for which a range representation is defined: non-empty 1-D
    int64/float32/float64 whose consecutive differences cannot overflow"""
    return (v.ndim == 1 and v.size > 0
            and str(v.dtype) in ("int64", "float32", "float64")
            and bool(np.all(np.abs(v.astype(float)) < 1e15)))


def _template(embed, ext, base="res"):
    return base + "".join("_{%s}" % n for n in embed) + ext


def _check_results(case, ctx):
    from pyphysim.simulations.parameters import SimulationParameters
    from pyphysim.simulations.results import Result, SimulationResults

    def build():
        sp, marked = _make_params(SimulationParameters, case["params"],
                                  case["use_create"])
        s = SimulationResults()
        own = sp
        if case.get("child") is not None and marked:
            kids = sp.get_unpacked_params_list()
            if kids:
                own = kids[case["child"] % len(kids)]
        s.set_parameters(own)
        for spec in case["results"]:
            for hist in spec["histories"]:
                s.append_result(_make_result(Result, spec, hist))
        s.runned_reps = (list(case["runned_reps"])
                         if isinstance(case["runned_reps"], list)
                         else case["runned_reps"])
        s.current_rep = case["current_rep"]
        return s, sp, marked

    s, sp, marked = build()
    seen = _label_values(ctx, case["params"], "p:")
    has_np_result = False
    for spec in case["results"]:
        ctx.label("r:" + spec["type"] + ("+acc" if spec["acc"] else ""))
        for hist in spec["histories"]:
            for v, t in hist:
                if v["t"] in ("np", "set"):
                    has_np_result = True
                if v["t"] == "np":
                    ctx.label("r:np_value_" + ("exotic" if v["dtype"] in
                                               NP_EXOTIC else v["dtype"]))
                if v["t"] == "set":
                    ctx.label("r:set_value")
                if v["t"] == "list":
                    ctx.label("r:list_value")
    ctx.label("results:nvar=%d" % len(case["results"][0]["histories"]),
              "results:runned_reps=%s" % type(case["runned_reps"]).__name__,
              "results:current_rep=%s" % ("default" if case["current_rep"] ==
                                          -1 else "set"),
              "results:embed=%d" % min(len(case["embed"]), 3))
    if s.params is not sp:
        ctx.label("results:params_are_an_unpacked_child")
        tags_child = s.params.unpack_index
        if tags_child < 0:
            raise Violation("child_unpack_index", "a child of "
                            "get_unpacked_params_list has unpack_index %r" %
                            tags_child, dict(part="results"))
    ctx.nontrivial((_has_np(seen) or has_np_result) and len(marked) >= 1)
    unp_arrays = [sp[n] for n in marked if isinstance(sp[n], np.ndarray)]
    res_objs = [r.to_dict() for nm in s.get_result_names() for r in s[nm]]
    tags = dict(part="results", obj="results",
                current_rep_set=case["current_rep"] != -1,
                has_unnameable_array_param=any(
                    isinstance(v, np.ndarray) and not _nameable(v)
                    for v in s.params.parameters.values()),
                **_flags([sp.parameters, res_objs], unp_arrays))

    embed = list(case["embed"])
    # file names are bounded by the file system (255 bytes per component):
    # embedded parameters are dropped until the longest derived name fits
    while embed and not tags["has_unnameable_array_param"] and len(
            os.path.basename(s.get_filename_with_replaced_params(
                _template(embed, ".pickle.tmp", "gen2_res_pickle_noext"))
            ).encode("utf-8", "replace")) > 200:
        embed.pop()
        ctx.label("results:embedded_name_shortened")
    run = Run()
    tmp = tempfile.mkdtemp(prefix="vpbt_c17_")
    tpl_plain = _template(embed, ".json")
    names = {}
    s_full = s
    if tags["has_unnameable_array_param"]:
        # open finding: no file name can be derived while an array that has
        # no range representation (multi-dimensional, empty, or with
        # differences that overflow) is among the parameters.  The call is
        # still made on the full object (observe_full); the file targets
        # continue on a twin without those parameters, and the exclusion is
        # counted.
        ctx.label("excluded:file_targets_without_unnameable_array_params")
        s, _, _ = build()
        for nm, v in list(s.params.parameters.items()):
            if isinstance(v, np.ndarray) and not _nameable(v):
                s.params.remove(nm)

    def observe_full():
        s_full.get_filename_with_replaced_params(tpl_plain)

    def probe_unknown_field():
        # (runs FIRST) a template that names a parameter the object does not have: the
        # name comes back as it is or the call is refused - either way the
        # QUERY leaves the object as it was (judged by the round trips
        # below, which compare with the library's == as well)
        import warnings as _w
        try:
            with _w.catch_warnings():
                _w.simplefilter("ignore")
                s_full.get_filename_with_replaced_params(
                    "res_{no_such_parameter_%d}.json" % len(case["params"]))
                if s is not s_full:
                    s.get_filename_with_replaced_params(
                        "res_{no_such_parameter}.json")
        except Exception:       # noqa
            ctx.label("results:unknown_template_field_refused")
        else:
            ctx.label("results:unknown_template_field_kept")

    def string_targets():
        _roundtrips(run, "", s_full, _img_results, SimulationResults, tags)
        # every Result on its own
        for nm in sorted(s_full.get_result_names()):
            for r in s_full[nm]:
                _roundtrips(run, "_result", r, _img_result, Result,
                            dict(tags, obj="result"))

    def file_names():
        # deterministic function of the parameter values
        name0 = s.get_filename_with_replaced_params(tpl_plain)
        s_twin, _, _ = build()
        for nm in set(s_twin.params.parameters) - set(s.params.parameters):
            s_twin.params.remove(nm)
        name_twin = s_twin.get_filename_with_replaced_params(tpl_plain)
        if name0 != name_twin or not isinstance(name0, str):
            raise Violation("filename_not_deterministic", "%r vs %r for "
                            "equal parameter values" % (name0, name_twin),
                            tags)
        for nm in embed:
            if "{%s}" % nm in name0:
                raise Violation("filename_placeholder_left", "%r" % name0,
                                tags)
        names["plain"] = name0

    def pickle_files():
        # explicit extension and default extension
        for ext, label in ((".pickle", "pickle"), ("", "noext")):
            tpl = os.path.join(tmp, _template(embed, ext, "res_" + label))
            fn = s.save_to_file(tpl)
            want_orig = tpl if ext else tpl + ".pickle"
            want_fn = s.get_filename_with_replaced_params(want_orig)
            if fn != want_fn or not os.path.isfile(fn):
                raise Violation("file_name_returned", "save_to_file returned "
                                "%r, expected existing file %r" % (fn,
                                                                   want_fn),
                                tags)
            ld = SimulationResults.load_from_file(fn)
            if not ext and "." not in os.path.basename(fn[:-len(".pickle")]):
                # a name given without extension is also LOADED without it
                # (documented default: '.pickle' is assumed)
                ld = SimulationResults.load_from_file(fn[:-len(".pickle")])
                ctx.label("loaded_through_bare_name")
            if run.compare("pickle_roundtrip_file_" + label, _img_results(s),
                           _img_results(ld), True, tags):
                _lib_eq("pickle_roundtrip_file_" + label, s, ld, tags)
            if ld.original_filename != want_orig:
                raise Violation("original_filename", "%r, expected %r" %
                                (ld.original_filename, want_orig), tags)
            # second generation through the file
            fn2 = ld.save_to_file(os.path.join(tmp, "gen2_" + label +
                                               ".pickle"))
            ld2 = SimulationResults.load_from_file(fn2)
            if run.compare("pickle_second_generation", _img_results(ld),
                           _img_results(ld2), True, tags):
                _lib_eq("pickle_second_generation", ld, ld2, tags)

    def json_files():
        # through a .json file whose name embeds parameter values
        tpl = os.path.join(tmp, _template(embed, ".json", "res_json"))
        fn = s.save_to_file(tpl)
        if fn != s.get_filename_with_replaced_params(tpl) or \
                not os.path.isfile(fn):
            raise Violation("file_name_returned", "save_to_file returned "
                            "%r" % (fn,), tags)
        jf = SimulationResults.load_from_file(fn)
        clean = run.compare("json_roundtrip_file", _img_results(s),
                            _img_results(jf), False, tags)
        if clean:
            _lib_eq("json_roundtrip_file", s, jf, tags)
        if jf.original_filename != tpl:
            raise Violation("original_filename", "%r, expected %r" %
                            (jf.original_filename, tpl), tags)
        n1 = jf.get_filename_with_replaced_params(tpl_plain)
        if clean and "plain" in names and n1 != names["plain"]:
            raise Violation("json_filename_changed", "file name from the "
                            "re-loaded object %r, from the original %r" %
                            (n1, names["plain"]), tags)
        fn2 = jf.save_to_file(os.path.join(tmp, "gen2_json.json"))
        jf2 = SimulationResults.load_from_file(fn2)
        if run.compare("json_second_generation_file", _img_results(jf),
                       _img_results(jf2), True, tags):
            _lib_eq("json_second_generation_file", jf, jf2, tags)

    try:
        for fn in (probe_unknown_field, string_targets, file_names,
                   pickle_files, json_files, observe_full):
            run.stage(fn, tags)
        run.finish()
    finally:
        shutil.rmtree(tmp, ignore_errors=True)


# ----------------------------------------------------------------------------
# part: filename
# ----------------------------------------------------------------------------
def _check_filename(case, ctx):
    from pyphysim.simulations.parameters import SimulationParameters
    from pyphysim.simulations.results import SimulationResults
    from pyphysim.util.misc import replace_dict_values

    def make(which):
        sp = SimulationParameters()
        for i, sc in enumerate(case["scalars"]):
            d = sc["pair"][1] if (which == 1 and i == case["changed"]) \
                else sc["pair"][0]
            sp.add(sc["name"], _build(d))
        if case["array"] is not None:
            sp.add("grid", _build(case["array"]))
        s = SimulationResults()
        s.set_parameters(sp)
        return s

    names = [sc["name"] for sc in case["scalars"]]
    if case["array"] is not None:
        # the range representation used in file names is only defined for
        # arrays whose consecutive differences cannot overflow (|x| < 1e15):
        # other arrays are parameters of the object but are not embedded in
        # the template (an exception for them is not claimed by C17)
        if _nameable(_build(case["array"])):
            names.append("grid")
            ctx.label("fn:array_" + case["array"]["dtype"])
        else:
            ctx.label("fn:array_not_embedded(extreme values)")
    spec = case.get("spec")
    scalar_names = set(sc["name"] for sc in case["scalars"])

    def field(n):
        if spec is None or n not in scalar_names:
            return "{%s}" % n
        if spec == "conv_s":
            return "{%s!s}" % n
        if spec == "int_d":
            # a format spec that only fits integers
            return "{%s:d}" % n
        return "{%s!s:>{fw}}" % n
    tpl = "res" + "".join(case["sep"] + field(n) for n in names) + \
        case["ext"]
    if spec:
        ctx.label("fn:spec_" + spec)
    _make0 = make

    def make(which):    # noqa: F811
        s = _make0(which)
        if spec == "nested_width":
            s.params.add("fw", 14)
        return s
    a, a2, b = make(0), make(0), make(1)
    pa, pb = case["scalars"][case["changed"]]["pair"]
    va, vb = _build(pa), _build(pb)
    differ = bool(va != vb)
    tags = dict(part="filename", scalar_type=_tname(va), differ=differ)
    ctx.label("fn:" + _tname(va), "fn:differ" if differ else "fn:equal",
              "fn:n=%d" % len(case["scalars"]))
    ctx.nontrivial(len(names) >= 2)
    if spec == "int_d":
        # values that do not fit the spec are refused (ValueError / TypeError
        # of str.format), never turned silently into some other name
        try:
            na = a.get_filename_with_replaced_params(tpl)
            na2 = a2.get_filename_with_replaced_params(tpl)
            nb = b.get_filename_with_replaced_params(tpl)
        except (ValueError, TypeError) as exc:
            vals = [_build(d) for sc in case["scalars"] for d in sc["pair"]]
            if all(_kind(v) == "int" for v in vals):
                # every value IS an integer (Python or numpy): the spec fits
                raise Violation("filename_spec_refused_for_integer",
                                "template %r with integer values %r: %s: %s"
                                % (tpl, vals[:4], type(exc).__name__, exc),
                                tags)
            ctx.label("fn:spec_does_not_fit_refused")
            return
        if all(_kind(_build(sc["pair"][0])) == "int"
               for sc in case["scalars"]):
            ctx.label("fn:int_spec_on_integers")
            want = "res" + "".join(
                case["sep"] + (format(int(_build(sc["pair"][0])), "d"))
                for sc in case["scalars"])
            if not na.startswith(want):
                raise Violation("filename_int_spec_value", "template %r "
                                "gives %r, expected it to start with %r" %
                                (tpl, na, want), tags)
    na = a.get_filename_with_replaced_params(tpl)
    na2 = a2.get_filename_with_replaced_params(tpl)
    nb = b.get_filename_with_replaced_params(tpl)
    if na != na2 or a.get_filename_with_replaced_params(tpl) != na:
        raise Violation("filename_not_deterministic", "%r vs %r" % (na, na2),
                        tags)
    if na != replace_dict_values(tpl, a.params.parameters, True):
        raise Violation("filename_not_replace_dict_values", "%r" % na, tags)
    if any(field(n) in na for n in names):
        raise Violation("filename_placeholder_left", "%r" % na, tags)
    if differ and na == nb:
        raise Violation("filename_collision", "values %r and %r of %r give "
                        "the same name %r" % (va, vb, names[case["changed"]],
                                              na), tags)
    if not differ and type(va) is type(vb) and repr(va) == repr(vb) \
            and na != nb:
        raise Violation("filename_not_deterministic", "identical values, "
                        "names %r and %r" % (na, nb), tags)


def check(case, ctx):
    part = case["part"]
    if part == "params":
        return _check_params(case, ctx)
    if part == "results":
        return _check_results(case, ctx)
    if part == "filename":
        return _check_filename(case, ctx)
    raise AssertionError("unknown part %r" % part)
