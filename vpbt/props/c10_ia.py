"""C10 - interference-alignment solvers return valid, power-limited, aligned
solutions, and the derived quantities stay coherent under setter histories.

Parts
-----
post : one ``solve()`` per case (closed form, alternating minimisation,
       minimum leakage, max-SINR, MMSE; every initialisation mode) followed by
       the post-conditions of the property statement.  A third of the
       iterative cases with noise and a user with >= 2 streams are driven by
       the greedy stream-reduction wrapper (GreedStreamIASolver); the solution
       it leaves in the wrapped solver is judged by the same post-conditions;
       another part by the brute-force stream search (BruteForceStreamIASolver,
       layouts with at most 8 stream combinations).
mono : equal powers, no noise: the leaked interference power after each
       further iteration (public API: ``initialize_with='fix'``,
       ``max_iterations=1``, repeated ``solve``) never increases.
hist : histories of solve / randomizeF / set_precoders / set_receive_filters
       / ``P =`` and *reads* (reads are ops, so "read - change - read derived
       quantity" patterns occur on purpose) applied in lock-step to the real
       solver and to a model that recomputes every derived quantity from the
       primaries (channel, F, explicitly given full_F, W or W_H, P).
"""
import numpy as np
from hypothesis import strategies as st

from ..core import Part, Violation
from ..gens import fl, loguniform, seeds

PROPERTY = "C10"
LEVEL = "exploration"
RULE = ("K 2..4 users, 2..4 (thorough 2..6) antennas per node (square, "
        "uniform rectangular and per-user layouts), 1..min(Nt,Nr)-1 streams "
        "(closed form: K=3, square, equal streams <= N/2), scalar/vector/None "
        "powers 1e-2..1e2, noise None or 1e-3..1 (max-SINR/MMSE always >0), "
        "all initialisation modes, 1..30 iterations, seeded solver RNG; "
        "histories of 3..14 op descriptors resolved against the current state "
        "by an interpreter.  non-trivial = (hist) a derived quantity "
        "(full_F/full_W_H/full_W/cost) is read, then P or the precoders/"
        "filters are changed through a public setter, then a derived quantity "
        "is read again; (post) some user has >=2 streams or the antenna "
        "layout is not square-uniform or P is a vector; (mono) initial "
        "leakage > 1e-3 of the unfiltered interference power and >= 3 "
        "iterations observed (mono also forces a class K=2, N>=4, >=2 "
        "streams in which an update needs several eigenvectors of a repeated "
        "eigenvalue).  distinct = SHA-1 of the case description")
RULE += (" Added after the white-box review: "
         "powers also as numpy / Python-int scalars; histories also "
         "contain 'solver.P *= f' and calls that must be refused "
         "(bad_call); the caller re-uses its stream-count array; "
         "greedy and brute-force stream-search wrappers ")
RULE += (" Added after the second white-box review: absolute scales "
         "(all powers x 1e-6/1e-12/1e-20; channel x 1e-3/1e-6 with the "
         "noise fixed or following the channel gain); precoders handed to "
         "set_precoders as one 3-D numpy array; after a stream reduction "
         "the solve is continued with initialize_with='fix' and the "
         "ORIGINAL stream request. ")

LEVEL_TEXT = ("Generated-input search (Hypothesis, seeded, sharded) over "
              "channels, antenna/stream/power configurations, solver classes, "
              "initialisation modes and setter/read histories.  Oracles: the "
              "defining equations of the property evaluated from the channel "
              "and the solver's public outputs (norms, power budget, "
              "full_W_H*H_kk*full_F = I, shapes, closed-form interference "
              "nulling), an eigenvalue formula for the leaked interference "
              "power (monotonicity), and a lock-step reference model that "
              "recomputes all derived quantities from the primaries after "
              "every op.  Absence of violations is not proven.")
LEVEL_NOTE = ("float64; identity checks use tolerance 1e-8*cond(effective "
              "channel); channels are generic seeded complex Gaussians plus a "
              "labelled minority with controlled conditioning (kappa<=1e3)")
TECHNIQUE = ("property-based testing (Hypothesis): model-based history "
             "testing (op-descriptor interpreter + reference model) and "
             "post-condition / monotonicity oracles per solver class")
ASSUMPTIONS = [
    "the channel object is not modified during a history (the statement "
    "quantifies over power / precoder / filter changes only)",
    "closed-form solver: K=3, one common square antenna count N, the same "
    "number of streams Ns <= N/2 for every user (the construction chains "
    "F2, F3 from F1, so it is only defined for equal stream counts)",
    "max-SINR and MMSE are always run with noise_var > 0 (their updates "
    "invert interference-plus-noise covariances)",
    "the 'closed_form' initialisation is generated only where the closed "
    "form is defined; 'fix' only when precoders exist",
    "after a change of P the power-scaled precoder is expected to be "
    "F*sqrt(P) (also when full_F had been given explicitly before)",
    "monotonicity is judged on sum_k sum_{j<=Ns_k} lambda_j(Q_k) (the "
    "interference power left in the best Ns_k-dimensional receive subspace) "
    "when all users have the same number of streams, and on get_cost() "
    "always; tolerance 1e-9 relative + 1e-13 of the unfiltered interference "
    "power",
    "an identity check is skipped (and counted) when the effective channel "
    "W_H*H_kk*full_F has condition number > 1e8",
    "the greedy / brute-force stream-search wrappers are driven only with "
    "stream requests for which alignment is feasible (Nr + Nt >= (K+1) "
    "max Ns); on overloaded requests the wrapped max-SINR solver can return "
    "a user solution whose effective channel is singular, and the wrappers' "
    "capacity computation then raises LinAlgError (seen once in a thorough "
    "run: K=3, 4x4, Ns=[2,3,3]) - judged outside 'configurations on which "
    "an IA solver is defined'",
    "in the very-low-SNR classes (powers x 1e-6 and below) the AltMin cost "
    "oracle is skipped when a noise variance is set (the library takes the "
    "interference subspace from eig(interference + noise*I), which is only "
    "known to eps*noise/interference) and full_F vs F of the MMSE/max-SINR "
    "solvers is compared by column space (their stream reduction sends F "
    "and full_F through separate SVDs and keeps ill-determined columns)",
    "set_precoders/set_receive_filters are fed numpy object arrays (what "
    "the tests and the library itself use) and, as a labelled minority, "
    "plain lists (documented as accepted) and, for set_precoders, one 3-D "
    "numpy array of equally shaped precoders",
]
QUICK_BUDGET_S = 300
THOROUGH_BUDGET_S = 2400

CLS_ALL = ["Base", "ClosedForm", "AltMin", "MinLeakage", "MaxSinr", "MMSE"]
ITERATIVE = ["AltMin", "MinLeakage", "MaxSinr", "MMSE"]
DERIVED = ("full_F", "full_W_H", "full_W", "cost")


# ----------------------------------------------------------------------------
# strategies
# ----------------------------------------------------------------------------
def _pvals():
    return st.lists(loguniform(-2, 2), min_size=4, max_size=4)


@st.composite
def _cfg(draw, cls, tier, noise_free=False):
    big = tier == "thorough"
    if cls == "ClosedForm":
        N = draw(st.sampled_from([2, 3, 4, 5, 6, 8] if big
                                 else [2, 3, 4, 4, 5, 6]))
        K, Nr, Nt = 3, [N] * 3, [N] * 3
    else:
        K = draw(st.sampled_from([2, 3, 3, 4]))
        nmax = 6 if big else 4
        layout = draw(st.sampled_from(["square", "square", "rect",
                                       "per_user"]))
        if layout == "square":
            N = draw(st.integers(2, nmax))
            Nr, Nt = [N] * K, [N] * K
        elif layout == "rect":
            a = draw(st.integers(2, nmax))
            b = draw(st.integers(2, nmax))
            Nr, Nt = [a] * K, [b] * K
        else:
            Nr = [draw(st.integers(2, nmax)) for _ in range(K)]
            Nt = [draw(st.integers(2, nmax)) for _ in range(K)]
            if draw(st.integers(0, 2)) == 0:
                # one small user next to well-equipped ones (the others may
                # then ask for more streams than the small user has antennas)
                j = draw(st.integers(0, K - 1))
                for k in range(K):
                    Nr[k], Nt[k] = (2, 2) if k == j else (
                        max(Nr[k], nmax), max(Nt[k], nmax - 1))
    if noise_free:
        noise = None
    elif cls in ("MaxSinr", "MMSE"):
        noise = draw(loguniform(-3, 0))
    else:
        noise = draw(st.one_of(st.none(), loguniform(-3, 0)))
    kappa = draw(st.sampled_from([1, 1, 1, 1, 1, 30, 1000]))
    hscale = draw(st.sampled_from([1.0, 1.0, 1.0, 0.1, 10.0, 1.0, 1e-3,
                                   1e-6]))
    pexp = draw(st.sampled_from([0, 0, 0, 0, 0, 0, -6, -12, -20]))
    return dict(K=K, Nr=Nr, Nt=Nt, hseed=draw(seeds), kappa=kappa,
                hscale=hscale, noise=noise, pexp=pexp,
                noise_scaled=draw(st.booleans()))


def _cf_ok(cfg):
    """closed form defined: K == 3, one common square antenna count"""
    return (cfg["K"] == 3 and len(set(cfg["Nr"] + cfg["Nt"])) == 1)


@st.composite
def _ns(draw, cls, cfg, equal=False, high=False):
    K = cfg["K"]
    lim = [min(a, b) - 1 for a, b in zip(cfg["Nr"], cfg["Nt"])]

    def one(hi):
        n = draw(st.integers(1, hi))
        return max(n, draw(st.integers(1, hi))) if high else n
    if cls == "ClosedForm":
        return [one(cfg["Nr"][0] // 2)] * K
    if equal or draw(st.booleans()):
        return [one(min(lim))] * K
    if max(lim) > min(lim) + 1 and draw(st.booleans()):
        # every user at its own limit
        return list(lim)
    return [one(lim[k]) for k in range(K)]


def _inits(cls, cfg, Ns, have_F=False):
    out = ["random", "random", "svd"]
    if cls != "AltMin":
        out.append("alt_min")
    if _cf_ok(cfg) and len(set(Ns)) == 1 and 2 * Ns[0] <= cfg["Nr"][0]:
        out.append("closed_form")
    if have_F:
        out.append("fix")
    return out


@st.composite
def _post_case(draw, tier):
    cls = draw(st.sampled_from(["ClosedForm", "AltMin", "AltMin",
                                "MinLeakage", "MinLeakage", "MaxSinr",
                                "MaxSinr", "MMSE", "MMSE"]))
    cfg = draw(_cfg(cls, tier))
    Ns = draw(_ns(cls, cfg))
    case = dict(part="post", cls=cls, cfg=cfg, Ns=Ns,
                ns_form=draw(st.sampled_from(["int", "list", "array"])),
                p_form=draw(st.sampled_from(["none", "scalar", "list",
                                             "array", "np.float64",
                                             "np.float32", "np.int64",
                                             "int"])),
                pvals=draw(_pvals()), seed=draw(seeds))
    if cls == "ClosedForm":
        case["best"] = draw(st.booleans())
    else:
        case["init"] = draw(st.sampled_from(_inits(cls, cfg, Ns)))
        case["max_iter"] = draw(st.sampled_from(
            [1, 1, 2, 3, 5, 8, 13, 20, 30] if tier == "quick"
            else [1, 2, 3, 5, 8, 13, 20, 30, 60, 120]))
        # the solver is driven by the greedy stream-reduction wrapper (the
        # way the apps use it): the solution it leaves in the solver obeys
        # the same relations
        # (wrappers only where interference alignment is feasible for the
        # requested streams, Nr + Nt >= (K + 1) max(Ns): on overloaded
        # requests the wrapped solver may return a rank-deficient user
        # solution, for which the wrappers' capacity computation - like any
        # read of full_W_H - has no inverse to offer; ASSUMPTIONS)
        feasible = all(a + b >= (cfg["K"] + 1) * max(Ns)
                       for a, b in zip(cfg["Nr"], cfg["Nt"]))
        case["greedy"] = (cfg["noise"] is not None and max(Ns) >= 2 and
                          feasible and draw(st.integers(0, 2)) == 0)
        # ... or by the brute-force stream search (every stream combination
        # up to Ns; small layouts only: the number of combinations is
        # prod(Ns))
        prod = 1
        for n in Ns:
            prod *= n
        case["brute"] = (not case["greedy"] and cfg["noise"] is not None and
                         max(Ns) >= 2 and prod <= 8 and feasible and
                         draw(st.integers(0, 2)) == 0)
    return case


@st.composite
def _mono_case(draw, tier):
    cls = draw(st.sampled_from(["AltMin", "MinLeakage"]))
    cfg = draw(_cfg(cls, tier, noise_free=True))
    if cls == "AltMin" and draw(st.integers(0, 5)) == 0:
        # forced class: few users, many antennas and streams, so that an
        # update needs >= 2 eigenvectors of a repeated (zero) eigenvalue
        N = draw(st.sampled_from([4, 4, 5, 6] if tier == "thorough" else [4]))
        cfg = dict(cfg, K=2, Nr=[N, N], Nt=[N, N])
        Ns = [draw(st.integers(2, N - 1)), draw(st.integers(1, N - 2))]
        if draw(st.booleans()):
            Ns = Ns[::-1]
        return dict(part="mono", cls=cls, cfg=cfg, Ns=Ns,
                    ns_form=draw(st.sampled_from(["list", "array"])),
                    p_form=draw(st.sampled_from(["none", "scalar"])),
                    pvals=draw(_pvals()), seed=draw(seeds),
                    init=draw(st.sampled_from(["random", "random", "svd"])),
                    steps=draw(st.integers(3, 10 if tier == "quick" else 40)))
    # unequal stream counts matter here: the forward and the reverse
    # network weight the users differently (P/Ns against P), and the cost
    # only goes down when each update minimises the SAME weighted sum
    Ns = draw(_ns(cls, cfg, high=(cls == "AltMin" or draw(st.booleans())),
                  equal=draw(st.sampled_from([True, False, False]))))
    if len(set(Ns)) == 1 and draw(st.booleans()):
        lim = [min(a, b) - 1 for a, b in zip(cfg["Nr"], cfg["Nt"])]
        if cls != "ClosedForm" and max(lim) >= 2:
            # force different counts on a crowded channel (the leakage then
            # does not vanish and the iteration keeps moving)
            Ns = [draw(st.integers(max(1, l - 1), l)) for l in lim]
            if len(set(Ns)) == 1:
                k = lim.index(max(lim))
                Ns[k] = Ns[k] - 1 if Ns[k] > 1 else Ns[k] + 1
    inits = [i for i in _inits(cls, cfg, Ns) if i != "alt_min" and
             (i != "svd" or cfg["Nr"] == cfg["Nt"])]
    return dict(part="mono", cls=cls, cfg=cfg, Ns=Ns,
                ns_form=draw(st.sampled_from(["int", "list", "array"])),
                p_form=draw(st.sampled_from(["none", "scalar", "scalar"])),
                pvals=draw(_pvals()), seed=draw(seeds),
                init=draw(st.sampled_from(inits)),
                steps=draw(st.integers(3, 16 if tier == "quick" else 40)))


_READABLE = ["F", "full_F", "W", "W_H", "full_W_H", "full_W", "Ns", "P",
             "cost"]


def _op_read():
    return st.fixed_dictionaries(dict(
        op=st.just("read"),
        what=st.lists(st.sampled_from(_READABLE + ["full_F", "full_W_H",
                                                   "full_W"]),
                      min_size=1, max_size=4)))


def _op_setP():
    return st.fixed_dictionaries(dict(
        op=st.just("setP"),
        p_form=st.sampled_from(["none", "scalar", "scalar", "list", "array"]),
        pvals=_pvals()))


def _op_randomizeF():
    return st.fixed_dictionaries(dict(
        op=st.just("randomizeF"),
        ns_mode=st.sampled_from(["keep", "keep", "new"]),
        ns=st.lists(st.integers(0, 5), min_size=4, max_size=4),
        ns_form=st.sampled_from(["int", "list", "array"]),
        p_form=st.sampled_from(["none", "scalar", "list", "array"]),
        pvals=_pvals()))


def _op_set_precoders():
    return st.fixed_dictionaries(dict(
        op=st.just("set_precoders"),
        mode=st.sampled_from(["F", "F", "full_F", "both"]),
        with_P=st.booleans(),
        pvals=_pvals(),
        ns_mode=st.sampled_from(["keep", "keep", "new"]),
        ns=st.lists(st.integers(0, 5), min_size=4, max_size=4),
        fseed=seeds,
        factor=fl(0.75, 1.0),
        container=st.sampled_from(["objarray", "objarray", "objarray",
                                   "list", "ndarray3d"])))


def _op_set_rx():
    return st.fixed_dictionaries(dict(
        op=st.just("set_receive_filters"),
        which=st.sampled_from(["W", "W_H"]),
        wseed=seeds,
        container=st.sampled_from(["objarray", "objarray", "list"])))


def _op_solve():
    return st.fixed_dictionaries(dict(
        op=st.just("solve"),
        ns_mode=st.sampled_from(["keep", "new"]),
        ns=st.lists(st.integers(0, 5), min_size=4, max_size=4),
        ns_form=st.sampled_from(["int", "list", "array"]),
        p_form=st.sampled_from(["none", "scalar", "list", "array"]),
        pvals=_pvals(),
        init=st.sampled_from(["random", "random", "svd", "alt_min",
                              "closed_form", "fix", "fix"]),
        # with 'fix' the caller repeats its ORIGINAL stream request (the
        # documented way to continue a solution), or passes the current one
        fix_ns=st.sampled_from(["current", "requested"]),
        max_iter=st.sampled_from([1, 1, 2, 3, 5, 13])))


@st.composite
def _hist_case(draw, tier):
    cls = draw(st.sampled_from(["Base", "Base", "ClosedForm", "AltMin",
                                "MinLeakage", "MaxSinr", "MMSE"]))
    cfg = draw(_cfg(cls, tier))
    # P_inplace: the caller scales the power ARRAY it assigned earlier in
    # place and assigns it again (a power sweep as users write it)
    p_inplace = st.fixed_dictionaries(dict(
        op=st.just("P_inplace"), factor=st.sampled_from([0.25, 4.0, 9.0])))
    # bad_P: a power assignment the library must refuse (an entry <= 0, or
    # a wrong length); the solver stays exactly as it was
    bad_p = st.fixed_dictionaries(dict(
        op=st.just("bad_P"), how=st.sampled_from(["negative", "zero",
                                                   "length", "scalar0"]),
        pvals=_pvals()))
    # P_augmented: 'solver.P *= factor' (read - scale - assign through the
    # public property)
    p_aug = st.fixed_dictionaries(dict(
        op=st.just("P_augmented"), factor=st.sampled_from([0.25, 4.0, 9.0])))
    # bad_call: other calls the library must refuse (receive filters given
    # neither / both ways, no precoder given, a non-positive power handed to
    # set_precoders / randomizeF / solve); the solver stays as it was
    bad_call = st.fixed_dictionaries(dict(
        op=st.just("bad_call"),
        what=st.sampled_from(["rx_none", "rx_both", "prec_none", "prec_badP",
                              "randomizeF_badP", "solve_badP"])))
    setters = [_op_setP(), _op_setP(), _op_randomizeF(), _op_set_precoders(),
               _op_set_rx(), p_inplace, bad_p, p_aug, bad_call]
    first = [_op_randomizeF(), _op_set_precoders()]
    if cls != "Base":
        setters.append(_op_solve())
        first += [_op_solve(), _op_solve()]
    ops = [draw(st.one_of(first))]
    if cls == "Base" or draw(st.booleans()):
        # make sure receive filters exist early in most histories
        ops.append(draw(_op_set_rx()))
    n = draw(st.integers(2, 8 if tier == "quick" else 20))
    body = st.one_of(_op_read(), _op_read(), st.one_of(setters),
                     st.one_of(setters))
    ops += draw(st.lists(body, min_size=n, max_size=n + 4))
    return dict(part="hist", cls=cls, cfg=cfg, seed=draw(seeds),
                best=draw(st.booleans()), ops=ops)


PARTS = [
    Part("post", _post_case, quick=2400, thorough=40000, quick_shards=8),
    Part("mono", _mono_case, quick=1600, thorough=10000, quick_shards=8),
    Part("hist", _hist_case, quick=2400, thorough=40000, quick_shards=8),
]


# ----------------------------------------------------------------------------
# builders
# ----------------------------------------------------------------------------
def _randc(rs, *shape):
    return (rs.randn(*shape) + 1j * rs.randn(*shape)) / np.sqrt(2.0)


def _build_channel(cfg):
    """-> (channel object, blocks H[k][l]) -- deterministic in cfg"""
    from pyphysim.channels.multiuser import MultiUserChannelMatrix
    K = cfg["K"]
    Nr = np.array(cfg["Nr"], dtype=int)
    Nt = np.array(cfg["Nt"], dtype=int)
    rs = np.random.RandomState(cfg["hseed"])
    big = _randc(rs, int(Nr.sum()), int(Nt.sum()))
    kappa = cfg["kappa"]
    if kappa > 1:
        # every block gets singular values log-spaced over [1/kappa, 1]
        r0 = 0
        for k in range(K):
            c0 = 0
            for l in range(K):
                blk = big[r0:r0 + Nr[k], c0:c0 + Nt[l]]
                U, s, Vh = np.linalg.svd(blk, full_matrices=False)
                n = len(s)
                s = np.sqrt(max(Nr[k], Nt[l])) * \
                    kappa ** (-np.arange(n) / max(n - 1.0, 1.0))
                big[r0:r0 + Nr[k], c0:c0 + Nt[l]] = (U * s) @ Vh
                c0 += Nt[l]
            r0 += Nr[k]
    big = big * cfg["hscale"]
    ch = MultiUserChannelMatrix()
    ch.init_from_channel_matrix(big.copy(), Nr, Nt, K)
    ch.noise_var = cfg["noise"]
    H = []
    r0 = 0
    for k in range(K):
        row, c0 = [], 0
        for l in range(K):
            row.append(big[r0:r0 + Nr[k], c0:c0 + Nt[l]].copy())
            c0 += Nt[l]
        H.append(row)
        r0 += Nr[k]
    return ch, H


_BASE = []


def _solver_class(cls):
    from pyphysim.ia import algorithms as alg
    from pyphysim.ia.iabase import IASolverBaseClass
    if cls == "Base":
        if not _BASE:
            class ConcreteBase(IASolverBaseClass):
                def solve(self, Ns, P=None):  # pragma: no cover
                    raise NotImplementedError
            _BASE.append(ConcreteBase)
        return _BASE[0]
    return dict(ClosedForm=alg.ClosedFormIASolver,
                AltMin=alg.AlternatingMinIASolver,
                MinLeakage=alg.MinLeakageIASolver,
                MaxSinr=alg.MaxSinrIASolver,
                MMSE=alg.MMSEIASolver)[cls]


def _make_solver(cls, ch, seed, best=True):
    klass = _solver_class(cls)
    if cls == "ClosedForm":
        s = klass(ch, use_best_init=bool(best))
    else:
        s = klass(ch)
    # seeding point of the solver RNG (DESIGN 2.8)
    s._rs = np.random.RandomState(seed)
    sub = getattr(s, "_alt_min_ia_solver", None)
    if sub is not None:
        sub._rs = np.random.RandomState((seed + 1) % (2**31 - 1))
    return s


def _p_arg(form, vals, K):
    """-> (argument handed to the library, expected power vector)"""
    if form == "none":
        return None, np.ones(K)
    if form == "scalar":
        return float(vals[0]), np.ones(K) * float(vals[0])
    if form in ("np.float64", "np.float32", "np.int64", "int"):
        # a scalar power as another number type (an element taken from an
        # array, a whole number)
        if form in ("np.int64", "int") and vals[0] < 0.5:
            form = "np.float64"      # no whole number at this power level
        if form == "np.float64":
            v = np.float64(vals[0])
        elif form == "np.float32":
            v = np.float32(vals[0])
        elif form == "np.int64":
            v = np.int64(max(1, int(round(vals[0]))))
        else:
            v = int(max(1, int(round(vals[0]))))
        return v, np.ones(K) * float(v)
    v = [float(x) for x in vals[:K]]
    if form == "list":
        return list(v), np.array(v)
    return np.array(v), np.array(v)


def _ns_arg(form, Ns):
    if form == "int" and len(set(Ns)) == 1:
        return int(Ns[0])
    if form == "array":
        return np.array(Ns, dtype=int)
    return [int(n) for n in Ns]


def _objarray(mats):
    out = np.empty(len(mats), dtype=np.ndarray)
    for k, m in enumerate(mats):
        out[k] = m
    return out


class _tagged(object):
    """attach tags to an exception raised by library code (no swallowing)"""
    def __init__(self, tags, **extra):
        self.tags, self.extra = tags, extra   # tags: live dict

    def __enter__(self):
        return self

    def __exit__(self, et, ev, tb):
        if ev is not None and not isinstance(ev, Violation):
            try:
                ev.vpbt_tags = dict(self.tags, **self.extra)
            except Exception:  # noqa
                pass
        return False


def _close(ctx, name, err, tol, detail="", tags=None):
    """assert err <= tol; only passing values enter max_observed_error (the
    failing ones are reported as violations / known findings)"""
    err = float(err)
    if not (err <= tol):
        raise Violation(name, "error %.3e > tol %.3e %s" % (err, tol, detail),
                        tags)
    ctx.err(name, err, tol)


def _fro(a):
    return float(np.linalg.norm(np.asarray(a).ravel()))


def _base_tags(cls, cfg, Ns=None, init=None):
    t = dict(cls=cls, K=cfg["K"],
             rect=bool(list(cfg["Nr"]) != list(cfg["Nt"])),
             kappa=cfg["kappa"], noise_none=cfg["noise"] is None)
    if Ns is not None:
        t["max_Ns"] = int(max(Ns))
        t["equal_Ns"] = bool(len(set(int(n) for n in Ns)) == 1)
    if init is not None:
        t["init"] = init
    return t


# ----------------------------------------------------------------------------
# oracles
# ----------------------------------------------------------------------------
def _leak_oracle(H, fullF, Ns):
    """sum_k sum_{j<=Ns_k} lambda_j(Q_k): interference power left in the best
    Ns_k-dimensional receive subspace; also the unfiltered total."""
    K = len(H)
    total, scale = 0.0, 0.0
    for k in range(K):
        Q = np.zeros((H[k][k].shape[0],) * 2, dtype=complex)
        for l in range(K):
            if l != k:
                A = H[k][l] @ fullF[l]
                Q = Q + A @ A.conj().T
        ev = np.linalg.eigvalsh((Q + Q.conj().T) / 2.0)
        total += float(np.sum(np.maximum(ev[:int(Ns[k])], 0.0)))
        scale += float(np.trace(Q).real)
    return total, scale


def _filtered_leak(H, fullF, W, noise):
    """sum_k tr(W_k^H Q_k W_k) with Q_k = interference (+ noise) covariance"""
    K = len(H)
    tot = 0.0
    for k in range(K):
        for l in range(K):
            if l != k:
                tot += _fro(W[k].conj().T @ H[k][l] @ fullF[l]) ** 2
        if noise is not None:
            tot += noise * _fro(W[k]) ** 2
    return tot


def _check_identity(ctx, name, X, Hkk, fullFk, tags, WH=None):
    """X * Hkk * fullFk == I with tolerance 1e-8*cond(effective channel)"""
    n = fullFk.shape[1]
    if X.shape != (n, Hkk.shape[0]):
        raise Violation("shape_" + name, "%s[k] has shape %r, expected %r" %
                        (name, X.shape, (n, Hkk.shape[0])), tags)
    A = Hkk @ fullFk
    if WH is not None and WH.shape == X.shape:
        kap = float(np.linalg.cond(WH @ A))
    else:
        kap = float(np.linalg.cond(A))
    if not np.isfinite(kap) or kap > 1e8:
        ctx.label("identity_skipped_illcond")
        return None
    err = _fro(X @ A - np.eye(n))
    if err <= 1e-8 * kap:
        ctx.err("identity_" + name, err / kap, 1e-8)
    if WH is not None and WH.shape == X.shape and err <= 1e-8 * kap:
        # ... and it is derived from the CURRENT receive filter: the IA
        # filter W^H followed by the compensation of the equivalent channel,
        # (W^H Hkk full_F)^-1 W^H  (a filter left over from an earlier W
        # also satisfies the identity above)
        ref = np.linalg.solve(WH @ A, WH)
        e2 = _fro(X - ref)
        tol2 = 1e-8 * kap * (_fro(ref) + 1e-300)
        if e2 <= tol2:
            ctx.err("derived_from_current_W_" + name, e2 / (kap * (_fro(ref)
                                                                  + 1e-300)),
                    1e-8)
        else:
            return e2, tol2
    return err, 1e-8 * kap


def _snr_class(cfg, H, P, k=None):
    """low / mid / high by P_k * sigma_max(H_kk)^2 / noise_var (user k, or
    the most extreme user)"""
    if cfg["noise"] is None:
        return "high"
    users = range(cfg["K"]) if k is None else [k]
    snr = [P[u] * np.linalg.norm(H[u][u], 2) ** 2 / cfg["noise"]
           for u in users]
    if min(snr) < 0.1:
        return "low"
    if max(snr) > 1e3:
        return "high"
    return "mid"


def _postconditions(ctx, solver, cls, cfg, H, P_exp, tags, who="solve"):
    """relations of the property statement that must hold after solve()"""
    K = cfg["K"]
    Nr, Nt = cfg["Nr"], cfg["Nt"]
    F = solver.F
    if F is None or len(F) != K:
        raise Violation("no_precoders", "F is %r after %s" % (F, who), tags)
    Ns = solver.Ns
    if Ns is None or len(Ns) != K:
        raise Violation("shape_Ns", "Ns is %r after %s" % (Ns, who), tags)
    W, W_H = solver.W, solver.W_H
    if W is None or W_H is None:
        raise Violation("no_filters", "W/W_H is None after %s" % who, tags)
    n_list = []
    for k in range(K):
        Fk = np.asarray(F[k])
        n = Fk.shape[1] if Fk.ndim == 2 else -1
        n_list.append(n)
        ok = (Fk.ndim == 2 and Fk.shape[0] == Nt[k] and n >= 1 and
              int(Ns[k]) == n and np.shape(W[k]) == (Nr[k], n) and
              np.shape(W_H[k]) == (n, Nr[k]))
        if not ok:
            raise Violation(
                "shape_streams",
                "user %d: Ns=%r F%r W%r W_H%r (Nt=%d Nr=%d)" %
                (k, Ns[k], np.shape(F[k]), np.shape(W[k]),
                 np.shape(W_H[k]), Nt[k], Nr[k]), tags)
        _close(ctx, "F_unit_norm", abs(_fro(Fk) - 1.0), 1e-9,
                  "user %d |F|=%r after %s" % (k, _fro(Fk), who), tags)
        _close(ctx, "W_H_is_hermitian_of_W",
                  _fro(np.asarray(W_H[k]) - np.asarray(W[k]).conj().T),
                  1e-12 * (1.0 + _fro(W[k])), "", tags)
    P = np.asarray(solver.P, dtype=float)
    if P.shape != (K,) or not np.array_equal(P, P_exp):
        raise Violation("P_value", "P=%r expected %r after %s" %
                        (P, P_exp, who), tags)
    fullF = solver.full_F
    for k in range(K):
        fk = np.asarray(fullF[k])
        if fk.shape != np.shape(F[k]):
            raise Violation("shape_full_F", "user %d full_F%r F%r" %
                            (k, fk.shape, np.shape(F[k])), tags)
        pw = _fro(fk) ** 2
        if cls == "MMSE":
            exc = max(0.0, pw / P_exp[k] - 1.0)
            _close(ctx, "power_exceeded", exc, 1e-6,
                   "user %d |full_F|^2=%r P=%r" % (k, pw, P_exp[k]),
                   dict(tags, snr_class=_snr_class(cfg, H, P_exp, k),
                        excess_class="ppm" if exc < 1e-3 else "gross"))
            if pw < P_exp[k] * (1 - 1e-6):
                ctx.label("mmse_power_below_P")
        else:
            _close(ctx, "power_not_met", abs(pw / P_exp[k] - 1.0), 1e-9,
                      "user %d |full_F|^2=%r P=%r" % (k, pw, P_exp[k]), tags)
        if cfg.get("pexp") and cls in ("MMSE", "MaxSinr"):
            # very low SNR: the solution degenerates to fewer streams and the
            # library's stream reduction takes F and full_F through separate
            # SVDs, each keeping the first n columns of its rank-n
            # approximation - columns that hold components of relative size
            # 1e-4 and less, whose mixing (n = 1: phase) is only known to a
            # few digits.  What can be demanded there is that both span the
            # same space (seen on the unchanged tree at P = 1e-12, 4 -> 2
            # streams: same span to 1e-13, columns differ by 6e-4 relative)
            Fk_ = np.asarray(F[k])
            r1 = fk - Fk_ @ np.linalg.lstsq(Fk_, fk, rcond=None)[0]
            r2 = Fk_ - fk @ np.linalg.lstsq(fk, Fk_, rcond=None)[0]
            _close(ctx, "full_F_parallel_F",
                   _fro(r1) / max(_fro(fk), 1e-300) + _fro(r2), 1e-8,
                   "user %d (same column space)" % k, tags)
            ctx.label("full_F_parallel_F:same_span_only(very low SNR)")
        else:
            _close(ctx, "full_F_parallel_F",
                   _fro(fk - _fro(fk) * np.asarray(F[k])) /
                   max(_fro(fk), 1e-300), 1e-9, "user %d" % k, tags)
    # (ASSUMPTIONS: no identity is demanded when an effective channel
    # W_H*H_kk*full_F is numerically singular - cond > 1e8, e.g. an overloaded
    # max-SINR solution after stream reduction; the library cannot invert it
    # either and raises LinAlgError when full_W_H is read)
    for k in range(K):
        Ak = np.asarray(W_H[k]) @ H[k][k] @ np.asarray(fullF[k])
        kap = float(np.linalg.cond(Ak)) if Ak.size else 1.0
        if not np.isfinite(kap) or kap > 1e8:
            ctx.label("identity_skipped_illcond")
            return n_list
    fWH = solver.full_W_H
    fW = solver.full_W
    for k in range(K):
        r = _check_identity(ctx, "full_W_H", np.asarray(fWH[k]), H[k][k],
                            np.asarray(fullF[k]), tags, np.asarray(W_H[k]))
        if r is not None and not (r[0] <= r[1]):
            raise Violation("identity_full_W_H",
                            "user %d |full_W_H*Hkk*full_F - I| = %.3e > %.3e"
                            % (k, r[0], r[1]), tags)
        _close(ctx, "full_W_is_hermitian_of_full_W_H",
                  _fro(np.asarray(fW[k]) - np.asarray(fWH[k]).conj().T),
                  1e-12 * (1.0 + _fro(fWH[k])), "", tags)
    return n_list


def _closed_form_nulling(ctx, solver, cfg, H, tags):
    K = cfg["K"]
    leak, scale, kmax = 0.0, 0.0, 1.0
    for k in range(K):
        for l in range(K):
            if l != k:
                kmax = max(kmax, float(np.linalg.cond(H[k][l])))
                leak += _fro(solver.W_H[k] @ H[k][l] @ solver.F[l]) ** 2
                scale += (_fro(solver.W_H[k]) * np.linalg.norm(H[k][l], 2) *
                          _fro(solver.F[l])) ** 2
    # amplitude error of the chained inverses ~ eps * kappa^2
    tol_amp = 1e-9 * kmax ** 2
    if tol_amp > 1e-3:
        ctx.label("nulling_skipped_illcond")
        return
    _close(ctx, "closed_form_nulling", np.sqrt(leak / scale) / kmax ** 2,
           1e-9, "leak=%.3e scale=%.3e kappa=%.1e" % (leak, scale, kmax),
           tags)


# ----------------------------------------------------------------------------
# part: post
# ----------------------------------------------------------------------------
def _label_cfg(ctx, cls, cfg, Ns):
    ctx.label("cls=" + cls, "K=%d" % cfg["K"])
    sq = list(cfg["Nr"]) == list(cfg["Nt"])
    uni = len(set(cfg["Nr"])) == 1 and len(set(cfg["Nt"])) == 1
    ctx.label("layout=" + ("square" if sq and uni else
                           "rect_uniform" if uni else "per_user"))
    ctx.label("noise=" + ("none" if cfg["noise"] is None else "set"))
    if cfg["kappa"] > 1:
        ctx.label("kappa=%d" % cfg["kappa"])
    if Ns is not None:
        ctx.label("maxNs=%d" % max(Ns))
        if len(set(Ns)) > 1:
            ctx.label("unequal_Ns")


def _check_post(case, ctx):
    cls, cfg, Ns = case["cls"], case["cfg"], [int(n) for n in case["Ns"]]
    K = cfg["K"]
    init = case.get("init")
    tags = _base_tags(cls, cfg, Ns, init)
    ch, H = _build_channel(cfg)
    solver = _make_solver(cls, ch, case["seed"], case.get("best", True))
    p_arg, P_exp = _p_arg(case["p_form"], case["pvals"], K)
    _label_cfg(ctx, cls, cfg, Ns)
    ctx.label("P=" + case["p_form"])
    if cls == "ClosedForm":
        ctx.label("best_init" if case["best"] else "first_init")
    else:
        ctx.label("init=" + init)
        solver.initialize_with = init
        solver.max_iterations = int(case["max_iter"])
    ctx.nontrivial(max(Ns) >= 2 or len(set(cfg["Nr"] + cfg["Nt"])) > 1 or
                   case["p_form"] in ("list", "array"))
    if cls == "MMSE":
        ctx.label("mmse_snr=" + _snr_class(cfg, H, P_exp))
    with _tagged(tags):
        if case["seed"] % 3 == 0:
            # the SAME solver and channel objects already solved another
            # channel realisation (a Monte-Carlo loop re-randomises the
            # channel object and calls solve() again): the solution must be
            # the one of the CURRENT channel
            ctx.label("solver_reused_after_channel_change")
            big_now = np.array(ch.big_H, copy=True)
            rs0 = np.random.RandomState(case["seed"])
            other = _randc(rs0, *big_now.shape) * cfg["hscale"]
            Nr_a = np.array(cfg["Nr"], dtype=int)
            Nt_a = np.array(cfg["Nt"], dtype=int)
            ch.init_from_channel_matrix(other, Nr_a, Nt_a, K)
            solver.solve(_ns_arg(case["ns_form"], Ns), p_arg)
            ch.init_from_channel_matrix(big_now, Nr_a, Nt_a, K)
        if case.get("greedy"):
            from pyphysim.ia.algorithms import GreedStreamIASolver
            before = [int(n) for n in Ns]
            GreedStreamIASolver(solver).solve(
                _ns_arg(case["ns_form"], Ns), p_arg)
            tags = dict(tags, greedy=True)
            ctx.label("greedy_wrapper")
            n_list = _postconditions(ctx, solver, cls, cfg, H, P_exp, tags)
            if any(a > b for a, b in zip(n_list, before)) or min(n_list) < 1:
                raise Violation("greedy_streams", "streams %r after greedy "
                                "reduction from %r" % (n_list, before), tags)
            ctx.label("greedy_reduced" if n_list != before
                      else "greedy_kept_all")
            return
        if case.get("brute"):
            from pyphysim.ia.algorithms import BruteForceStreamIASolver
            before = [int(n) for n in Ns]
            BruteForceStreamIASolver(solver).solve(
                _ns_arg(case["ns_form"], Ns), p_arg)
            tags = dict(tags, brute=True)
            ctx.label("brute_force_wrapper")
            n_list = _postconditions(ctx, solver, cls, cfg, H, P_exp, tags)
            if any(a > b for a, b in zip(n_list, before)) or min(n_list) < 1:
                raise Violation("brute_streams", "streams %r chosen by the "
                                "brute force search up to %r" %
                                (n_list, before), tags)
            return
        if cls != "ClosedForm" and case["seed"] % 4 == 1:
            # an initialisation mode that does not exist is refused; the
            # solver then works as configured
            try:
                solver.initialize_with = "no_such_mode"
            except RuntimeError:
                ctx.label("bad_initialize_with_refused")
            else:
                raise Violation("bad_init_mode_accepted", "initialize_with = "
                                "'no_such_mode' was accepted", tags)
        ns_given = _ns_arg(case["ns_form"], Ns)
        solver.solve(ns_given, p_arg)
        if isinstance(ns_given, np.ndarray):
            if not np.array_equal(ns_given, np.array(Ns)):
                raise Violation("Ns_argument_modified", "solve changed the "
                                "array of stream counts handed to it: %r -> "
                                "%r" % (Ns, ns_given.tolist()), tags)
            # the caller re-uses its array for the next configuration
            ns_given[...] = 1
            ctx.label("Ns_array_reused_by_caller")
        n_list = _postconditions(ctx, solver, cls, cfg, H, P_exp, tags)
        if n_list != Ns:
            ctx.label("stream_reduced")
            if cls != "ClosedForm":
                # the documented way to go on: 'fix' and the same arguments
                # as before (the request is now larger than what the
                # precoders hold; the streams follow the precoders)
                solver.initialize_with = "fix"
                solver.solve(_ns_arg(case["ns_form"], Ns), p_arg)
                ctx.label("fix_with_original_request_after_reduction")
                n2 = _postconditions(ctx, solver, cls, cfg, H, P_exp,
                                     dict(tags, init="fix"),
                                     who="'fix' solve with the original "
                                     "request after a stream reduction")
                if any(a > b for a, b in zip(n2, n_list)):
                    raise Violation("shape_streams", "streams %r after a "
                                    "'fix' continuation of a solution with "
                                    "%r" % (n2, n_list), tags)
                n_list = n2
        if cls == "ClosedForm":
            _closed_form_nulling(ctx, solver, cfg, H, tags)
        if cls in ("AltMin", "MinLeakage") and n_list == Ns:
            _check_cost(ctx, solver, cls, cfg, H, n_list, tags)


def _check_cost(ctx, solver, cls, cfg, H, Ns, tags):
    """reported cost == leaked interference power from first principles"""
    fullF = [np.asarray(f) for f in solver.full_F]
    cost = float(np.real(solver.get_cost()))
    leak, scale = _leak_oracle(H, fullF, Ns)
    if cls == "AltMin" and cfg["noise"] is None:
        _close(ctx, "cost_vs_eigen_oracle", abs(cost - leak),
                  1e-9 * leak + 1e-12 * scale,
                  "get_cost=%r oracle=%r" % (cost, leak), tags)
    if cls == "MinLeakage":
        W = [np.asarray(w) for w in solver.W]
        ref = _filtered_leak(H, fullF, W, cfg["noise"])
        _close(ctx, "cost_vs_filtered_leak", abs(cost - ref),
                  1e-9 * ref + 1e-12 * scale,
                  "get_cost=%r sum|W^H H F|^2=%r" % (cost, ref), tags)
    return cost, leak, scale


# ----------------------------------------------------------------------------
# part: mono
# ----------------------------------------------------------------------------
def _eig_degenerate(cls, cfg, Ns):
    """does an update ask leig/peig for >= 2 eigenvectors out of a repeated
    (zero) eigenvalue?  Interference covariances have rank
    min(N, sum of the other users' streams)."""
    K = cfg["K"]
    for k in range(K):
        S = sum(Ns[l] for l in range(K) if l != k)
        null_r = cfg["Nr"][k] - min(cfg["Nr"][k], S)
        null_t = cfg["Nt"][k] - min(cfg["Nt"][k], S)
        if Ns[k] >= 2 and null_t >= 2:          # precoder update
            return True
        if cls == "MinLeakage" and Ns[k] >= 2 and null_r >= 2:
            return True
        if cls == "AltMin" and \
                (cfg["Nr"][k] - Ns[k]) - min(cfg["Nr"][k], S) >= 2:
            return True                          # C_k: null vectors in peig
    return False


def _check_mono(case, ctx):
    cls, cfg, Ns = case["cls"], case["cfg"], [int(n) for n in case["Ns"]]
    K = cfg["K"]
    tags = _base_tags(cls, cfg, Ns, case["init"])
    tags["eig_degenerate"] = _eig_degenerate(cls, cfg, Ns)
    tags["F_nonorthogonal"] = False
    ch, H = _build_channel(cfg)
    solver = _make_solver(cls, ch, case["seed"])
    p_arg, P_exp = _p_arg(case["p_form"], case["pvals"], K)
    ns_arg = _ns_arg(case["ns_form"], Ns)
    _label_cfg(ctx, cls, cfg, Ns)
    if tags["eig_degenerate"]:
        ctx.label("eig_degenerate")
    ctx.label("init=" + case["init"])
    solver.initialize_with = case["init"]
    solver.max_iterations = 1
    equal = len(set(Ns)) == 1
    seq = []
    with _tagged(tags):
        for i in range(int(case["steps"]) + 1):
            solver.solve(ns_arg, p_arg)
            n_list = _postconditions(ctx, solver, cls, cfg, H, P_exp, tags)
            if n_list != Ns:
                ctx.label("stream_reduced")
                # go on once more as a user would: 'fix' and the ORIGINAL
                # request (the cost sequence ends here: the objective
                # changes with the stream counts)
                solver.initialize_with = "fix"
                solver.solve(ns_arg, p_arg)
                ctx.label("fix_with_original_request_after_reduction")
                _postconditions(ctx, solver, cls, cfg, H, P_exp, tags,
                                who="'fix' solve with the original request "
                                "after a stream reduction")
                break
            seq.append(_check_cost(ctx, solver, cls, cfg, H, Ns, tags))
            # the precoders are eigenvectors of a Hermitian matrix: their
            # columns should be orthogonal (symptom tag, not a check)
            for k in range(K):
                G = np.asarray(solver.F[k]).conj().T @ np.asarray(solver.F[k])
                off = float(np.abs(G - np.diag(np.diag(G))).max()) * Ns[k]
                if off > 1e-8:
                    tags["F_nonorthogonal"] = True
            solver.initialize_with = "fix"
    if not seq:
        return
    cost0, leak0, scale = seq[0]
    if tags["F_nonorthogonal"]:
        ctx.label("F_nonorthogonal")
    ctx.label("leak0>1e-3" if leak0 > 1e-3 * scale else "leak0_small")
    ctx.nontrivial(leak0 > 1e-3 * scale and len(seq) >= 3)
    for i in range(1, len(seq)):
        c0, l0, s0 = seq[i - 1]
        c1, l1, s1 = seq[i]
        t = dict(tags, step=i)
        # rounding of both evaluations: eps * (unfiltered interference power)
        sc = max(s0, s1)
        if c1 > c0 * (1 + 1e-9) + 1e-13 * sc:
            raise Violation("cost_increased",
                            "get_cost %.12e -> %.12e at iteration %d "
                            "(unfiltered %.3e)" % (c0, c1, i, sc), t)
        if equal and l1 > l0 * (1 + 1e-9) + 1e-13 * sc:
            raise Violation("leak_increased",
                            "leaked power %.12e -> %.12e at iteration %d "
                            "(unfiltered %.3e)" % (l0, l1, i, sc), t)
        if not (tags["eig_degenerate"] or tags["F_nonorthogonal"]):
            # fraction of the allowance used (cases showing the symptoms of
            # the open leig/peig finding are left out of this statistic)
            ctx.err("increase_over_allowance",
                    max(0.0, c1 - c0) / (1e-9 * c0 + 1e-13 * sc), 1.0)
    if seq[-1][1] < 0.5 * leak0:
        ctx.label("leak_halved")


# ----------------------------------------------------------------------------
# part: hist  (op interpreter + reference model)
# ----------------------------------------------------------------------------
class _Model(object):
    """primaries and what follows from them"""
    def __init__(self, cfg, H):
        self.cfg, self.H, self.K = cfg, H, cfg["K"]
        self.P = None            # None -> ones
        self.F = None            # list of unit-norm precoders
        self.fullF_explicit = None
        self.W = None            # receive filters (W[k] = W_H[k]^H)
        self.solved = False      # cost readable: solve, then only P changes
        self.proj = None         # AltMin: interference-subspace projectors
        # stale bookkeeping for the lazily cached derived quantities
        # quantity -> candidates [value, kinds of changes since it was
        # (possibly) cached by the library]
        self.cands = {q: [] for q in DERIVED}
        self.read_derived = False
        self.changed_after_read = False

    def Pvec(self):
        return np.ones(self.K) if self.P is None else self.P

    def Ns(self):
        return [f.shape[1] for f in self.F]

    def fullF(self):
        if self.fullF_explicit is not None:
            return self.fullF_explicit
        p = self.Pvec()
        return [self.F[k] * np.sqrt(p[k]) for k in range(self.K)]

    def W_ok(self):
        return (self.W is not None and self.F is not None and
                all(self.W[k].shape[1] == self.F[k].shape[1]
                    for k in range(self.K)))

    def cache_cleared(self, *quantities):
        """the library documents/implements a reset of these caches here:
        nothing older can legitimately be returned afterwards"""
        for q in quantities:
            self.cands[q] = []

    def now_cached(self, q, value):
        """the library returned `value` for q (verified): that is what its
        cache holds now"""
        self.cands[q] = [[value, set()]]

    def maybe_cached(self, q, value):
        self.cands[q].append([value, set()])

    def implicitly_cached(self, what, obs):
        """computing `what` makes the library evaluate (and cache) the
        quantities it is derived from, if they were not cached already"""
        self.maybe_cached("full_F", [f.copy() for f in self.fullF()])
        if what == "full_W":
            self.maybe_cached("full_W_H", [o.conj().T.copy() for o in obs])

    def note_change(self, kind, quantities):
        for q in quantities:
            for c in self.cands[q]:
                c[1].add(kind)
        if self.read_derived:
            self.changed_after_read = True


def _resolve_ns(op, cfg, model, cls):
    K = cfg["K"]
    lim = [min(a, b) - 1 for a, b in zip(cfg["Nr"], cfg["Nt"])]
    if op.get("ns_mode") == "keep" and model.F is not None:
        cur = model.Ns()
        if all(1 <= cur[k] <= lim[k] for k in range(K)) and \
                (cls != "ClosedForm" or (len(set(cur)) == 1 and
                                         2 * cur[0] <= cfg["Nr"][0])):
            return cur
    raw = op["ns"]
    if cls == "ClosedForm":
        return [1 + raw[0] % (cfg["Nr"][0] // 2)] * K
    if op.get("ns_form") == "int":
        return [1 + raw[0] % min(lim)] * K
    return [1 + raw[k] % lim[k] for k in range(K)]


def _stale_tags(model, q, observed):
    """was the mismatching value simply a previously cached one?  -> tags
    quantity / stale / changes (kinds of changes since it was cached)"""
    def same(a, b):
        if np.isscalar(a) or np.isscalar(b):
            return abs(a - b) <= 1e-12 * abs(b)
        return len(a) == len(b) and all(
            np.shape(x) == np.shape(y) and
            _fro(np.asarray(x) - np.asarray(y)) <= 1e-12 * (1.0 + _fro(y))
            for x, y in zip(a, b))
    for value, changes in reversed(model.cands[q]):
        if same(observed, value):
            return dict(quantity=q, stale=True,
                        changes="+".join(sorted(changes)))
    allc = set()
    for _, changes in model.cands[q]:
        allc |= changes
    return dict(quantity=q, stale=False, changes="+".join(sorted(allc)))


def _read(ctx, solver, model, cls, what, tags, opi):
    K, H = model.K, model.H
    derived = what in DERIVED
    t = dict(tags, quantity=what, op_index=opi)
    if what == "P":
        got = np.asarray(solver.P, dtype=float)
        if got.shape != (K,) or not np.array_equal(got, model.Pvec()):
            raise Violation("read_P", "P=%r model %r" % (got, model.Pvec()),
                            t)
        return True
    if what == "Ns":
        got = solver.Ns
        if got is None or [int(x) for x in got] != model.Ns():
            raise Violation("read_Ns", "Ns=%r model %r" % (got, model.Ns()),
                            t)
        return True
    if what == "F":
        got = solver.F
        if got is None:
            raise Violation("read_missing", "solver.F is None although "
                            "precoders / filters were set", t)
        for k in range(K):
            g = np.asarray(got[k])
            if g.shape != model.F[k].shape:
                raise Violation("read_F", "shape %r model %r" %
                                (g.shape, model.F[k].shape), t)
            _close(ctx, "read_F", _fro(g - model.F[k]), 1e-12, "user %d" % k, t)
            _close(ctx, "F_unit_norm", abs(_fro(g) - 1.0), 1e-9,
                      "user %d (history)" % k, t)
        return True
    if what == "full_F":
        got = solver.full_F
        if got is None:
            raise Violation("read_missing", "solver.full_F is None although "
                            "precoders / filters were set", t)
        exp = model.fullF()
        obs = [np.asarray(got[k]) for k in range(len(got))]
        bad, worst = None, 0.0
        if len(obs) != K:
            bad = "length %d" % len(obs)
        else:
            for k in range(K):
                if obs[k].shape != exp[k].shape:
                    bad = "user %d shape %r model %r" % (k, obs[k].shape,
                                                         exp[k].shape)
                    break
                e = _fro(obs[k] - exp[k])
                tol = 1e-10 * (_fro(exp[k]) + 1e-300)
                worst = max(worst, e / (_fro(exp[k]) + 1e-300))
                if not e <= tol:
                    bad = "user %d |full_F - F*sqrt(P)| = %.3e (|.|=%.3e)" % (
                        k, e, _fro(exp[k]))
                    break
        if bad:
            raise Violation("read_full_F", bad,
                            dict(t, **_stale_tags(model, "full_F", obs)))
        ctx.err("read_full_F", worst, 1e-10)
        model.now_cached("full_F", [o.copy() for o in obs])
        return True
    if what in ("W", "W_H"):
        if model.W is None:
            ctx.label("read_skipped:no_filters")
            return False
        got = solver.W if what == "W" else solver.W_H
        if got is None:
            raise Violation("read_missing", "solver.%s is None although "
                            "receive filters were set" % what, t)
        for k in range(K):
            exp = model.W[k] if what == "W" else model.W[k].conj().T
            g = np.asarray(got[k])
            if g.shape != exp.shape:
                raise Violation("read_" + what, "shape %r model %r" %
                                (g.shape, exp.shape), t)
            _close(ctx, "read_" + what, _fro(g - exp), 1e-12 * (1 + _fro(exp)),
                      "user %d" % k, t)
        return True
    if what in ("full_W_H", "full_W"):
        if not model.W_ok():
            ctx.label("read_skipped:no_filters" if model.W is None
                      else "read_skipped:filters_other_Ns")
            return False
        got = solver.full_W_H if what == "full_W_H" else solver.full_W
        if got is None:
            raise Violation("read_missing", "solver.%s is None although "
                            "precoders and receive filters were set" % what,
                            t)
        obs = [np.asarray(got[k]) for k in range(K)]
        fF = model.fullF()
        bad = None
        for k in range(K):
            X = obs[k] if what == "full_W_H" else obs[k].conj().T
            try:
                r = _check_identity(ctx, what, X, H[k][k], fF[k], t,
                                    model.W[k].conj().T)
            except Violation as v:
                bad = v.detail
                break
            if r is not None and not (r[0] <= r[1]):
                bad = ("user %d |%s*Hkk*full_F - I| = %.3e > %.3e" %
                       (k, what, r[0], r[1]))
                break
        if bad:
            # report the upstream quantity if that is what is wrong
            _read(ctx, solver, model, cls, "full_F", tags, opi)
            if what == "full_W":
                _read(ctx, solver, model, cls, "full_W_H", tags, opi)
            raise Violation("read_" + what, bad,
                            dict(t, **_stale_tags(model, what, obs)))
        model.now_cached(what, [o.copy() for o in obs])
        model.implicitly_cached(what, obs)
        return True
    if what == "cost":
        if cls not in ("AltMin", "MinLeakage") or not model.solved \
                or not model.W_ok():
            ctx.label("read_skipped:cost_undefined")
            return False
        cost = float(np.real(solver.get_cost()))
        fF = model.fullF()
        scale = _leak_oracle(H, fF, model.Ns())[1]
        nz = model.cfg["noise"]
        tiny = bool(model.cfg.get("pexp")) or (
            model.cfg["hscale"] < 0.1 and not model.cfg.get("noise_scaled"))
        if cls == "AltMin" and nz and (tiny or scale < 1e-4 * nz):
            # the library takes the interference subspace from the
            # eigenvectors of (interference + noise*I): with the noise 1e4
            # times above the interference they are only known to eps*noise/
            # interference - no exact cost can be demanded
            ctx.label("read_skipped:cost_interference_below_noise")
            return False
        if cls == "MinLeakage":
            ref = _filtered_leak(H, fF, model.W, model.cfg["noise"])
        else:
            if model.proj is None:
                ctx.label("read_skipped:cost_undefined")
                return False
            ref = 0.0
            for k in range(K):
                for l in range(K):
                    if l != k:
                        A = H[k][l] @ fF[l]
                        ref += _fro(A - model.proj[k] @ A) ** 2
        e = abs(cost - ref)
        tol = 1e-8 * ref + 1e-11 * scale
        if e <= tol:
            ctx.err("read_cost", e / (ref + 1e-3 * scale + 1e-300), 1e-8)
        else:
            _read(ctx, solver, model, cls, "full_F", tags, opi)
            st_ = _stale_tags(model, "cost", cost)
            raise Violation("read_cost", "get_cost=%r model %r" % (cost, ref),
                            dict(t, **st_))
        model.now_cached("cost", cost)
        model.implicitly_cached("cost", None)
        return True
    raise AssertionError("unknown read %r" % what)


def _altmin_projectors(H, fullF, Ns, Nr):
    """projector onto the span of the Nr-Ns dominant eigenvectors of Q_k
    (restricted to range(Q_k)); None when that choice is not unique"""
    K = len(H)
    out = []
    for k in range(K):
        Q = np.zeros((Nr[k], Nr[k]), dtype=complex)
        for l in range(K):
            if l != k:
                A = H[k][l] @ fullF[l]
                Q = Q + A @ A.conj().T
        ev, V = np.linalg.eigh((Q + Q.conj().T) / 2.0)
        ev, V = ev[::-1], V[:, ::-1]
        top = ev[0] if ev[0] > 0 else 1.0
        rank = int(np.sum(ev > 1e-10 * top))
        ni = Nr[k] - int(Ns[k])
        n = min(ni, rank)
        if n < rank and (ev[n - 1] - ev[n]) < 1e-6 * top:
            return None  # tie at the cut
        Vn = V[:, :n]
        out.append(Vn @ Vn.conj().T)
    return out


def _apply(ctx, solver, model, cls, op, tags, opi):
    cfg, K, H = model.cfg, model.K, model.H
    kind = op["op"]
    if kind == "read":
        for what in op["what"]:
            if model.F is None:
                ctx.label("read_skipped")
                continue
            done = _read(ctx, solver, model, cls, what, tags, opi)
            if done and what in DERIVED:
                if model.changed_after_read:
                    ctx.label("pattern:read-change-read_derived")
                    ctx.nontrivial(True)
                model.read_derived = True
        return

    if kind == "bad_P":
        v = [float(x) for x in op["pvals"][:K]]
        how = op["how"]
        if how == "negative":
            arg = list(v)
            arg[-1] = -abs(arg[-1])
        elif how == "zero":
            arg = np.array(v)
            arg[0] = 0.0
        elif how == "length":
            arg = list(v) + [1.0]
        else:
            arg = 0.0
        try:
            solver.P = arg
        except ValueError:
            ctx.label("bad_P_refused:" + how)
            return          # the model is unchanged: so must the solver be
        raise Violation("bad_P_accepted", "solver.P = %r was accepted" %
                        (arg,), tags)

    if kind == "bad_call":
        what = op["what"]
        if what == "solve_badP" and cls == "Base":
            what = "randomizeF_badP"
        Ns_now = [int(f.shape[1]) for f in solver.F] if solver.F is not None \
            else [1] * K
        W1 = _objarray([np.ones((cfg["Nr"][k], 1), dtype=complex)
                   for k in range(K)])
        F1 = _objarray([np.ones((cfg["Nt"][k], 1), dtype=complex)
                   for k in range(K)])
        calls = {
            "rx_none": (lambda: solver.set_receive_filters(), RuntimeError),
            "rx_both": (lambda: solver.set_receive_filters(W_H=W1, W=W1),
                        RuntimeError),
            "prec_none": (lambda: solver.set_precoders(), RuntimeError),
            "prec_badP": (lambda: solver.set_precoders(F=F1, P=-1.0),
                          ValueError),
            "randomizeF_badP": (lambda: solver.randomizeF(Ns_now, 0.0),
                                ValueError),
            "solve_badP": (lambda: solver.solve(Ns_now, -2.0), ValueError),
        }
        fn, exc = calls[what]
        try:
            fn()
        except exc:
            ctx.label("bad_call_refused:" + what)
            return          # the model is unchanged: so must the solver be
        raise Violation("bad_call_accepted", "%s was accepted" % what, tags)

    if kind == "P_augmented":
        ctx.label("P_augmented_assignment")
        want = model.Pvec() * float(op["factor"])
        solver.P *= float(op["factor"])
        model.P = np.array(want, dtype=float, copy=True)
        model.fullF_explicit = None
        model.note_change("P_setter", DERIVED)
        return

    if kind == "P_inplace":
        arr = getattr(model, "caller_P", None)
        if arr is None:
            ctx.label("P_inplace_skipped(no array assigned before)")
            return
        ctx.label("P_inplace")
        arr *= float(op["factor"])
        solver.P = arr
        model.P = np.array(arr, dtype=float, copy=True)
        model.fullF_explicit = None
        model.note_change("P_setter", DERIVED)
        return

    if kind == "setP":
        p_arg, P_exp = _p_arg(op["p_form"], op["pvals"], K)
        old = model.Pvec()
        if op["p_form"] == "array" and isinstance(p_arg, np.ndarray) \
                and p_arg.dtype.kind == "f":
            model.caller_P = p_arg        # the caller keeps its own array
        solver.P = p_arg
        model.P = None if op["p_form"] == "none" else P_exp
        if np.array_equal(old, model.Pvec()):
            # an assignment of the same power is not a change: an explicitly
            # given full_F (possibly below the power budget) stays valid
            ctx.label("setP_same_value")
            return
        model.fullF_explicit = None
        model.note_change("P_setter", DERIVED)
        return

    if kind == "randomizeF":
        Ns = _resolve_ns(op, cfg, model, "Base")
        p_arg, P_exp = _p_arg(op["p_form"], op["pvals"], K)
        solver.randomizeF(_ns_arg(op["ns_form"], Ns), p_arg)
        model.P = None if op["p_form"] == "none" else P_exp
        F = solver.F
        newF = []
        for k in range(K):
            Fk = np.asarray(F[k])
            if Fk.shape != (cfg["Nt"][k], Ns[k]):
                raise Violation("shape_randomizeF", "user %d F%r, Nt=%d Ns=%d"
                                % (k, Fk.shape, cfg["Nt"][k], Ns[k]), tags)
            _close(ctx, "F_unit_norm", abs(_fro(Fk) - 1.0), 1e-9,
                      "user %d after randomizeF" % k, tags)
            newF.append(Fk.copy())
        model.F, model.fullF_explicit = newF, None
        model.solved = False
        tags["F_container"] = "objarray"
        model.note_change("randomizeF", DERIVED)
        model.cache_cleared("full_F")
        return

    if kind == "set_precoders":
        Ns = _resolve_ns(op, cfg, model, "Base")
        rs = np.random.RandomState(op["fseed"])
        F = []
        for k in range(K):
            A = _randc(rs, cfg["Nt"][k], Ns[k])
            F.append(A / _fro(A))
        with_P = bool(op["with_P"])
        P_new = np.array([float(x) for x in op["pvals"][:K]])
        P_eff = P_new if with_P else model.Pvec()
        wrap = _objarray if op["container"] == "objarray" else list
        cont = op["container"]
        if cont == "ndarray3d":
            # equally shaped precoders stacked in ONE 3-D numpy array ("a
            # numpy array where each element is the precoder of one user")
            if len(set(f.shape for f in F)) == 1:
                wrap = np.array
            else:
                wrap, cont = _objarray, "objarray"
        kw = {}
        mode = op["mode"]
        if mode in ("F", "both"):
            kw["F"] = wrap([f.copy() for f in F])
        explicit = None
        if mode == "full_F":
            # (every other case: a precoder that backs off from the budget)
            back = op["factor"] if op["fseed"] % 2 == 0 else 1.0
            explicit = [F[k] * np.sqrt(P_eff[k] * back) for k in range(K)]
            if back != 1.0:
                ctx.label("set_precoders:full_F_below_budget")
        elif mode == "both":
            explicit = [F[k] * np.sqrt(P_eff[k] * op["factor"])
                        for k in range(K)]
        if explicit is not None:
            kw["full_F"] = wrap([f.copy() for f in explicit])
        if with_P:
            kw["P"] = P_new.copy()
        tags["F_container"] = (cont if cont in ("list", "ndarray3d") and
                               mode in ("F", "both") else "objarray")
        solver.set_precoders(**kw)
        if mode == "full_F":
            F = [explicit[k] / _fro(explicit[k]) for k in range(K)]
        model.F, model.fullF_explicit = F, explicit
        if with_P:
            model.P = P_new
        model.solved = False
        ctx.label("set_precoders:" + mode + ("+P" if with_P else ""),
                  "container=" + cont)
        model.note_change("set_precoders", DERIVED)
        model.cache_cleared("full_F")
        if explicit is not None:   # the setter itself fills the cache
            model.now_cached("full_F", [f.copy() for f in explicit])
        return

    if kind == "set_receive_filters":
        if model.F is None:
            ctx.label("op_skipped")
            return
        Ns = model.Ns()
        rs = np.random.RandomState(op["wseed"])
        W = [_randc(rs, cfg["Nr"][k], Ns[k]) for k in range(K)]
        wrap = _objarray if op["container"] == "objarray" else list
        if op["which"] == "W":
            solver.set_receive_filters(W=wrap([w.copy() for w in W]))
        else:
            solver.set_receive_filters(
                W_H=wrap([w.conj().T.copy() for w in W]))
        model.W = W
        model.solved = False
        model.note_change("set_receive_filters", ("cost",))
        model.cache_cleared("full_W_H", "full_W")
        return

    if kind == "solve":
        Ns = _resolve_ns(op, cfg, model, cls)
        p_arg, P_exp = _p_arg(op["p_form"], op["pvals"], K)
        t = dict(tags)
        t.update(max_Ns=int(max(Ns)), equal_Ns=len(set(Ns)) == 1,
                 had_F=model.F is not None)
        init = None
        if cls != "ClosedForm":
            init = op["init"]
            if init not in _inits(cls, cfg, Ns, model.F is not None):
                init = "random"
            if init == "fix":
                # 'fix' continues from the current precoders: streams follow
                Ns = model.Ns()
                lim = [min(a, b) - 1 for a, b in zip(cfg["Nr"], cfg["Nt"])]
                if not all(1 <= Ns[k] <= lim[k] for k in range(K)):
                    init, Ns = "random", _resolve_ns(
                        dict(op, ns_mode="new"), cfg, model, cls)
                t.update(max_Ns=int(max(Ns)), equal_Ns=len(set(Ns)) == 1)
            solver.initialize_with = init
            solver.max_iterations = int(op["max_iter"])
            t["init"] = init
            ctx.label("hist_init=" + init)
        ns_call = Ns
        req = getattr(model, "requested_Ns", None)
        if init == "fix" and \
                op.get("fix_ns") == "requested" and req is not None and \
                len(req) == K and all(a >= b for a, b in zip(req, Ns)):
            # continue the previous solution with the same arguments as
            # before: after a stream reduction the request is larger than
            # what the precoders hold; the streams follow the precoders
            ns_call = list(req)
            if ns_call != list(Ns):
                ctx.label("fix_with_original_request_after_reduction")
        else:
            model.requested_Ns = list(Ns)
        with _tagged(t):
            solver.solve(_ns_arg(op["ns_form"], ns_call), p_arg)
            tags["F_container"] = t["F_container"] = "objarray"
            _postconditions(ctx, solver, cls, cfg, H, P_exp, t,
                            who="solve (history op %d)" % opi)
            if init == "fix" and \
                    [int(x) for x in solver.Ns] != \
                    [np.shape(f)[1] for f in solver.F]:
                raise Violation("shape_streams", "after a 'fix' solve Ns=%r "
                                "but the precoders have %r columns" %
                                (list(solver.Ns),
                                 [np.shape(f)[1] for f in solver.F]), t)
            if cls == "ClosedForm":
                _closed_form_nulling(ctx, solver, cfg, H, t)
        # adopt the solution as the new primaries
        model.P = None if op["p_form"] == "none" else P_exp
        model.F = [np.asarray(f).copy() for f in solver.F]
        model.W = [np.asarray(w).copy() for w in solver.W]
        model.fullF_explicit = None
        if cls == "MMSE":
            model.fullF_explicit = [np.asarray(f).copy()
                                    for f in solver.full_F]
        model.solved = True
        model.proj = None
        if cls == "AltMin":
            model.proj = _altmin_projectors(H, model.fullF(), model.Ns(),
                                            cfg["Nr"])
        # the post-conditions read every derived quantity
        model.now_cached("full_F",
                         [np.asarray(f).copy() for f in solver.full_F])
        model.now_cached("full_W_H",
                         [np.asarray(f).copy() for f in solver.full_W_H])
        model.now_cached("full_W",
                         [np.asarray(f).copy() for f in solver.full_W])
        model.cache_cleared("cost")
        if model.read_derived:
            model.changed_after_read = True
        model.read_derived = True
        return
    raise AssertionError("unknown op %r" % kind)


def _cheap_invariant(solver, model, tags, opi):
    """non-perturbing part of the invariant (no lazy caches are filled)"""
    if model.F is None:
        return
    t = dict(tags, op_index=opi)
    got = np.asarray(solver.P, dtype=float)
    if got.shape != (model.K,) or not np.array_equal(got, model.Pvec()):
        raise Violation("read_P", "P=%r model %r" % (got, model.Pvec()), t)
    Ns = solver.Ns
    if Ns is None or [int(x) for x in Ns] != model.Ns():
        raise Violation("read_Ns", "Ns=%r model %r" % (Ns, model.Ns()), t)


def _check_hist(case, ctx):
    cls, cfg = case["cls"], case["cfg"]
    tags = _base_tags(cls, cfg)
    tags["F_container"] = "objarray"
    ch, H = _build_channel(cfg)
    solver = _make_solver(cls, ch, case["seed"], case.get("best", True))
    model = _Model(cfg, H)
    _label_cfg(ctx, cls, cfg, None)
    ctx.label("len=%d" % (len(case["ops"]) // 4 * 4))
    for i, op in enumerate(case["ops"]):
        ctx.label("op=" + op["op"])
        if op["op"] == "solve":
            _apply(ctx, solver, model, cls, op, tags, i)
        else:
            with _tagged(tags, op=op["op"]):
                _apply(ctx, solver, model, cls, op, tags, i)
        with _tagged(tags, op="invariant"):
            _cheap_invariant(solver, model, tags, i)
    # final sweep: every relation, in a fixed order
    final = dict(op="read", what=["P", "Ns", "F", "full_F", "W", "W_H",
                                  "full_W_H", "full_W", "cost"])
    with _tagged(tags, op="final_read"):
        _apply(ctx, solver, model, cls, final, tags, len(case["ops"]))


# ----------------------------------------------------------------------------
def _scaled_powers(case):
    """every power of the case times 10**cfg['pexp'] (absolute power level:
    normal, or very small as with a path loss / in dBm scales)"""
    cfg = case.get("cfg", {})
    e = int(cfg.get("pexp", 0) or 0)
    hs = float(cfg.get("hscale", 1.0))
    if not e and hs >= 0.1:
        return case
    f = 10.0 ** e
    if cfg.get("noise_scaled") and cfg.get("noise") is not None and \
            hs < 0.1:
        # the noise level follows the channel gain (thermal noise next to
        # a path loss): the signal-to-noise ratio stays in the usual range.
        # (Not the power level: a call without a power argument uses P = 1.)
        case = dict(case, cfg=dict(cfg, noise=float(cfg["noise"]) * hs * hs))
    if not e:
        return case

    def rec(x):
        if isinstance(x, dict):
            return dict((k, ([float(v) * f for v in val] if k == "pvals"
                             else rec(val))) for k, val in x.items())
        if isinstance(x, list):
            return [rec(v) for v in x]
        return x
    return rec(case)


def check(case, ctx):
    case = _scaled_powers(case)
    if case["cfg"].get("pexp"):
        ctx.label("powers_x_1e%d" % case["cfg"]["pexp"])
    if case["cfg"]["hscale"] < 0.1:
        ctx.label("channel_x_%g" % case["cfg"]["hscale"])
    if case["cfg"]["hscale"] < 0.1 and \
            case["cfg"].get("noise") is not None:
        ctx.label("noise_follows_scale" if case["cfg"].get("noise_scaled")
                  else "noise_fixed_at_tiny_signal")
    part = case["part"]
    if part == "post":
        return _check_post(case, ctx)
    if part == "mono":
        return _check_mono(case, ctx)
    if part == "hist":
        return _check_hist(case, ctx)
    raise AssertionError("unknown part %r" % part)
