"""C14 - Jakes fading samples do not depend on how generation was chunked.

History based check: a drawn sequence of generate(n) / skip(n) / shape=...
requests is applied to a real ``JakesSampleGenerator`` and to a model that only
tracks the integer sample position k.  After every request the returned block
must have exactly ``shape + (n,)`` entries and sample j of the block must equal
the sum-of-sinusoids model evaluated (in extended precision, from the integer
position) at time (k+j)*Ts for the phases observed once from the object.
"""
import math

import numpy as np
from hypothesis import strategies as st

from ..core import Part, Violation
from ..gens import seeds

PROPERTY = "C14"
LEVEL = "exploration"
RULE = ("histories of 1..12 (thorough ..20) requests generate(n) [n 1..200, "
        "occasionally ..5000, thorough ..1e5] / skip(n) [n up to 1e10, "
        "cumulative position <= 1e10] / shape change / continue with the "
        "generator returned by get_similar_fading_generator() on a seeded "
        "JakesSampleGenerator with Fd*Ts in {0} u [1e-5,0.5] u (0.5,50], Ts "
        "in 1e-9..1 "
        "(m*10^-d, plus powers of two), L 1..16, shape None/int/tuple up to "
        "(3,2,2); a start position >= 1e6 is a forced class (about 45% of "
        "histories); plus the module level generate_jakes_samples() chunked "
        "through its returned time (part func); non-trivial = two generate "
        "requests separated by a skip, or a generate request starting at a "
        "position > 1e6; distinct = SHA-1 of the case description")
RULE += (" Added after the white-box review: "
         "Fd*Ts also 1e-12..1e-5, shapes like (20,4,4), the caller's "
         "phase arrays re-used over the chunks of the module-level "
         "function ")

LEVEL_TEXT = ("Generated-input search (Hypothesis, seeded, sharded) over "
              "request histories of Jakes generators against an independent "
              "extended-precision evaluation of the sum-of-sinusoids model at "
              "the integer sample position, an exact count/shape check per "
              "request and a same-seed twin that obtains each contiguous "
              "stretch in one request. Absence of violations is not proven.")
LEVEL_NOTE = ("time base judged with a resolution of 1e-8*N_generated + "
              "16*eps*k*(N_generated+ops+4) sample periods (k = position): "
              "double-precision time stepping is accepted as rounding up to "
              "that amount, a shift by one sample is not")
TECHNIQUE = ("property-based testing (Hypothesis): operation histories "
             "against a position-tracking reference model + metamorphic "
             "re-chunking twin")
ASSUMPTIONS = [
    "the per-ray phases are read once per (re)configuration from the private "
    "attributes _phi_l/_psi_l (observation point, no hook) and must stay "
    "bitwise unchanged by generate/skip",
    "a sample is accepted when it is within sqrt(L)*2*pi*Fd*Ts*rho + 1e-12 of "
    "the model, rho = 1e-8*N_generated + 16*eps*k*(N_generated+ops+4) sample "
    "periods; rho stays <= 1e-2 except in the labelled class "
    "'resolution>1e-2' (long request at a huge position), where only count, "
    "shape and magnitude are informative",
    "the model is evaluated with numpy longdouble (64-bit mantissa required, "
    "checked at run time) from the integer position, so it carries no "
    "accumulated time error of its own",
    "requests are positive Python ints (or no argument = one sample); "
    "cumulative position is capped at 1e10 + 2e6 samples",
]
QUICK_BUDGET_S = 240
THOROUGH_BUDGET_S = 1500

POS_CAP = 10 ** 10
EPS = float(np.finfo(float).eps)
_POW2_TS = [1.0, 0.5, 2.0 ** -10, 2.0 ** -20, 2.0 ** -29]
_SPECIAL_POS = [10 ** 6, 3 * 10 ** 6, 10 ** 7, 10 ** 8, 10 ** 9, 10 ** 10,
                2 ** 23, 2 ** 30 - 1, 2 ** 33 + 1, 5 * 10 ** 6 + 7,
                123456789]


# ----------------------------------------------------------------------------
# generator
# ----------------------------------------------------------------------------
def _shape_st(big=False):
    small = _shape_small()
    if not big:
        return small
    # what a TdlChannel asks for: (taps, Nr, Nt)
    return st.one_of(small, small, small, small, st.sampled_from(
        [[20, 4, 4], [15, 2, 2], [12, 4, 2], [64], [6, 3, 3]]))


def _shape_small():
    return st.one_of(
        st.none(), st.none(),
        st.integers(1, 3),
        st.lists(st.integers(1, 3), min_size=1, max_size=1),
        st.tuples(st.integers(1, 3), st.integers(1, 2)).map(list),
        st.tuples(st.integers(1, 3), st.integers(1, 2),
                  st.integers(1, 2)).map(list))


def _ts_generic():
    """Ts = m * 10**-d in [1e-9, 1): not a power of two except by accident
    (Hypothesis likes the end points of a float range; with an exponent draw
    that would make Ts = 1.0 a quarter of all cases)"""
    return st.tuples(st.floats(1.0, 9.999), st.integers(1, 9)).map(
        lambda t: float(t[0] * 10.0 ** -t[1]))


@st.composite
def _fdts(draw):
    """Fd*Ts: 0 (time-invariant, about 1 in 11), 1e-5..0.5, or an
    under-sampled process 0.5..50 (about 1 in 11; the model is defined for
    any Doppler frequency and sampling interval)"""
    cls = draw(st.sampled_from(["wide", "high", "high", "wide", "high",
                                "zero", "wide", "high", "special", "high",
                                "under", "tiny"]))
    if cls == "zero":
        return 0.0
    if cls == "tiny":
        # slow fading sampled fast (Fd = 5 Hz, Ts = 1 ns): not static
        return float(draw(st.floats(1.0, 9.999)) *
                     10.0 ** -draw(st.integers(6, 12)))
    if cls == "under":
        return draw(st.one_of(
            st.sampled_from([1.0, 2.0, 10.0, 0.75, 1.5]),
            st.floats(0.5, 50.0).map(lambda x: round(x, 3))))
    if cls == "special":
        return draw(st.sampled_from([0.5, 0.25, 1e-5, 0.1, 1e-3]))
    m = draw(st.floats(1.0, 9.999))
    d = draw(st.integers(1, 5 if cls == "wide" else 2))
    return float(min(0.5, m * 10.0 ** -d))


def _logint(lo, hi):
    """integer, log-uniform in [lo, hi]"""
    return st.floats(math.log(lo), math.log(hi + 1)).map(
        lambda e: int(min(hi, max(lo, math.floor(math.exp(e))))))


@st.composite
def _history(draw, tier):
    thorough = tier == "thorough"
    ts = draw(st.one_of(_ts_generic(), _ts_generic(), _ts_generic(),
                        st.sampled_from(_POW2_TS)))
    fdts = draw(_fdts())
    fd = fdts / ts
    L = draw(st.one_of(st.integers(1, 16), st.sampled_from([1, 2, 8, 16])))
    shape = draw(_shape_st(big=True))
    big_shape = isinstance(shape, list) and int(np.prod(shape)) > 24
    seed = draw(seeds)
    start = draw(st.sampled_from(["fresh", "fresh", "fresh", "large",
                                  "large", "special"]))
    big_n = thorough and draw(st.integers(0, 5)) == 0 and not big_shape
    max_ops = 20 if thorough else 12
    n_ops = draw(st.integers(1, max_ops))

    pos = 1               # the constructor already emitted sample 0
    ops = []
    if start == "large":
        n = draw(_logint(10 ** 6, POS_CAP - 1))
        ops.append(["skip", n])
        pos += n
    elif start == "special":
        p = draw(st.sampled_from(_SPECIAL_POS)) + draw(st.integers(-2, 2))
        ops.append(["skip", p - pos])
        pos = p
    small_n = st.one_of(st.integers(1, 8), st.integers(1, 200),
                        st.integers(1, 200))
    for _ in range(n_ops):
        kind = draw(st.sampled_from(["gen", "gen", "gen", "gen", "gen",
                                     "skip", "skip", "skip", "shape",
                                     "gen1", "spawn"]))
        if kind == "shape":
            if draw(st.integers(0, 2)) != 0:      # keep shape ops rare (~3%)
                kind = "gen"
        if kind == "spawn":
            if draw(st.integers(0, 1)) != 0:
                kind = "gen"
            else:
                # continue with the generator that the running one hands out
                # as 'similar' (a new generator: it starts at sample 0)
                ops.append(["spawn"])
                pos = 1
                continue
        if kind == "skip":
            room = POS_CAP - pos
            cls = draw(st.sampled_from(["small", "small", "medium", "large"]))
            hi = {"small": 100, "medium": 10 ** 6}.get(cls, room)
            hi = min(hi, room)
            if hi < 1:
                kind = "gen"
            else:
                n = draw(_logint(1, hi))
                ops.append(["skip", n])
                pos += n
                continue
        if kind == "shape":
            ops.append(["shape", draw(_shape_st())])
            continue
        if kind == "gen1":
            ops.append(["gen", None])
            pos += 1
            continue
        if big_n and draw(st.integers(0, 2)) == 0:
            n = draw(_logint(200, 10 ** 5))
        elif draw(st.integers(0, 19)) == 7 and not big_shape:
            n = draw(_logint(200, 5000))      # both tiers: a longer request
        else:
            n = draw(small_n)
        ops.append(["gen", n])
        pos += n
    if not any(o[0] == "gen" for o in ops):
        n = draw(small_n)
        ops.append(["gen", n])
    return dict(part="hist", Fd=fd, Ts=ts, L=L, shape=shape, seed=seed,
                ops=ops, twin=draw(st.booleans()))


@st.composite
def _func_case(draw, tier):
    """module level generate_jakes_samples(), chunked through the returned
    ``new_current_time``"""
    ts = draw(st.one_of(_ts_generic(), _ts_generic(),
                        st.sampled_from(_POW2_TS)))
    fdts = draw(_fdts())
    L = draw(st.integers(1, 16))
    shape = draw(_shape_st())
    if isinstance(shape, int):          # the function documents tuples only
        shape = [shape]
    start = draw(st.one_of(
        st.just(0), st.just(0), st.integers(0, 5000),
        _logint(10 ** 6, POS_CAP), st.sampled_from(_SPECIAL_POS)))
    chunks = draw(st.lists(st.one_of(st.integers(1, 8), st.integers(1, 200)),
                           min_size=1, max_size=5))
    if draw(st.integers(0, 19)) == 7:
        # a long request to the module-level function, many rays and a
        # shape (L * prod(shape) * n above 2**20)
        L = draw(st.sampled_from([8, 16]))
        shape = draw(st.sampled_from([[2, 2], [3, 2], [4, 4]]))
        chunks = [draw(_logint(20000, 40000))] + chunks[:1]
    return dict(part="func", Fd=fdts / ts, Ts=ts, L=L, shape=shape,
                seed=draw(seeds), start=start, chunks=chunks,
                # exactly ONE of the two documented phase arguments given
                only=draw(st.sampled_from([None, None, None, "phi", "psi"])))


@st.composite
def _bigreq(draw, tier):
    """one (or two) LONG requests (n up to 1e5, the upper end of the stated
    domain) with many rays / a multi-dimensional shape, where an
    implementation is tempted to work block-wise; checked by the same
    history interpreter (part name stays 'hist' for the checker)"""
    ts = draw(st.one_of(_ts_generic(), st.sampled_from(_POW2_TS)))
    fdts = draw(_fdts())
    L = draw(st.sampled_from([4, 8, 12, 16]))
    shape = draw(st.sampled_from([None, 2, [2, 2], [3, 2], [3, 2, 2]]))
    ops = []
    if draw(st.booleans()):
        ops.append(["skip", draw(_logint(1, 10 ** 6))])
    ops.append(["gen", draw(_logint(5000, 10 ** 5))])
    if draw(st.booleans()):
        ops.append(["gen", draw(_logint(1000, 40000))])
    if draw(st.integers(0, 5)) == 3:
        # an output of more than 2**20 coefficients (few rays, TDL-like shape)
        L, shape = 4, [4, 4]
        ops = [["gen", draw(st.integers(66000, 90000))]]
    return dict(part="bigreq", Fd=fdts / ts, Ts=ts, L=L, shape=shape,
                seed=draw(seeds), ops=ops, twin=draw(st.booleans()))


PARTS = [
    Part("bigreq", _bigreq, quick=24, thorough=800, quick_shards=8),
    Part("hist", _history, quick=3200, thorough=60000, quick_shards=8),
    Part("func", _func_case, quick=600, thorough=10000, quick_shards=4),
]


# ----------------------------------------------------------------------------
# reference model
# ----------------------------------------------------------------------------
def _require_longdouble():
    if np.finfo(np.longdouble).eps > 1e-18:
        raise AssertionError("numpy longdouble has no extended precision on "
                             "this platform; the C14 reference model needs it")


def _model(phi, psi, fd, ts, L, k0, n):
    """L^-1/2 sum_l exp(j(2 pi Fd cos(phi_l) (k0+j) Ts + psi_l)), j=0..n-1.

    phi/psi: (L,)+shape+(1,).  The number of cycles Fd*Ts*cos(phi)*(k0+j) is
    formed in extended precision from the *integer* position and reduced
    modulo 1 before the exponential."""
    ld = np.longdouble
    m = np.arange(n, dtype=ld) + ld(int(k0))
    f = (ld(fd) * ld(ts)) * np.cos(np.asarray(phi, dtype=ld))
    cyc = f * m
    frac = (cyc - np.rint(cyc)).astype(float)
    ang = 2.0 * np.pi * frac + np.asarray(psi, dtype=float)
    return np.exp(1j * ang).sum(axis=0) / math.sqrt(L)


def _shape_tuple(shape):
    if shape is None:
        return ()
    if isinstance(shape, int):
        return (shape,)
    return tuple(int(x) for x in shape)


def _shape_arg(shape):
    if shape is None or isinstance(shape, int):
        return shape
    return tuple(int(x) for x in shape)


def _rho(n_generated, k_end, n_ops):
    """time resolution of the comparison, in sample periods.

    1e-8*N : 100 x the library's deliberate step inflation (1e-10 per
             generated sample), zero after the proposed repair;
    16*eps*k*(N+ops+4): 32 x the worst-case rounding of a float64 time base
             at position k: every request/skip rounds the stored time once
             (<= eps/2*k each) and np.arange(start, stop, step) evaluates
             start + i*(fl(start+step)-start), i.e. adds up to eps/2*k per
             generated sample, which is carried over into the stored time."""
    return 1e-8 * n_generated + 16.0 * EPS * k_end * (n_generated + n_ops + 4)


def _dominant(n_generated, k_end, n_ops):
    return ("drift" if 1e-8 * n_generated >=
            16.0 * EPS * k_end * (n_generated + n_ops + 4) else "rounding")


def _tags(case, k0, n, role):
    ts = float(case["Ts"])
    mant = math.frexp(ts)[0]
    return dict(pos=int(k0), n=int(n), pos_over_n=float(k0 + n) / float(n),
                Ts_pow2=(mant == 0.5), role=role,
                shape_kind=("none" if case["shape"] is None else
                            "int" if isinstance(case["shape"], int)
                            else "tuple"))


def _call(fn, tags):
    """library call; an exception raised by the library keeps its own bucket
    (innermost pyphysim frame) and only gets the facts of the request
    attached for known-finding matching"""
    try:
        return fn()
    except Exception as exc:
        exc.vpbt_tags = dict(tags)
        raise


# ----------------------------------------------------------------------------
# check
# ----------------------------------------------------------------------------
def _compare_block(ctx, name, got, ref, fd, ts, L, rho, tags):
    tol = math.sqrt(L) * 2.0 * math.pi * abs(fd * ts) * rho + 1e-12
    err = float(np.max(np.abs(got - ref)))
    ctx.close(name, err, tol,
              "(request at position %d, n=%d, rho=%.2e sample periods)" %
              (tags["pos"], tags["n"], rho), tags)
    return err / tol


def _check_block(case, ctx, g, block, want_shape, k0, n, phi, psi, state,
                 role):
    fd, ts, L = float(case["Fd"]), float(case["Ts"]), int(case["L"])
    tags = _tags(case, k0, n, role)
    block = np.asarray(block)
    if block.shape != want_shape + (n,):
        raise Violation("count_shape",
                        "%s request of %d samples at position %d returned "
                        "shape %r, expected %r" %
                        (role, n, k0, block.shape, want_shape + (n,)), tags)
    if block.dtype != np.complex128:
        raise Violation("sample_dtype", "samples have dtype %s (double "
                        "precision complex expected)" % block.dtype, tags)
    if not np.iscomplexobj(block) or not np.all(np.isfinite(block)):
        raise Violation("finite_complex", "dtype %s / non-finite samples" %
                        block.dtype, tags)
    mag = float(np.max(np.abs(block)))
    ctx.close("magnitude", max(0.0, mag - math.sqrt(L)),
              1e-12 * math.sqrt(L), "max |h| = %r, L = %d" % (mag, L), tags)
    rho = _rho(state["generated"], k0 + n, state["ops"])
    ref = _model(phi, psi, fd, ts, L, k0, n)
    _compare_block(ctx, "model_value", block, ref, fd, ts, L, rho, tags)
    if fd != 0.0:
        # same comparison, recorded per dominating tolerance term (evidence)
        ctx.err("model_value[%s term dominates]" %
                _dominant(state["generated"], k0 + n, state["ops"]),
                float(np.max(np.abs(block - ref))),
                math.sqrt(L) * 2.0 * math.pi * abs(fd * ts) * rho + 1e-12)
    if fd == 0.0:
        first = state.setdefault("static_first", block[..., :1].copy())
        if first.shape[:-1] == block.shape[:-1]:
            ctx.close("static_channel",
                      float(np.max(np.abs(block - first))), 1e-13,
                      "Fd = 0 but samples vary over time", tags)
    return rho, ref


def _check_hist(case, ctx):
    from pyphysim.channels.fading_generators import JakesSampleGenerator
    _require_longdouble()
    fd, ts, L = float(case["Fd"]), float(case["Ts"]), int(case["L"])
    shape = case["shape"]
    ops = case["ops"]

    def build():
        return JakesSampleGenerator(Fd=fd, Ts=ts, L=L, shape=_shape_arg(shape),
                                    RS=np.random.RandomState(case["seed"]))

    g = _call(build, dict(pos=0, n=1, pos_over_n=1.0, role="ctor"))
    cur_shape = _shape_tuple(shape)

    def observe(gen, shp, tags):
        phi = np.array(gen._phi_l, dtype=float, copy=True)
        psi = np.array(gen._psi_l, dtype=float, copy=True)
        want = (L,) + shp + (1,)
        if phi.shape != want or psi.shape != want:
            raise Violation("phase_shape", "phases have shape %r/%r, expected "
                            "%r" % (phi.shape, psi.shape, want), tags)
        return phi, psi

    phi, psi = observe(g, cur_shape, _tags(case, 0, 1, "ctor"))
    phi0 = phi
    state = dict(generated=1, ops=1)
    # the constructor emits sample number 0
    _check_block(case, ctx, g, g.get_samples(), cur_shape, 0, 1, phi, psi,
                 state, "ctor")

    pos = 1
    max_rho = 0.0
    max_start = 0
    max_n = 1
    gens_since_skip = None      # None: no generate yet
    skip_between = False
    pending_skip = False
    n_gen = n_skip = n_shape = 0
    # contiguous stretches (for the twin): list of (k_start, [blocks], phases)
    stretches = []
    open_stretch = None
    for op in ops:
        state["ops"] += 1
        if op[0] == "skip":
            n = int(op[1])
            _call(lambda: g.skip_samples_for_next_generation(n),
                  _tags(case, pos, n, "skip"))
            pos += n
            n_skip += 1
            pending_skip = True
            open_stretch = None
        elif op[0] == "spawn":
            tags = _tags(case, 0, 1, "spawn")
            # the new generator draws its phases from numpy's global RNG
            # (another seed than the parent's own generator got, so that the
            # child's phases cannot coincide with the parent's by construction)
            n_spawn = state.get("n_spawn_total", 0) + 1
            np.random.seed((int(case["seed"]) + n_spawn) % (2 ** 32))
            parent = g
            g = _call(lambda: parent.get_similar_fading_generator(), tags)
            if not isinstance(g, JakesSampleGenerator) or g is parent:
                raise Violation("spawn_type", "get_similar_fading_generator "
                                "returned %r" % (g,), tags)
            if g.shape != parent.shape:
                raise Violation("spawn_shape", "similar generator has shape "
                                "%r, the parent %r" % (g.shape, parent.shape),
                                tags)
            pphi = np.asarray(parent._phi_l)
            phi, psi = observe(g, cur_shape, tags)
            if np.shares_memory(g._phi_l, parent._phi_l) or (
                    pphi.shape == phi.shape and pphi.size > 0 and
                    np.array_equal(pphi, phi)):
                raise Violation("spawn_same_phases", "the similar generator "
                                "has the phases of its parent (documented: "
                                "independent samples)", tags)
            state.clear()
            state.update(generated=1, ops=1, n_spawn_total=n_spawn)
            # like any new generator it has emitted sample number 0
            _check_block(case, ctx, g, g.get_samples(), cur_shape, 0, 1, phi,
                         psi, state, "spawn")
            pos = 1
            pending_skip = False
            gens_since_skip = None
            open_stretch = None
            ctx.label("spawned_from_running_parent" if n_gen or n_skip
                      else "spawned_from_fresh_parent")
        elif op[0] == "shape":
            new = op[1]
            tags = _tags(case, pos, 1, "shape")

            def setshape():
                g.shape = _shape_arg(new)
            _call(setshape, tags)
            cur_shape = _shape_tuple(new)
            got = g.shape
            want = None if new is None else cur_shape
            if got != want:
                raise Violation("shape_property", "shape property is %r after "
                                "setting %r" % (got, new), tags)
            phi, psi = observe(g, cur_shape, tags)
            state.pop("static_first", None)
            n_shape += 1
            open_stretch = None
        else:
            n_arg = op[1]
            n = 1 if n_arg is None else int(n_arg)
            tags = _tags(case, pos, n, "main")
            state["generated"] += n
            if n_arg is None:
                _call(lambda: g.generate_more_samples(), tags)
                ctx.label("gen_no_argument")
            else:
                _call(lambda: g.generate_more_samples(n), tags)
            rho, ref = _check_block(case, ctx, g, g.get_samples(), cur_shape,
                                    pos, n, phi, psi, state, "main")
            max_rho = max(max_rho, rho)
            max_start = max(max_start, pos)
            max_n = max(max_n, n)
            if gens_since_skip is not None and pending_skip:
                skip_between = True
            gens_since_skip = 0
            pending_skip = False
            if open_stretch is None:
                open_stretch = dict(k=pos, n=0, blocks=[], phi=phi, psi=psi,
                                    shape=cur_shape)
                stretches.append(open_stretch)
            open_stretch["n"] += n
            open_stretch["blocks"].append(np.asarray(g.get_samples()))
            pos += n
            n_gen += 1
        if not (np.array_equal(g._phi_l, phi) and
                np.array_equal(g._psi_l, psi)):
            raise Violation("phases_changed", "phases changed by op %r" % (op,),
                            _tags(case, pos, 1, op[0]))

    # ---- labels -----------------------------------------------------------
    ctx.label("shape=None" if shape is None else
              "shape=int" if isinstance(shape, int) else
              "shape=tuple%d" % len(shape))
    ctx.label("Fd=0" if fd == 0.0 else
              ("FdTs<1e-3" if fd * ts < 1e-3 else
               "FdTs>=1e-3" if fd * ts <= 0.5 else "FdTs>0.5_undersampled"))
    ctx.label("start<=1e3" if max_start <= 1e3 else
              "start<=1e6" if max_start <= 1e6 else
              "start<=1e8" if max_start <= 1e8 else "start>1e8")
    ctx.label("Ts_pow2" if math.frexp(ts)[0] == 0.5 else "Ts_generic")
    ctx.label("L=1" if L == 1 else "L>1")
    ctx.label("gens=%s" % (n_gen if n_gen < 3 else "3+"))
    if n_skip:
        ctx.label("has_skip")
    if skip_between:
        ctx.label("skip_between_gens")
    if n_shape:
        ctx.label("has_shape_change")
    ctx.label("n_max<=8" if max_n <= 8 else "n_max<=200" if max_n <= 200
              else "n_max>200")
    ctx.label("resolution<=1e-6" if max_rho <= 1e-6 else
              "resolution<=1e-3" if max_rho <= 1e-3 else
              "resolution<=1e-2" if max_rho <= 1e-2 else "resolution>1e-2")
    ctx.nontrivial(skip_between or max_start > 10 ** 6)

    # ---- twin: same seed, each contiguous stretch in ONE request -----------
    if case.get("twin") and len(stretches) >= 1:
        # only stretches made with the initial phases can be reproduced by a
        # freshly seeded twin (a shape change redraws from the advanced RNG)
        cand = [s for s in stretches if s["phi"] is phi0 and
                (len(s["blocks"]) > 1 or s["k"] > 1)]
        for s in cand[:2]:
            tw = _call(build, dict(pos=0, n=1, pos_over_n=1.0, role="ctor"))
            if not (np.array_equal(tw._phi_l, s["phi"]) and
                    np.array_equal(tw._psi_l, s["psi"])):
                raise Violation("twin_phases", "same seed, different phases",
                                _tags(case, 0, 1, "twin"))
            if s["k"] > 1:
                _call(lambda: tw.skip_samples_for_next_generation(s["k"] - 1),
                      _tags(case, 1, s["k"] - 1, "twin_skip"))
            tags = _tags(case, s["k"], s["n"], "twin")
            _call(lambda: tw.generate_more_samples(s["n"]), tags)
            one = np.asarray(tw.get_samples())
            if one.shape != s["shape"] + (s["n"],):
                raise Violation("count_shape", "twin request of %d samples at "
                                "position %d returned shape %r" %
                                (s["n"], s["k"], one.shape), tags)
            many = np.concatenate(s["blocks"], axis=-1)
            rho = (_rho(state["generated"], s["k"] + s["n"], state["ops"]) +
                   _rho(s["n"] + 1, s["k"] + s["n"], 3))
            _compare_block(ctx, "twin_value", one, many, fd, ts, L, rho, tags)
            ctx.label("twin_checked")
            if len(s["blocks"]) > 1:
                ctx.label("twin_rechunked")


def _check_func(case, ctx):
    from pyphysim.channels.fading_generators import generate_jakes_samples
    _require_longdouble()
    fd, ts, L = float(case["Fd"]), float(case["Ts"]), int(case["L"])
    shape = case["shape"]
    shp = _shape_tuple(shape)
    rs = np.random.RandomState(case["seed"])
    phi = rs.rand(*((L,) + shp + (1,)))
    psi = rs.rand(*((L,) + shp + (1,)))
    phi_arg, psi_arg = phi.copy(), psi.copy()
    pos = int(case["start"])
    cur = pos * ts
    only = case.get("only")
    if only == "psi":
        # only the ray phases given: at time 0 the Doppler terms vanish, the
        # first sample is L^-1/2 sum exp(j psi_l) whatever the angles are
        tg = _tags(case, 0, 1, "func")
        _, h0 = _call(lambda: generate_jakes_samples(
            fd, ts, 2, L, shape=_shape_arg(shape), current_time=0.0,
            psi_l=psi_arg), tg)
        ref0 = _model(phi, psi, fd, ts, L, 0, 1)
        h0 = np.asarray(h0)
        ctx.close("func_given_phase_used",
                  float(np.max(np.abs(h0[..., :1] - ref0))) if
                  h0.shape == shp + (2,) else math.inf,
                  1e-12 * math.sqrt(L), "only psi_l given: the sample at "
                  "time 0 is not L^-1/2 sum exp(j psi_l)", tg)
        ctx.label("func_only_psi_given")
    elif only == "phi" and not shp:
        # only the arrival angles given: the samples are a combination of L
        # exponentials of KNOWN frequencies with amplitudes of modulus
        # L^-1/2 (least squares over 4L samples)
        n_ls = 4 * L
        tg = _tags(case, pos, n_ls, "func")
        _, hh = _call(lambda: generate_jakes_samples(
            fd, ts, n_ls, L, current_time=pos * ts, phi_l=phi_arg), tg)
        hh = np.asarray(hh).reshape(-1)
        B = np.stack([_model(phi[l:l + 1], np.zeros_like(phi[l:l + 1]), fd,
                             ts, 1, pos, n_ls).reshape(-1)
                      for l in range(L)], axis=1)
        if hh.shape == (n_ls,):
            a, *_ = np.linalg.lstsq(B, hh, rcond=None)
            res = float(np.linalg.norm(B @ a - hh)) / math.sqrt(n_ls)
            # (the basis can be nearly collinear - slow Doppler shifts -
            # and least squares then leaves 1e-6..1e-5; a discarded phi_l
            # leaves a residual of order 1)
            ctx.close("func_given_phase_used", res,
                      1e-3 + 10.0 * _rho(n_ls, pos + n_ls, 1),
                      "only phi_l given: the samples are not a combination "
                      "of the L exponentials with the given Doppler shifts "
                      "(rms residual)", tg)
            ctx.label("func_only_phi_given")
    generated = 0
    ops = 0
    max_rho = 0.0
    for n in case["chunks"]:
        n = int(n)
        ops += 1
        generated += n
        tags = _tags(case, pos, n, "func")
        t_in = cur
        # the caller keeps ONE pair of phase arrays for the whole process
        cur, h = _call(lambda: generate_jakes_samples(
            fd, ts, n, L, shape=_shape_arg(shape), current_time=t_in,
            phi_l=phi_arg, psi_l=psi_arg), tags)
        if not (np.array_equal(phi_arg, phi) and np.array_equal(psi_arg, psi)):
            raise Violation("func_phases_modified", "generate_jakes_samples "
                            "changed the phase arrays handed to it", tags)
        h = np.asarray(h)
        if h.shape != shp + (n,):
            if h.shape[:-1] == shp:
                tags["extra"] = int(h.shape[-1]) - n
            raise Violation("func_count_shape", "request of %d samples at "
                            "position %d returned shape %r" %
                            (n, pos, h.shape), tags)
        mag = float(np.max(np.abs(h)))
        ctx.close("func_magnitude", max(0.0, mag - math.sqrt(L)),
                  1e-12 * math.sqrt(L), "", tags)
        rho = _rho(generated, pos + n, ops)
        max_rho = max(max_rho, rho)
        ref = _model(phi, psi, fd, ts, L, pos, n)
        _compare_block(ctx, "func_model_value", h, ref, fd, ts, L, rho, tags)
        pos += n
        # the returned time continues the process
        ctx.close("func_new_time", abs(float(cur) - pos * ts) / ts,
                  max(rho, 1e-12), "returned current time %r, expected %r" %
                  (cur, pos * ts), tags)
    ctx.label("func")
    ctx.label("func_start<=1e6" if case["start"] <= 10 ** 6
              else "func_start>1e6")
    ctx.label("func_chunks=%s" % (len(case["chunks"])
                                  if len(case["chunks"]) < 3 else "3+"))
    ctx.label("func_resolution<=1e-2" if max_rho <= 1e-2
              else "func_resolution>1e-2")
    ctx.nontrivial(len(case["chunks"]) >= 2 or case["start"] > 10 ** 6)


def check(case, ctx):
    if case["part"] == "func":
        return _check_func(case, ctx)
    return _check_hist(case, ctx)
