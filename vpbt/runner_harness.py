"""Instrumented SimulationRunner + fault/clock injection shared by C05 and C07.

Everything is driven by a JSON ``cfg``:

  unpacked : [[name, [v1, v2, ...]], ...]   0..3 unpacked parameters
  fixed    : [[name, value], ...]
  rep_max  : int >= 1
  stop     : {"kind": "always"} | {"kind": "rep", "thr": [ints]} |
             {"kind": "sum", "thr": int} | {"kind": "ratio", "num": a, "den": b}
  skips    : [[variation, attempt], ...]  attempts (0-based, per variation,
             counted over ALL runs of the case) that raise SkipThisOne
  filename : None | str (relative; may contain {fixedname}) ; ext "" | ".json"
  delete_partial : bool
  clock    : [ints]  advance of the fake clock (seconds) applied at the start of
             every _run_simulation call (cyclic)

Each successful call with global id g (0,1,2,... over all runs of the case)
returns
  ids    SUMTYPE   one-hot int64 vector e_g of length cfg["idspace"] (the
                   merged vector IS the multiset of counted repetitions)
  sumv   SUMTYPE   (7*g+3) % 11
  ratio  RATIOTYPE (g % 5, 1 + g % 3)
  misc   MISCTYPE  val_misc(g) (g, or 0 when g % 4 == 3)
  choice CHOICETYPE g % 4 of 4
"""
import itertools
import os
from fractions import Fraction


class SimulatedCrash(BaseException):
    """Process death.  BaseException so that no library handler swallows it."""


class SimulatedError(RuntimeError):
    """An ordinary error (a bug in the user's _run_simulation, a full disk):
    it propagates out of simulate() through the library's handlers for
    Exception, and the user starts the simulation again."""


class TrapInt(int):
    """Integer result value that can interrupt the MERGE it takes part in:
    ``merged += TrapInt`` calls __radd__, which raises when armed.  This puts
    an interruption point in the middle of SimulationResults.merge_all_results
    (after some results of the repetition were merged, before the others)."""
    armed = None       # None or a callable raising the interruption

    def __radd__(self, other):
        if self.armed is not None:
            f, self.armed = self.armed, None
            f()
        return int(other) + int(self)

    def __add__(self, other):
        return int(self) + other

    def __reduce__(self):
        return (int, (int(self),))


def val_sumv(g):
    return (7 * g + 3) % 11


def val_misc(g):
    """MISC observation of repetition g: the id, but 0 for every fourth one
    (a falsy value is an observation like any other)"""
    return 0 if g % 4 == 3 else g


def val_ratio(g):
    return (g % 5, 1 + g % 3)


def variations_of(cfg):
    """Row-major product over the SORTED unpacked names (documented order).
    Returns list of dicts name->value (only unpacked names)."""
    unp = sorted(cfg["unpacked"], key=lambda nv: nv[0])
    names = [n for n, _ in unp]
    combos = list(itertools.product(*[
        [tuple(v) if isinstance(v, list) else v for v in vals]
        for _, vals in unp]))
    return names, [dict(zip(names, c)) for c in combos]


def digits4(x):
    """merged ids vector -> dict id->multiplicity"""
    import numpy as np
    x = np.asarray(x)
    return dict((int(i), int(x[i])) for i in np.flatnonzero(x))


def ids_vector(cfg, gids):
    import numpy as np
    x = np.zeros(cfg["idspace"], dtype=np.int64)
    for g in gids:
        x[g] += 1
    return x


class Env(object):
    """State shared by all runner objects of one case (survives 'crashes')."""
    def __init__(self, cfg):
        self.cfg = cfg
        self.next_id = 0
        self.attempts = {}          # variation -> attempts so far
        self.clock = 1000.0
        self.clock_i = 0
        self.log = []               # ("call"|"kg", dict) in program order
        self.run_no = 0
        self.crash_at_call = None   # global attempt counter value to crash at
        self.n_attempts_total = 0
        self.skips = set((int(v), int(a)) for v, a in cfg.get("skips", []))
        self.param_errors = []
        self.real_exit = False      # True: die with os._exit(137)
        self.exc_kind = "kill"      # "kill" | "ctrlc" (KeyboardInterrupt)
        self.trap_at_call = None    # attempt whose merge is interrupted

    def die(self, msg):
        """The 'process' is interrupted here: killed, or (ctrlc) it receives
        KeyboardInterrupt, lets the library's handlers run and then exits."""
        if self.real_exit:
            os._exit(137)
        if self.exc_kind == "ctrlc":
            raise KeyboardInterrupt(msg)
        if self.exc_kind == "error":
            raise SimulatedError(msg)
        raise SimulatedCrash(msg)

    def now(self):
        return self.clock

    def regrid(self, cfg):
        """the user changed parameters on the live runner"""
        self.cur = dict(cfg=cfg)
        self.cur["names"], self.cur["combos"] = variations_of(cfg)


def stop_model(cfg, v, rep, sumv, ratio_vt, nskip=0):
    """keep_going decision (True = continue) as a pure function."""
    st = cfg["stop"]
    k = st["kind"]
    if k == "always":
        return True
    if k == "skipped":
        # 'give up after thr skipped attempts' (reads num_skipped_reps)
        return (nskip or 0) < st["thr"]
    if k == "rep":
        thr = st["thr"]
        return rep < thr[v % len(thr)]
    if k == "sum":
        return sumv < st["thr"]
    if k == "ratio":
        val, tot = ratio_vt
        return Fraction(val, tot) < Fraction(st["num"], st["den"])
    raise AssertionError(k)


def make_runner(env, cfg=None):
    from pyphysim.simulations.results import Result, SimulationResults
    from pyphysim.simulations.runner import SimulationRunner, SkipThisOne
    import numpy as np
    cfg = cfg or env.cfg
    # current grid (may be replaced between simulate() calls: env.regrid)
    env.cur = dict(cfg=cfg)
    env.cur["names"], env.cur["combos"] = variations_of(cfg)

    class Recorder(SimulationRunner):
        def __init__(self):
            super().__init__(read_command_line_args=False)
            self.rep_max = cfg["rep_max"]
            self.update_progress_function_style = None
            for name, value in cfg["fixed"]:
                if isinstance(value, list):
                    value = tuple(value)      # e.g. antennas=(2, 4)
                    if cfg.get("fixed_container") == "array":
                        value = np.array(value)
                self.params.add(name, value)
            if cfg.get("mutable_fixed"):
                # a LIST-valued parameter that is not unpacked (a queue of
                # seeds, the same for every combination) which the iteration
                # consumes in place
                self.params.add("queue", [11, 12, 13])
            for name, values in cfg["unpacked"]:
                kind = cfg.get("container", {}).get(name, "list")
                if kind == "tuples":
                    values = [tuple(v) for v in values]
                self.params.add(name, np.array(values) if kind == "array"
                                else list(values))
                self.params.set_unpack_parameter(name)
            self.delete_partial_results_bool = bool(
                cfg.get("delete_partial", False))
            if cfg.get("partial_folder", "default") is None:
                # documented: None = partial results next to the final file
                self.partial_results_folder = None
            if cfg.get("filename") is not None:
                self.set_results_filename(cfg["filename"] +
                                          cfg.get("ext", ""))

        def _variation_of(self, current_params):
            # identify the variation from the VALUES received
            names, combos = env.cur["names"], env.cur["combos"]
            got = dict((n, current_params[n]) for n in names)
            hits = [i for i, c in enumerate(combos)
                    if all(c[n] == got[n] for n in names)]
            if len(hits) > 1:
                # a value listed twice: the position tells the two apart
                ui = getattr(current_params, "unpack_index", None)
                hits = [i for i in hits if i == ui]
            if len(hits) != 1:
                env.param_errors.append("values %r match variations %r" %
                                        (got, hits))
                return None
            for name, value in env.cur["cfg"]["fixed"]:
                if isinstance(value, list):
                    value = tuple(value)
                if isinstance(value, tuple):
                    got_v = current_params[name]
                    if isinstance(got_v, (list, np.ndarray)):
                        got_v = tuple(np.asarray(got_v).tolist())
                    if got_v != value:
                        env.param_errors.append(
                            "fixed %s=%r received as %r" % (
                                name, value, current_params[name]))
                    continue
                if np.any(current_params[name] != value):
                    env.param_errors.append("fixed %s=%r received as %r" % (
                        name, value, current_params[name]))
            return hits[0]

        def _run_simulation(self, current_params):
            v = self._variation_of(current_params)
            if cfg.get("mutable_fixed"):
                q = current_params["queue"]
                first = env.attempts.get(v, 0) == 0 or \
                    getattr(env, "_queue_seen_run", {}).get(v) != env.run_no
                if first:
                    # every combination starts with the parameters the user
                    # configured, whatever earlier combinations did to theirs
                    if list(q) != [11, 12, 13]:
                        env.param_errors.append(
                            "variation %r starts with queue=%r, configured "
                            "[11, 12, 13]" % (v, list(q)))
                    if not hasattr(env, "_queue_seen_run"):
                        env._queue_seen_run = {}
                    env._queue_seen_run[v] = env.run_no
                q.append(100 + len(q))
            clock = cfg.get("clock") or [0]
            env.clock += clock[env.clock_i % len(clock)]
            env.clock_i += 1
            a = env.attempts.get(v, 0)
            env.attempts[v] = a + 1
            n = env.n_attempts_total
            env.n_attempts_total += 1
            if env.crash_at_call is not None and n == env.crash_at_call:
                env.log.append(("call", dict(run=env.run_no, v=v, attempt=a,
                                             gid=None, crashed=True)))
                env.die("in call %d" % n)
            if (v, a) in env.skips:
                env.log.append(("call", dict(run=env.run_no, v=v, attempt=a,
                                             gid=None)))
                raise SkipThisOne("skip")
            g = env.next_id
            env.next_id += 1
            env.log.append(("call", dict(
                run=env.run_no, v=v, attempt=a, gid=g,
                unpack_index=current_params.unpack_index)))
            r = SimulationResults()
            assert g < cfg["idspace"], "harness: idspace too small"
            assert v is not None or env.param_errors
            one_hot = np.zeros(cfg["idspace"], dtype=np.int64)
            one_hot[g] = 1
            r.add_new_result("ids", Result.SUMTYPE, one_hot)
            r.add_new_result("sumv", Result.SUMTYPE, val_sumv(g))
            if env.trap_at_call is not None and n == env.trap_at_call:
                # the merge of this repetition will be interrupted half-way
                trap = TrapInt(val_sumv(g))
                trap.armed = lambda: env.die("in merge of call %d" % n)
                r["sumv"][-1]._value = trap
            rv, rt = val_ratio(g)
            r.add_new_result("ratio", Result.RATIOTYPE, rv, rt)
            r.add_new_result("misc", Result.MISCTYPE, val_misc(g))
            r.add_new_result("choice", Result.CHOICETYPE, g % 4, 4)
            return r

        def _on_simulate_start(self):
            # documented hook, called once at the beginning of simulate():
            # a subclass may adjust its parameters here
            h = getattr(env, "on_start", None)
            if h is not None:
                env.on_start = None
                h()

        def _on_simulate_current_params_start(self, current_params):
            env.log.append(("hook", dict(
                name="start", v=self._variation_of(current_params),
                run=env.run_no)))

        def _on_simulate_current_params_finish(self, current_params,
                                               current_params_sim_results):
            env.log.append(("hook", dict(
                name="finish", v=self._variation_of(current_params),
                run=env.run_no)))

        def _on_simulate_finish(self):
            env.log.append(("hook", dict(name="sim_finish", v=None,
                                         run=env.run_no)))

        def _keep_going(self, current_params, current_sim_results,
                        current_rep):
            v = self._variation_of(current_params)
            ids = current_sim_results["ids"][-1].get_result()
            sumv = current_sim_results["sumv"][-1].get_result()
            rr = current_sim_results["ratio"][-1]
            nskip = None
            if "num_skipped_reps" in current_sim_results.get_result_names():
                nskip = current_sim_results["num_skipped_reps"][-1].get_result()
            env.log.append(("kg", dict(run=env.run_no, v=v, rep=current_rep,
                                       ids=digits4(ids), sumv=sumv,
                                       nskip=nskip)))
            keep = stop_model(env.cur["cfg"], v, current_rep, sumv,
                              (rr._value, rr._total), nskip)
            if env.cur["cfg"]["stop"].get("ret") == "npbool":
                # what 'return errors < max_errors' gives with numpy values
                return np.bool_(keep)
            return keep

    if cfg.get("rep_max", 0) % 2 == 0:
        # the user's runner INHERITS its iteration, stop rule and hooks from
        # an intermediate base class (one family of runners sharing them)
        class DerivedRecorder(Recorder):
            pass
        return DerivedRecorder()
    return Recorder()


# ----------------------------------------------------------------------------
# fault and clock injection (harness process only; nothing in /repo changes)
# ----------------------------------------------------------------------------
class _BufferedFile(object):
    """File object handed to the library for a write-open: buffers all data;
    on close either writes everything (normal) or only a prefix and then
    'kills the process' (SimulatedCrash)."""
    def __init__(self, inj, path, mode, real_open, crash_prefix):
        self.inj = inj
        self.path = path
        self.mode = mode
        self.binary = "b" in mode
        # a real open(..., 'w') truncates/creates immediately
        self.f = real_open(path, mode)
        self.buf = []
        self.crash_prefix = crash_prefix
        self.closed = False

    def write(self, data):
        self.buf.append(data)
        return len(data)

    def flush(self):
        pass

    def fileno(self):
        # flush() + os.fsync(fileno()) before the rename is harmless here:
        # the data reach the disk when the file is closed
        return self.f.fileno()

    def __enter__(self):
        return self

    def __exit__(self, et, ev, tb):
        self.close()
        return False

    def close(self):
        if self.closed:
            return
        self.closed = True
        data = (b"" if self.binary else "").join(self.buf)
        if self.crash_prefix is None:
            self.f.write(data)
            self.f.close()
            self.inj.completed_write(self.path, data)
            return
        n = len(data)
        k = {"zero": 0, "one": min(1, n), "half": n // 2,
             "allbutone": max(0, n - 1), "full": n}[self.crash_prefix]
        self.f.write(data[:k])
        self.f.close()
        if k == n:
            self.inj.completed_write(self.path, data)
        self.inj.fired = "write#%d:%s(%d/%d bytes) %s" % (
            self.inj.n_writes - 1, self.crash_prefix, k, n,
            os.path.basename(self.path))
        self.inj.env.die(self.inj.fired)


class _OsProxy(object):
    def __init__(self, inj, real):
        self.__dict__["_inj"] = inj
        self.__dict__["_real"] = real

    def __getattr__(self, name):
        if name == "replace":
            return self._inj.replace
        if name == "rename":
            return self._inj.replace
        if name in ("remove", "unlink"):
            return self._inj.remove
        return getattr(self._real, name)


class Injector(object):
    """Patches results.open / results.os / runner.os / runner.time for one
    case.  ``crash`` (or None) is one of
        {"at": "write", "k": i, "prefix": "open|zero|one|half|allbutone|full"}
        {"at": "replace", "k": i, "when": "before|after"}
        {"at": "remove", "k": i, "when": "before|after"}
    (k counts events of that kind within the current run)."""
    def __init__(self, env, root):
        self.env = env
        self.root = os.path.realpath(root)
        self.crash = None
        self.fired = None
        self.n_writes = self.n_replaces = self.n_removes = 0
        self.events = []
        self.durable = {}     # final path -> bytes of last COMPLETED save
        self.pending = {}     # tmp path -> bytes completely written

    # -- bookkeeping of what is durably on disk -----------------------------
    def completed_write(self, path, data):
        self.pending[os.path.realpath(path)] = data
        self.durable[os.path.realpath(path)] = data

    def _mine(self, path):
        try:
            p = os.path.realpath(os.fspath(path))
        except TypeError:
            return False
        return p.startswith(self.root + os.sep)

    # -- patched entry points ------------------------------------------------
    def open(self, path, mode="r", *a, **kw):
        import builtins
        if ("w" in mode or "a" in mode or "x" in mode) and self._mine(path):
            if not os.path.isdir(os.path.dirname(os.fspath(path)) or "."):
                # the open fails (library creates the folder and retries):
                # not a save event
                return builtins.open(path, mode, *a, **kw)
            k = self.n_writes
            self.n_writes += 1
            self.events.append(("write", k, os.path.basename(str(path))))
            prefix = None
            c = self.crash
            if c and c["at"] == "write" and c["k"] == k:
                if c["prefix"] == "open":
                    self.fired = "write#%d:at-open %s" % (
                        k, os.path.basename(str(path)))
                    self.env.die(self.fired)
                prefix = c["prefix"]
            return _BufferedFile(self, os.fspath(path), mode, builtins.open,
                                 prefix)
        return builtins.open(path, mode, *a, **kw)

    def replace(self, src, dst, *a, **kw):
        if not self._mine(dst):
            return os.replace(src, dst, *a, **kw)
        k = self.n_replaces
        self.n_replaces += 1
        self.events.append(("replace", k, os.path.basename(str(dst))))
        c = self.crash
        hit = c and c["at"] == "replace" and c["k"] == k
        if hit and c["when"] == "before":
            self.fired = "replace#%d:before" % k
            self.env.die(self.fired)
        os.replace(src, dst, *a, **kw)
        rs, rd = os.path.realpath(os.fspath(src)), \
            os.path.realpath(os.fspath(dst))
        if rs in self.durable:
            self.durable[rd] = self.durable.pop(rs)
        if hit:
            self.fired = "replace#%d:after" % k
            self.env.die(self.fired)

    def remove(self, path, *a, **kw):
        if not self._mine(path):
            return os.remove(path, *a, **kw)
        k = self.n_removes
        self.n_removes += 1
        self.events.append(("remove", k, os.path.basename(str(path))))
        c = self.crash
        hit = c and c["at"] == "remove" and c["k"] == k
        if hit and c["when"] == "before":
            self.fired = "remove#%d:before" % k
            self.env.die(self.fired)
        os.remove(path, *a, **kw)
        self.durable.pop(os.path.realpath(os.fspath(path)), None)
        if hit:
            self.fired = "remove#%d:after" % k
            self.env.die(self.fired)

    def reconcile(self):
        """the file system has the last word about what is durable: a file
        deleted or moved by a call this proxy does not see (pathlib, shutil)
        is not durable under its old name, and completely written data found
        under a new name are durable there"""
        for path in list(self.durable):
            if not os.path.isfile(path):
                del self.durable[path]
        done = {}
        for data in self.pending.values():
            done[bytes(data) if isinstance(data, (bytes, bytearray))
                 else data.encode()] = data
        for folder, _dirs, files in os.walk(self.root):
            for name in files:
                path = os.path.realpath(os.path.join(folder, name))
                if path in self.durable:
                    continue
                try:
                    with open(path, "rb") as f:
                        raw = f.read()
                except OSError:
                    continue
                if raw in done:
                    self.durable[path] = done[raw]

    def new_run(self, crash):
        self.reconcile()
        self.crash = crash
        self.fired = None
        self.n_writes = self.n_replaces = self.n_removes = 0

    def __enter__(self):
        import pyphysim.simulations.results as res
        import pyphysim.simulations.runner as run
        self._saved = (res.__dict__.get("open"), res.os, run.os, run.time)
        res.open = self.open
        res.os = _OsProxy(self, self._saved[1])
        run.os = _OsProxy(self, self._saved[2])
        run.time = self.env.now
        return self

    def __exit__(self, *exc):
        import pyphysim.simulations.results as res
        import pyphysim.simulations.runner as run
        if self._saved[0] is None:
            res.__dict__.pop("open", None)
        else:
            res.open = self._saved[0]
        res.os = self._saved[1]
        run.os = self._saved[2]
        run.time = self._saved[3]
        return False
