"""vpbt - property-based testing machinery for darcamo/pyphysim (see /verif/DESIGN.md)."""
