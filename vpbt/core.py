"""Runner core: seeds, sharding, budgets, failure bucketing, known findings,
evidence and replay.  See DESIGN.md section 2.

A property module (vpbt/props/cXX_*.py) exposes

    PROPERTY = "C12"
    LEVEL    = "exploration"            # MANIFEST level category
    RULE     = "how cases are generated and what non-trivial means"
    ASSUMPTIONS = [...]
    PARTS    = [Part(...), ...]
    def check(case, ctx): ...           # raises Violation / labels the case

A *case* is a JSON-serialisable dict (``case["part"]`` names the part that
generated it); ``check`` is a pure function of the case and of the code in
$VERIF_REPO.
"""
import collections
import fnmatch
import hashlib
import importlib
import json
import math
import multiprocessing
import os
import random
import sys
import time
import traceback

VERIF_DIR = os.path.dirname(os.path.dirname(os.path.abspath(__file__)))
REPO = os.path.abspath(os.environ.get("VERIF_REPO", "/repo"))

EXIT_OK, EXIT_VIOLATION, EXIT_HARNESS = 0, 1, 2


# ----------------------------------------------------------------------------
# repository import
# ----------------------------------------------------------------------------
def setup_repo_path():
    """Put $VERIF_REPO first on sys.path and make sure pyphysim comes from it.

    /venv has a *copy* of pyphysim in site-packages; without this the checks
    would exercise that copy instead of the working tree."""
    if sys.path[0] != REPO:
        sys.path.insert(0, REPO)
    import pyphysim  # noqa
    got = os.path.abspath(pyphysim.__file__)
    if not got.startswith(REPO + os.sep):
        raise HarnessError("pyphysim imported from %s, not from %s" %
                           (got, REPO))
    return pyphysim


class HarnessError(Exception):
    """Something is wrong with the checking machinery (exit code 2)."""


class Violation(Exception):
    """The property does not hold for the case being checked.

    check : name of the sub-check (part of the bucket = root-cause key)
    detail: human readable message
    tags  : facts about the failing case used to match known findings
    """
    def __init__(self, check, detail="", tags=None):
        super().__init__("%s: %s" % (check, detail))
        self.check = check
        self.detail = detail
        self.tags = dict(tags or {})


class Part(object):
    """One generator of a property module.

    strategy : callable(tier) -> hypothesis strategy of case dicts (or None)
    quick/thorough : number of examples per tier (total, split over shards)
    enumerate : callable(tier) -> iterable of case dicts (finite sub-domain
                enumerated completely in every run), or None
    """
    def __init__(self, name, strategy=None, quick=0, thorough=0,
                 enumerate=None, quick_shards=4, thorough_shards=16,
                 exhaustive=False):
        self.name = name
        self.strategy = strategy
        self.quick = quick
        self.thorough = thorough
        self.enumerate = enumerate
        self.quick_shards = quick_shards
        self.thorough_shards = thorough_shards
        self.exhaustive = exhaustive


# ----------------------------------------------------------------------------
# per-case context
# ----------------------------------------------------------------------------
class Ctx(object):
    """Collector handed to ``check``: labels, non-triviality, numeric errors."""
    def __init__(self):
        self.labels = []
        self.is_nontrivial = False
        self.errs = {}
        self.extra = {}

    def label(self, *names):
        for n in names:
            self.labels.append(str(n))

    def nontrivial(self, flag=True):
        if flag:
            self.is_nontrivial = True

    def err(self, name, value, tol):
        """Record an observed numeric error together with its tolerance."""
        value = float(value)
        old = self.errs.get(name)
        ratio = value / tol if tol > 0 else (0.0 if value == 0 else math.inf)
        if old is None or ratio > old[2]:
            self.errs[name] = (value, float(tol), ratio)

    def close(self, name, err, tol, detail="", tags=None):
        """Assert ``err <= tol`` (err must not be nan) and record it."""
        err = float(err)
        self.err(name, err if err == err else math.inf, tol)
        if not (err <= tol):
            raise Violation(name, "error %.3e > tol %.3e %s" %
                            (err, tol, detail), tags)

    def count(self, key, n=1):
        self.extra[key] = self.extra.get(key, 0) + n


def case_hash(case):
    return hashlib.sha1(
        json.dumps(case, sort_keys=True, default=str).encode()).hexdigest()


def derive_seed(*parts):
    h = hashlib.sha256(repr(parts).encode()).digest()
    return int.from_bytes(h[:8], "big")


# ----------------------------------------------------------------------------
# bucketing of failures
# ----------------------------------------------------------------------------
def _innermost_repo_frame(tb):
    found = None
    pkg = os.path.join(REPO, "pyphysim") + os.sep
    for fs in traceback.extract_tb(tb):
        fn = os.path.abspath(fs.filename)
        if fn.startswith(pkg):
            found = "%s:%s" % (os.path.relpath(fn, REPO), fs.name)
    return found


def classify_exception(exc):
    """-> (bucket, detail, tags, is_harness_error)"""
    if isinstance(exc, Violation):
        return "viol:" + exc.check, exc.detail, exc.tags, False
    frame = _innermost_repo_frame(exc.__traceback__)
    detail = "%s: %s" % (type(exc).__name__, str(exc)[:300])
    if frame is None:
        tbtxt = "".join(traceback.format_exception(type(exc), exc,
                                                   exc.__traceback__))
        return ("harness:" + type(exc).__name__, detail + "\n" + tbtxt, {},
                True)
    tags = dict(getattr(exc, "vpbt_tags", {}) or {})
    tags.setdefault("exc", type(exc).__name__)
    return "exc:%s:%s" % (type(exc).__name__, frame), detail, tags, False


# ----------------------------------------------------------------------------
# known findings
# ----------------------------------------------------------------------------
def load_known_findings(prop):
    paths = [os.path.join(VERIF_DIR, "known_findings.json")]
    # known_findings.d/<ID>.json: work-in-progress entries of one property
    # (merged into known_findings.json before they are relied upon)
    d = os.path.join(VERIF_DIR, "known_findings.d")
    if os.path.isdir(d):
        paths += [os.path.join(d, fn) for fn in sorted(os.listdir(d))
                  if fn.endswith(".json")]
    out = []
    for path in paths:
        if not os.path.exists(path):
            continue
        with open(path) as f:
            data = json.load(f)
        out += [e for e in data.get("findings", [])
                if e.get("property") == prop and e.get("status") == "known"]
    return out


def _cond(value, cond):
    if isinstance(cond, dict):
        for op, ref in cond.items():
            if op == "ge" and not (value is not None and value >= ref):
                return False
            if op == "le" and not (value is not None and value <= ref):
                return False
            if op == "gt" and not (value is not None and value > ref):
                return False
            if op == "lt" and not (value is not None and value < ref):
                return False
            if op == "ne" and not (value != ref):
                return False
            if op == "in" and value not in ref:
                return False
            if op == "glob" and not fnmatch.fnmatch(str(value), ref):
                return False
        return True
    if isinstance(cond, list):
        return value in cond
    return value == cond


def match_known(entries, bucket, tags):
    for e in entries:
        if not fnmatch.fnmatchcase(bucket, e.get("bucket", "*")):
            continue
        ok = True
        for k, c in (e.get("match") or {}).items():
            if k not in tags or not _cond(tags.get(k), c):
                ok = False
                break
        if ok:
            return e
    return None


# ----------------------------------------------------------------------------
# executing one case
# ----------------------------------------------------------------------------
class ShardResult(object):
    def __init__(self):
        self.evaluations = 0
        self.labels = collections.Counter()
        self.nontrivial = set()
        self.samples = {}       # label -> case (first non-trivial of a class)
        self.plain_samples = []
        self.buckets = {}       # bucket -> dict(case, detail, tags, count,...)
        self.errs = {}
        self.extra = collections.Counter()
        self.budget_hit = False
        self.wall = 0.0

    def absorb_ctx(self, case, ctx):
        self.evaluations += 1
        for l in ctx.labels:
            self.labels[l] += 1
        if ctx.is_nontrivial:
            self.nontrivial.add(case_hash(case))
            key = ctx.labels[0] if ctx.labels else "_"
            if key not in self.samples and len(self.samples) < 8:
                self.samples[key] = case
        elif len(self.plain_samples) < 1:
            self.plain_samples.append(case)
        for k, v in ctx.errs.items():
            old = self.errs.get(k)
            if old is None or v[2] > old[2]:
                self.errs[k] = v
        for k, v in ctx.extra.items():
            self.extra[k] += v

    def merge(self, other):
        self.evaluations += other.evaluations
        self.labels.update(other.labels)
        self.nontrivial |= other.nontrivial
        for k, v in other.samples.items():
            if k not in self.samples and len(self.samples) < 8:
                self.samples[k] = v
        if not self.plain_samples:
            self.plain_samples = other.plain_samples
        for b, info in other.buckets.items():
            if b not in self.buckets:
                self.buckets[b] = info
            else:
                self.buckets[b]["count"] += info["count"]
        for k, v in other.errs.items():
            old = self.errs.get(k)
            if old is None or v[2] > old[2]:
                self.errs[k] = v
        self.extra.update(other.extra)
        self.budget_hit = self.budget_hit or other.budget_hit
        self.wall = max(self.wall, other.wall)


_KNOWN_CACHE = {}


def _known_for(prop):
    if prop not in _KNOWN_CACHE:
        _KNOWN_CACHE[prop] = load_known_findings(prop)
    return _KNOWN_CACHE[prop]


def run_case(module, case, res, origin=None):
    """Run check(case); record outcome in ``res``.  Never raises for a
    property failure; returns the bucket (or None)."""
    import hypothesis.errors as herr
    ctx = Ctx()
    try:
        module.check(case, ctx)
    except herr.HypothesisException:
        raise
    except Exception as exc:  # noqa
        bucket, detail, tags, harness = classify_exception(exc)
        res.absorb_ctx(case, ctx)
        # known findings are matched PER FAILURE (not per bucket), so a
        # different failure that shares a sub-check with a known finding is
        # still reported
        known_id = None
        if not harness:
            e = match_known(_known_for(module.PROPERTY), bucket, tags)
            if e is not None:
                known_id = str(e.get("id") or e.get("what"))
        slot = bucket if known_id is None else bucket + "#known:" + known_id
        info = res.buckets.get(slot)
        if info is None:
            res.buckets[slot] = dict(case=case, detail=detail, tags=tags,
                                     count=1, harness=harness, origin=origin,
                                     bucket=bucket, known_id=known_id)
        else:
            info["count"] += 1
        return slot
    res.absorb_ctx(case, ctx)
    return None


def _hyp_settings(n, shrink):
    from hypothesis import HealthCheck, Phase, settings
    phases = [Phase.generate, Phase.shrink] if shrink else [Phase.generate]
    return settings(max_examples=n, database=None, deadline=None,
                    derandomize=False, report_multiple_bugs=False,
                    phases=phases,
                    suppress_health_check=[HealthCheck.too_slow,
                                           HealthCheck.data_too_large,
                                           HealthCheck.large_base_example])


def run_shard(task):
    """Worker entry point.  task = dict(module, part, tier, seed, shard, n,
    budget_s, mode, target)"""
    t0 = time.time()
    setup_repo_path()
    module = importlib.import_module(task["module"])
    part = [p for p in module.PARTS if p.name == task["part"]][0]
    res = ShardResult()
    origin = dict(part=part.name, shard=task["shard"], n=task["n"],
                  kind=task["kind"])
    known = load_known_findings(module.PROPERTY)

    if task["kind"] == "enum":
        cases = task["cases"]
        for case in cases:
            if time.time() - t0 > task["budget_s"]:
                res.budget_hit = True
                break
            run_case(module, case, res, origin)
        res.wall = time.time() - t0
        return res

    import hypothesis
    from hypothesis import given
    strat = part.strategy(task["tier"])
    hseed = derive_seed(task["seed"], module.PROPERTY, part.name,
                        task["shard"])

    if task["mode"] == "explore":
        @hypothesis.seed(hseed)
        @_hyp_settings(task["n"], False)
        @given(strat)
        def t(case):
            if time.time() - t0 > task["budget_s"]:
                res.budget_hit = True
                return
            run_case(module, case, res, origin)
        t()
        res.wall = time.time() - t0
        return res

    # shrink mode: repeat the same seeded search, failing only for target
    target = task["target"]
    hits = []

    @hypothesis.seed(hseed)
    @_hyp_settings(task["n"], True)
    @given(strat)
    def t2(case):
        if time.time() - t0 > task["budget_s"]:
            return
        tmp = ShardResult()
        b = run_case(module, case, tmp, origin)
        if b == target:
            info = tmp.buckets[b]
            hits.append(info)
            raise AssertionError("target bucket hit")
    try:
        t2()
    except BaseException:  # noqa  (failure, Flaky, ... all fine here)
        pass
    res.wall = time.time() - t0
    if hits:
        # Hypothesis replays the minimal example last; under a budget cut
        # take the smallest one seen
        best = hits[-1]
        small = min(hits, key=lambda i: len(json.dumps(i["case"],
                                                       default=str)))
        if time.time() - t0 > task["budget_s"]:
            best = small
        res.buckets[target] = best
    return res


# ----------------------------------------------------------------------------
# driver
# ----------------------------------------------------------------------------
def _chunks(seq, n):
    k = max(1, int(math.ceil(len(seq) / float(n))))
    return [seq[i:i + k] for i in range(0, len(seq), k)]


def load_regress_cases(prop):
    d = os.path.join(VERIF_DIR, "regress", prop)
    out = []
    if os.path.isdir(d):
        for fn in sorted(os.listdir(d)):
            if fn.endswith(".json"):
                with open(os.path.join(d, fn)) as f:
                    data = json.load(f)
                out.append((fn, data["case"] if "case" in data else data))
    return out


def write_replay(prop, bucket, info):
    d = os.path.join(VERIF_DIR, "replays")
    os.makedirs(d, exist_ok=True)
    h = hashlib.sha1(bucket.encode()).hexdigest()[:10]
    path = os.path.join(d, "%s-%s.json" % (prop, h))
    with open(path, "w") as f:
        json.dump(dict(property=prop, bucket=bucket, detail=info["detail"],
                       tags=info["tags"], case=info["case"],
                       origin=info.get("origin")), f, indent=1, default=str)
    return path


def run_check(module_name, tier, seed, workers=None, only_parts=None,
              scale=1.0):
    """Run all parts of one property.  Returns the exit code."""
    t0 = time.time()
    setup_repo_path()
    module = importlib.import_module(module_name)
    prop = module.PROPERTY
    known = load_known_findings(prop)
    quick = tier == "quick"
    budget = float(os.environ.get(
        "VERIF_BUDGET_S", getattr(module, "QUICK_BUDGET_S", 300) if quick
        else getattr(module, "THOROUGH_BUDGET_S", 1500)))

    total = ShardResult()
    exhaustive_parts = []
    part_evals = {}

    # 1. committed regression cases (seconds).  They run in a forked child
    # like every other task: the parent process never executes library code
    # (a library that compiles something lazily - numba - in the parent would
    # hand half-initialised compiler state to the forked workers)
    regress = load_regress_cases(prop)
    if regress:
        ctx_ = multiprocessing.get_context("fork")
        with ctx_.Pool(1) as pool_:
            total.merge(pool_.apply(_regress_child, (module_name, regress)))
    total.extra["regress_cases"] += len(regress)

    # 2. tasks
    tasks = []
    for part in module.PARTS:
        if only_parts and part.name not in only_parts:
            continue
        if part.enumerate is not None:
            cases = list(part.enumerate(tier))
            nsh = part.quick_shards if quick else part.thorough_shards
            for i, ch in enumerate(_chunks(cases, nsh)):
                tasks.append(dict(module=module_name, part=part.name,
                                  tier=tier, seed=seed, shard=i, n=len(ch),
                                  budget_s=budget, mode="explore",
                                  kind="enum", cases=ch, target=None))
            if part.exhaustive and cases:
                exhaustive_parts.append(part.name)
        if part.strategy is not None:
            n = part.quick if quick else part.thorough
            n = int(math.ceil(n * scale))
            if n <= 0:
                continue
            nsh = part.quick_shards if quick else part.thorough_shards
            nsh = max(1, min(nsh, n))
            per = int(math.ceil(n / float(nsh)))
            for i in range(nsh):
                tasks.append(dict(module=module_name, part=part.name,
                                  tier=tier, seed=seed, shard=i, n=per,
                                  budget_s=budget, mode="explore",
                                  kind="gen", target=None))

    if workers is None:
        workers = int(os.environ.get("VERIF_WORKERS",
                                     8 if quick else 16))
    results = _run_tasks(tasks, workers)
    for task, r in zip(tasks, results):
        part_evals[task["part"]] = part_evals.get(task["part"], 0) + \
            r.evaluations
        for info in r.buckets.values():
            info.setdefault("origin", {})
            info["task"] = {k: v for k, v in task.items() if k != "cases"}
        total.merge(r)

    # 3. triage buckets
    harness_errors = []
    known_seen = collections.OrderedDict()
    new = collections.OrderedDict()
    for bucket, info in total.buckets.items():
        if info.get("harness"):
            harness_errors.append((bucket, info))
            continue
        e = match_known(known, info.get("bucket", bucket), info["tags"])
        if e is not None:
            k = e.get("id") or e.get("what")
            known_seen.setdefault(k, [e, 0])
            known_seen[k][1] += info["count"]
        else:
            new[bucket] = info

    # 4. shrink new buckets found by generated search (max 3)
    shrink_budget = float(os.environ.get("VERIF_SHRINK_S",
                                         0 if quick else 120))
    stasks = []
    for bucket, info in list(new.items())[:3]:
        task = info.get("task")
        if shrink_budget > 0 and task and task["kind"] == "gen":
            st = dict(task)
            st.update(mode="shrink", target=bucket, budget_s=shrink_budget)
            stasks.append((bucket, st))
    if stasks:
        sres = _run_tasks([s for _, s in stasks], workers)
        for (bucket, _), r in zip(stasks, sres):
            if bucket in r.buckets:
                small = r.buckets[bucket]
                small["count"] = new[bucket]["count"]
                small["first_seen_case"] = new[bucket]["case"]
                new[bucket].update(case=small["case"],
                                   detail=small["detail"],
                                   tags=small["tags"])

    # 5. report
    wall = time.time() - t0
    for k, (e, cnt) in known_seen.items():
        print("KNOWN-FINDING: property=%s %s (observed in %d cases)" %
              (prop, e.get("what", k), cnt))
    replay_paths = []
    for bucket, info in new.items():
        path = write_replay(prop, bucket, info)
        replay_paths.append(path)
        print("VIOLATION property=%s replay=%s" % (prop, path))
        print("  bucket=%s\n  detail=%s" % (bucket, info["detail"][:500]))
    for bucket, info in harness_errors:
        sys.stderr.write("HARNESS-ERROR property=%s bucket=%s\n%s\n" %
                         (prop, bucket, info["detail"][:3000]))

    write_evidence(module, tier, seed, total, wall, known_seen, new,
                   exhaustive_parts, part_evals, harness_errors)
    nt = len(total.nontrivial)
    print("%s tier=%s seed=%d evaluations=%d distinct_nontrivial=%d "
          "violations=%d known=%d wall=%.1fs%s" %
          (prop, tier, seed, total.evaluations, nt, len(new),
           len(known_seen), wall,
           " BUDGET-HIT(inconclusive part)" if total.budget_hit else ""))
    if harness_errors:
        return EXIT_HARNESS
    if new:
        return EXIT_VIOLATION
    return EXIT_OK


def _regress_child(module_name, regress):
    setup_repo_path()
    module = importlib.import_module(module_name)
    res = ShardResult()
    for fn, case in regress:
        run_case(module, case, res, dict(part=case.get("part"),
                                         kind="regress", file=fn))
    return res


def _run_tasks(tasks, workers):
    if not tasks:
        return []
    if workers <= 1 or len(tasks) == 1:
        return [run_shard(t) for t in tasks]
    ctx = multiprocessing.get_context("fork")
    with ctx.Pool(min(workers, len(tasks))) as pool:
        return pool.map(run_shard, tasks, chunksize=1)


def _jsonable(x):
    try:
        json.dumps(x)
        return x
    except TypeError:
        return json.loads(json.dumps(x, default=str))


def write_evidence(module, tier, seed, total, wall, known_seen, new,
                   exhaustive_parts, part_evals, harness_errors):
    prop = module.PROPERTY
    samples = list(total.samples.values())[:6]
    if not samples:
        samples = total.plain_samples[:1]
    cov = dict(
        evaluations=total.evaluations,
        distinct_nontrivial=len(total.nontrivial),
        rule=module.RULE,
        samples=_jsonable(samples),
        classes=dict(sorted(total.labels.items())),
        evaluations_per_part=part_evals,
        max_observed_error={k: dict(error=v[0], tolerance=v[1])
                            for k, v in sorted(total.errs.items())},
        counters=dict(total.extra),
        excluded_by_known_finding={str(k): v[1]
                                   for k, v in known_seen.items()},
        budget_hit=total.budget_hit,
        exhaustive_parts=exhaustive_parts,
        exhaustive=False,
        new_violation_buckets=list(new.keys()),
        harness_errors=[b for b, _ in harness_errors],
        repo=REPO,
    )
    ev = dict(property_id=prop, tier=tier, seed=int(seed),
              level=module.LEVEL, coverage=cov,
              assumptions=list(getattr(module, "ASSUMPTIONS", [])),
              wall_s=round(wall, 2), violations=len(new))
    d = os.environ.get("VERIF_EVIDENCE_DIR",
                       os.path.join(VERIF_DIR, "evidence"))
    os.makedirs(d, exist_ok=True)
    tmp = os.path.join(d, ".%s.json.tmp%d" % (prop, os.getpid()))
    with open(tmp, "w") as f:
        json.dump(ev, f, indent=1, default=str)
    os.replace(tmp, os.path.join(d, "%s.json" % prop))


def run_replay(module_name, path):
    setup_repo_path()
    module = importlib.import_module(module_name)
    prop = module.PROPERTY
    with open(path) as f:
        data = json.load(f)
    case = data["case"] if "case" in data else data
    res = ShardResult()
    bucket = run_case(module, case, res, dict(kind="replay", file=path))
    if bucket is None:
        print("%s replay %s: property holds for this case" % (prop, path))
        return EXIT_OK
    info = res.buckets[bucket]
    if info.get("harness"):
        sys.stderr.write("HARNESS-ERROR %s\n%s\n" % (bucket, info["detail"]))
        return EXIT_HARNESS
    e = match_known(load_known_findings(prop), info.get("bucket", bucket),
                    info["tags"])
    if e is not None:
        print("KNOWN-FINDING: property=%s %s" % (prop, e.get("what")))
        return EXIT_OK
    print("VIOLATION property=%s replay=%s" % (prop, path))
    print("  bucket=%s\n  detail=%s" % (bucket, info["detail"][:800]))
    return EXIT_VIOLATION


# ----------------------------------------------------------------------------
# arguments handed to the library stay what the caller passed
# ----------------------------------------------------------------------------
class ArgGuard(object):
    """Watch arrays handed to library calls.  A numpy library function that
    changes its caller's array (a '*=' on an argument, a conjugate() that
    returns the same object, an in-place normalisation of a shared sequence)
    silently corrupts the caller's next use of it, so every property that is
    judged against 'the input' is judged against the array the caller still
    holds.  ``verify`` raises Violation('argument_modified') otherwise."""
    def __init__(self, tags=None):
        self.tags = dict(tags or {})
        self.items = []

    def watch(self, name, arr):
        import numpy as np
        if isinstance(arr, np.ndarray):
            if arr.dtype == object:
                for i, a in enumerate(arr.reshape(-1)):
                    self.watch("%s[%d]" % (name, i), a)
            else:
                self.items.append((name, arr, arr.copy()))
        elif isinstance(arr, (list, tuple)):
            for i, a in enumerate(arr):
                self.watch("%s[%d]" % (name, i), a)
        return arr

    def verify(self, where=""):
        import numpy as np
        for name, arr, saved in self.items:
            same = arr.shape == saved.shape and (
                np.array_equal(arr, saved) or
                (arr.dtype.kind in "fc" and
                 np.array_equal(np.isnan(arr), np.isnan(saved)) and
                 np.array_equal(np.nan_to_num(arr), np.nan_to_num(saved))))
            if not same:
                raise Violation(
                    "argument_modified", "the library changed the array "
                    "'%s' handed to it%s (shape %r -> %r)" %
                    (name, " in " + where if where else "", saved.shape,
                     arr.shape), dict(self.tags, argument=name))


class GuardedCalls(object):
    """Context manager: while active, the listed library callables verify
    that a DIRECT call from the checking code (module name starting with
    'vpbt') leaves every ndarray argument unchanged (see ArgGuard).  Calls
    the library makes internally are not touched.  targets: iterable of
    (owner, attribute name) with owner a module or a class."""
    KEEP_RESULTS = 12

    def __init__(self, targets, tags=None, watch_results=True):
        self.targets = list(targets)
        self.tags = dict(tags or {})
        self.saved = []
        # arrays handed OUT by earlier guarded calls: a later library call
        # must not change them (a method that returns a view of a buffer it
        # re-uses overwrites the result its caller still holds)
        self.watch_results = watch_results
        self.results = []

    def _verify_results(self, where):
        import numpy as np
        for label, arr, saved in self.results:
            same = arr.shape == saved.shape and (
                np.array_equal(arr, saved) or
                (arr.dtype.kind in "fc" and
                 np.array_equal(np.isnan(arr), np.isnan(saved)) and
                 np.array_equal(np.nan_to_num(arr), np.nan_to_num(saved))))
            if not same:
                self.results = []
                raise Violation(
                    "earlier_result_modified", "an array returned earlier by "
                    "%s was changed by the later call %s" % (label, where),
                    dict(self.tags, returned_by=label, changed_by=where))

    def _register_results(self, label, out, argarrays, depth=0):
        import numpy as np
        if isinstance(out, np.ndarray):
            if out.dtype == object:
                for a in out.reshape(-1):
                    self._register_results(label, a, argarrays, depth + 1)
            elif out.size and not any(np.may_share_memory(out, a)
                                      for a in argarrays):
                self.results.append((label, out, out.copy()))
        elif isinstance(out, (list, tuple)) and depth < 3:
            for a in out:
                self._register_results(label, a, argarrays, depth + 1)
        if depth == 0 and len(self.results) > self.KEEP_RESULTS:
            del self.results[:len(self.results) - self.KEEP_RESULTS]

    def _wrap(self, fn, label):
        tags = self.tags

        def wrapper(*args, **kwargs):
            caller = sys._getframe(1).f_globals.get("__name__", "")
            if not caller.startswith("vpbt"):
                return fn(*args, **kwargs)
            g = ArgGuard(tags)
            for i, a in enumerate(args):
                g.watch("argument %d" % i, a)
            for k, a in kwargs.items():
                g.watch("argument %s" % k, a)
            out = fn(*args, **kwargs)
            g.verify(label)
            if self.watch_results:
                self._verify_results(label)
                self._register_results(label, out,
                                       [it[1] for it in g.items])
            return out
        wrapper.__name__ = getattr(fn, "__name__", "wrapped")
        wrapper.__doc__ = getattr(fn, "__doc__", None)
        return wrapper

    def __enter__(self):
        import inspect
        for owner, name in self.targets:
            raw = owner.__dict__.get(name) if inspect.isclass(owner) \
                else getattr(owner, name, None)
            if raw is None:
                # inherited attribute / renamed function: nothing to wrap
                continue
            label = "%s.%s" % (getattr(owner, "__name__", owner), name)
            if isinstance(raw, staticmethod):
                new = staticmethod(self._wrap(raw.__func__, label))
            elif isinstance(raw, classmethod) or isinstance(raw, property):
                continue
            else:
                new = self._wrap(raw, label)
            self.saved.append((owner, name, raw))
            setattr(owner, name, new)
        return self

    def __exit__(self, *exc):
        for owner, name, raw in reversed(self.saved):
            setattr(owner, name, raw)
        self.saved = []
        return False
